//! helpers shared by the later reproducers (d13 ...)
pub use libz_rs_sys::*;
use std::mem::MaybeUninit;

pub fn zs() -> Box<z_stream> {
    Box::new(unsafe { MaybeUninit::<z_stream>::zeroed().assume_init() })
}
pub const SZ: i32 = core::mem::size_of::<z_stream>() as i32;

/// deflate `data` in one call
pub fn deflate_all(level: i32, wbits: i32, mem: i32, strategy: i32, data: &[u8]) -> Vec<u8> {
    unsafe {
        let mut s = zs();
        assert_eq!(deflateInit2_(&mut *s, level, Z_DEFLATED, wbits, mem, strategy, zlibVersion(), SZ), Z_OK);
        let mut out = vec![0u8; data.len() * 2 + 1024];
        s.next_in = data.as_ptr() as *mut u8;
        s.avail_in = data.len() as u32;
        s.next_out = out.as_mut_ptr();
        s.avail_out = out.len() as u32;
        assert_eq!(deflate(&mut *s, Z_FINISH), Z_STREAM_END);
        let n = s.total_out as usize;
        deflateEnd(&mut *s);
        out.truncate(n);
        out
    }
}

pub struct Rng(pub u64);
impl Rng {
    pub fn new(seed: u64) -> Self {
        let mut r = Rng(seed.wrapping_mul(0x9E3779B97F4A7C15) ^ 0xD1B54A32D192ED03);
        for _ in 0..4 {
            r.next();
        }
        r
    }
    pub fn next(&mut self) -> u64 {
        let mut x = self.0;
        x ^= x << 13;
        x ^= x >> 7;
        x ^= x << 17;
        self.0 = x;
        x
    }
}
