//! D10: deflate()'s header arms Name/Comment/Hcrc hand the whole field to flush_bytes on re-entry
//! (only Extra resumes from gzindex). With a name longer than the pending buffer (memLevel 1: 512 B)
//! and small output chunks the name restarts on every call: output grows without bound.
use libz_rs_sys::*;
use std::mem::MaybeUninit;

unsafe fn run(chunk: usize) -> (i32, Vec<u8>) {
    let mut strm = MaybeUninit::<z_stream>::zeroed();
    assert_eq!(deflateInit2_(strm.as_mut_ptr(), 6, Z_DEFLATED, 31, 1, Z_DEFAULT_STRATEGY, zlibVersion(), core::mem::size_of::<z_stream>() as i32), Z_OK);
    let strm = strm.assume_init_mut();
    let mut name: Vec<u8> = (0..2000).map(|i| b'a' + (i % 26) as u8).collect();
    name.push(0);
    let mut head: gz_header = core::mem::zeroed();
    head.name = name.as_mut_ptr();
    head.os = 3;
    assert_eq!(deflateSetHeader(strm, &mut head), Z_OK);
    let input = b"hello";
    strm.next_in = input.as_ptr() as *mut u8;
    strm.avail_in = input.len() as u32;
    let mut out = Vec::new();
    let mut buf = vec![0u8; chunk];
    let mut ret = Z_OK;
    for _ in 0..2000 {
        strm.next_out = buf.as_mut_ptr();
        strm.avail_out = chunk as u32;
        ret = deflate(strm, Z_FINISH);
        out.extend_from_slice(&buf[..chunk - strm.avail_out as usize]);
        if ret != Z_OK { break; }
    }
    deflateEnd(strm);
    (ret, out)
}

fn main() {
    unsafe {
        let (r_big, big) = run(10000);
        let (r_small, small) = run(50);
        println!("ample output: ret {r_big}, {} bytes; 50-byte chunks: ret {r_small}, {} bytes", big.len(), small.len());
        if r_small == Z_STREAM_END && small == big {
            println!("D10 absent: chunked output equals one-shot output");
        } else {
            println!("D10 PRESENT: gzip header with a 2000-byte name is not resumable across small output chunks");
            std::process::exit(1);
        }
    }
}
