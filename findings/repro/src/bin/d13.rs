//! D13: inflateSync shifts the bit buffer the wrong way before searching it (`bit_buffer <<= bits_used & 7`; zlib >= 1.2.12 and
//! zlib-ng: `hold >>= bits & 7`).  When inflate() ran out of input inside a multi-byte field, a 00 00 FF FF marker that starts in
//! the bit buffer is missed: Z_DATA_ERROR, all input skipped, where the reference finds the flush point and resumes.
use repro::*;
fn main() {
    unsafe {
        let first = [0xFCu8, 0x00]; // BFINAL=0, BTYPE=2, 5 bits of HLIT, then 00: 13 bits held, 14 needed
        let rest = [0x00u8, 0xFF, 0xFF, 0x03, 0x00]; // rest of the marker, then an empty final fixed block
        let mut out = [0u8; 64];
        let mut s = zs();
        assert_eq!(inflateInit2_(&mut *s, -15, zlibVersion(), SZ), Z_OK);
        s.next_in = first.as_ptr() as *mut u8; s.avail_in = 2;
        s.next_out = out.as_mut_ptr(); s.avail_out = 64;
        assert_eq!(inflate(&mut *s, Z_NO_FLUSH), Z_OK);
        s.next_in = rest.as_ptr() as *mut u8; s.avail_in = rest.len() as u32;
        let r = inflateSync(&mut *s);
        let left = s.avail_in;
        let f = inflate(&mut *s, Z_FINISH);
        println!("inflateSync = {r} (zlib-ng: 0), avail_in after = {left} (zlib-ng: 2), inflate(rest) = {f} (zlib-ng: 1)");
        inflateEnd(&mut *s);
        if (r, left, f) != (Z_OK, 2, Z_STREAM_END) {
            println!("D13 PRESENT: the flush point whose first byte was already in the bit buffer is missed");
            std::process::exit(1);
        }
        println!("D13 absent");
    }
}
