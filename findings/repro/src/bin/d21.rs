//! D21: deflatePrime after the stream has finished, then deflate(Z_FINISH) again: zlib-ng answers Z_STREAM_END at once
//! (`if (s->wrap <= 0) return Z_STREAM_END` after a finished stream has written its trailer); zlib-rs reaches
//! `assert_eq!(bits_valid, 0, "bi_buf not flushed")` inside extern "C" deflate -> abort (release builds too).
use repro::*;
fn main() {
    unsafe {
        let mut s = zs();
        let mut out = vec![0u8; 256];
        assert_eq!(deflateInit2_(&mut *s, 6, Z_DEFLATED, 15, 8, Z_DEFAULT_STRATEGY, zlibVersion(), SZ), Z_OK);
        let data = b"some data";
        s.next_in = data.as_ptr() as *mut u8; s.avail_in = data.len() as u32;
        s.next_out = out.as_mut_ptr(); s.avail_out = out.len() as u32;
        assert_eq!(deflate(&mut *s, Z_FINISH), Z_STREAM_END);
        let p = deflatePrime(&mut *s, 3, 5);
        let r = deflate(&mut *s, Z_FINISH); // aborts here when the defect is present
        println!("deflatePrime after the end = {p}, second deflate(Z_FINISH) = {r} (zlib-ng: 0, 1)");
        deflateEnd(&mut *s);
        if r != Z_STREAM_END { println!("D21 PRESENT"); std::process::exit(1); }
        println!("D21 absent");
    }
}
