//! D16: deflatePrime does not check that the pending buffer has room for the bytes it flushes (zlib-ng: Z_BUF_ERROR when
//! `sym_buf < pending_out + ((BIT_BUF_SIZE + 7) >> 3)`): Pending::extend's assertion panics inside an extern "C" function -> abort.
use repro::*;
fn main() {
    unsafe {
        let mut s = zs();
        assert_eq!(deflateInit2_(&mut *s, 6, Z_DEFLATED, -15, 1, Z_DEFAULT_STRATEGY, zlibVersion(), SZ), Z_OK);
        let mut last = Z_OK;
        let mut calls = 0;
        for i in 0..400 {
            last = deflatePrime(&mut *s, 16, 0x5555);
            calls = i + 1;
            if last != Z_OK { break; }
        }
        println!("deflatePrime stopped with {last} after {calls} calls (512-byte pending buffer)");
        deflateEnd(&mut *s);
        if last != Z_BUF_ERROR {
            println!("D16 PRESENT");
            std::process::exit(1);
        }
        println!("D16 absent (Z_BUF_ERROR once the pending buffer is full)");
    }
}
