//! D20: gz_error builds its message with `CStr::from_ptr(path).to_str().unwrap()`: for a file whose name is not UTF-8 the first
//! recorded error (here: gzwrite of more than INT_MAX bytes, documented to return 0 with Z_DATA_ERROR) panics inside an
//! extern "C" function -> abort.
use repro::*;
fn main() {
    unsafe {
        let path = b"/tmp/repro-d20-caf\xe9-\xff\xfe.gz\0";
        let f = gzopen(path.as_ptr() as *const _, b"wb\0".as_ptr() as *const _);
        assert!(!f.is_null());
        let buf = [0u8; 16];
        assert_eq!(gzwrite(f, buf.as_ptr() as *const _, 16), 16);
        let r = gzwrite(f, buf.as_ptr() as *const _, 0x8000_0000u32); // aborts here when the defect is present
        let mut err = 0;
        let _ = gzerror(f, &mut err);
        println!("gzwrite(2^31 bytes) = {r}, gzerror = {err} (zlib: 0, -3)");
        gzclose(f);
        libc::unlink(path.as_ptr() as *const _);
        if r != 0 || err != Z_DATA_ERROR { println!("D20 PRESENT"); std::process::exit(1); }
        println!("D20 absent");
    }
}
