//! D1: Pending::reset_keep does not reset `out`. deflateReset after a partially drained pending
//! buffer leaves a stale offset; the next stream panics in Pending::extend (abort across the C ABI).
use libz_rs_sys::*;
use std::mem::MaybeUninit;

fn main() {
    unsafe {
        let mut strm = MaybeUninit::<z_stream>::zeroed();
        let ret = deflateInit2_(strm.as_mut_ptr(), 0, Z_DEFLATED, -15, 8, Z_DEFAULT_STRATEGY,
            zlibVersion(), core::mem::size_of::<z_stream>() as i32);
        assert_eq!(ret, Z_OK);
        let strm = strm.assume_init_mut();
        let input = vec![0x55u8; 65000];
        let mut out = vec![0u8; 100000];
        strm.next_in = input.as_ptr() as *mut u8;
        strm.avail_in = 65000;
        strm.next_out = out.as_mut_ptr();
        strm.avail_out = 1;
        deflate(strm, Z_NO_FLUSH);
        strm.avail_out = 40000;
        deflate(strm, Z_NO_FLUSH);
        let mut pending = 0u32; let mut bits = 0i32;
        deflatePending(strm, &mut pending, &mut bits);
        eprintln!("pending before reset: {pending}");
        assert_eq!(deflateReset(strm), Z_OK);
        let input2 = vec![0x66u8; 30000];
        strm.next_in = input2.as_ptr() as *mut u8;
        strm.avail_in = 30000;
        strm.next_out = out.as_mut_ptr();
        strm.avail_out = 1;
        let r = std::panic::catch_unwind(std::panic::AssertUnwindSafe(|| {
            deflate(strm, Z_NO_FLUSH);
            strm.avail_out = 1;
            deflate(strm, Z_FINISH)
        }));
        match r {
            Ok(code) => { println!("D1 absent: deflate returned {code}"); }
            Err(_) => { println!("D1 PRESENT: deflate panicked after deflateReset"); std::process::exit(1); }
        }
    }
}
