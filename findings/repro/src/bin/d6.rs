//! D6: deflateCopy / inflateCopy copy the whole z_stream into `dest` before allocating; when the
//! allocation fails they return Z_MEM_ERROR with dest.state still pointing at the SOURCE's state, so a
//! (documented-as-safe) deflateEnd(dest) frees the source stream's memory.
use libz_rs_sys::*;
use std::ffi::c_void;
use std::mem::MaybeUninit;
use std::sync::atomic::{AtomicBool, Ordering};
static FAIL: AtomicBool = AtomicBool::new(false);
unsafe extern "C" fn za(_o: *mut c_void, items: u32, size: u32) -> *mut c_void {
    if FAIL.load(Ordering::Relaxed) { return std::ptr::null_mut(); }
    libc::malloc((items as usize) * (size as usize))
}
unsafe extern "C" fn zf(_o: *mut c_void, p: *mut c_void) { libc::free(p) }
fn main() { unsafe {
    let mut bad = 0;
    {
        let mut src = MaybeUninit::<z_stream>::zeroed();
        (*src.as_mut_ptr()).zalloc = Some(za); (*src.as_mut_ptr()).zfree = Some(zf);
        assert_eq!(deflateInit_(src.as_mut_ptr(), 6, zlibVersion(), core::mem::size_of::<z_stream>() as i32), Z_OK);
        let src = src.assume_init_mut();
        let mut dst = MaybeUninit::<z_stream>::zeroed();
        FAIL.store(true, Ordering::Relaxed);
        let r = deflateCopy(dst.as_mut_ptr(), src);
        FAIL.store(false, Ordering::Relaxed);
        let d = dst.assume_init_mut();
        println!("deflateCopy with failing allocator -> {r}; dest.state aliases source.state: {}", d.state == src.state && !d.state.is_null());
        if d.state == src.state && !d.state.is_null() { bad += 1; }
        deflateEnd(src);
    }
    {
        let mut src = MaybeUninit::<z_stream>::zeroed();
        (*src.as_mut_ptr()).zalloc = Some(za); (*src.as_mut_ptr()).zfree = Some(zf);
        assert_eq!(inflateInit_(src.as_mut_ptr(), zlibVersion(), core::mem::size_of::<z_stream>() as i32), Z_OK);
        let src = src.assume_init_mut();
        let mut o = [0u8; 4]; src.next_out = o.as_mut_ptr();
        let mut dst = MaybeUninit::<z_stream>::zeroed();
        FAIL.store(true, Ordering::Relaxed);
        let r = inflateCopy(dst.as_mut_ptr(), src);
        FAIL.store(false, Ordering::Relaxed);
        let d = dst.assume_init_mut();
        println!("inflateCopy with failing allocator -> {r}; dest.state aliases source.state: {}", d.state == src.state && !d.state.is_null());
        if d.state == src.state && !d.state.is_null() { bad += 1; }
        inflateEnd(src);
    }
    if bad > 0 { println!("D6 PRESENT: after a failed copy, End(dest) would free the source's state"); std::process::exit(1); }
    println!("D6 absent: a failed copy leaves dest without a state");
} }
