//! D19: inflateResetKeep clears strm->msg but not the state's stored error message; the next successful inflate() publishes the
//! old text again: Z_STREAM_END with msg = "invalid block type".  zlib-ng: msg stays NULL.
use repro::*;
fn main() {
    unsafe {
        let good = deflate_all(6, -15, 8, Z_DEFAULT_STRATEGY, b"hello hello hello");
        let bad = [0x07u8, 0, 0];
        let mut out = [0u8; 128];
        let mut s = zs();
        assert_eq!(inflateInit2_(&mut *s, -15, zlibVersion(), SZ), Z_OK);
        s.next_in = bad.as_ptr() as *mut u8; s.avail_in = 3;
        s.next_out = out.as_mut_ptr(); s.avail_out = 128;
        assert_eq!(inflate(&mut *s, Z_NO_FLUSH), Z_DATA_ERROR);
        assert!(!s.msg.is_null());
        assert_eq!(inflateResetKeep(&mut *s), Z_OK);
        assert!(s.msg.is_null());
        s.next_in = good.as_ptr() as *mut u8; s.avail_in = good.len() as u32;
        s.next_out = out.as_mut_ptr(); s.avail_out = 128;
        let r = inflate(&mut *s, Z_FINISH);
        let msg = if s.msg.is_null() { None } else { Some(std::ffi::CStr::from_ptr(s.msg).to_string_lossy().into_owned()) };
        println!("inflate of a valid stream after inflateResetKeep = {r}, msg = {msg:?} (zlib-ng: 1, None)");
        inflateEnd(&mut *s);
        if r != Z_STREAM_END || msg.is_some() { println!("D19 PRESENT"); std::process::exit(1); }
        println!("D19 absent");
    }
}
