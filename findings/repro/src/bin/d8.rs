//! D8: Allocator::allocate_layout's Rust-allocator fast path casts `layout.size() as c_uint`.
//! gzbuffer(f, 0x8000_0001) makes gz_init ask for 2^32+2 bytes; the size is truncated to 2, the
//! allocation "succeeds", and gzwrite copies into a 2-byte buffer (heap overflow; valgrind: Invalid write).
//! Here only a few bytes are written so that the demonstration itself does not trash the heap badly.
use libz_rs_sys::*;
use std::ffi::CString;
fn main() {
    unsafe {
        let path = CString::new("/tmp/verif_d8_test.gz").unwrap();
        let mode = CString::new("w").unwrap();
        let f = gzopen(path.as_ptr(), mode.as_ptr());
        assert!(!f.is_null());
        let r = gzbuffer(f, 0x8000_0001);
        let data = [0x41u8; 8];
        let n = gzwrite(f, data.as_ptr().cast(), data.len() as u32);
        println!("gzbuffer -> {r}, gzwrite(8 bytes) -> {n}");
        if n == 8 {
            println!("D8 PRESENT: a 2^32+2 byte buffer request was satisfied (allocation size truncated to 32 bits) and written into");
            std::process::exit(1);
        } else {
            println!("D8 absent: oversized buffer request failed cleanly");
        }
        gzclose(f);
    }
}
