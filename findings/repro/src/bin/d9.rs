//! D9: gz_zero is called before gz_init by gzflush/gzputc/gzsetparams/gzclose_w. With in_size == 0
//! its first iteration writes 0 zero bytes, spends the `first` flag, and gz_comp then allocates an
//! input buffer that is never zero-filled: a pending forward seek emits heap garbage instead of zeros.
use libz_rs_sys::*;
use std::ffi::CString;

fn dirty_heap() {
    // leave 0xAA-filled freed blocks of the sizes the gz layer is about to allocate
    let mut v = Vec::new();
    for _ in 0..64 {
        for sz in [8192usize, 8192 + 64, 4096, 16384] {
            let layout = std::alloc::Layout::from_size_align(sz, 64).unwrap();
            unsafe {
                let p = std::alloc::alloc(layout);
                std::ptr::write_bytes(p, 0xAA, sz);
                v.push((p, layout));
            }
        }
    }
    for (p, l) in v { unsafe { std::alloc::dealloc(p, l) } }
}

fn main() {
    unsafe {
        let path = CString::new("/tmp/verif_d9_test.gz").unwrap();
        let f = gzopen(path.as_ptr(), CString::new("w").unwrap().as_ptr());
        assert!(!f.is_null());
        assert_eq!(gzbuffer(f, 4096), 0);
        dirty_heap();
        assert_eq!(gzseek(f, 1000, 0 /* SEEK_SET */), 1000);
        assert_eq!(gzclose(f), Z_OK);
        let r = gzopen(path.as_ptr(), CString::new("r").unwrap().as_ptr());
        let mut buf = vec![0x55u8; 2000];
        let n = gzread(r, buf.as_mut_ptr().cast(), 2000);
        gzclose(r);
        let nonzero = buf[..n.max(0) as usize].iter().filter(|b| **b != 0).count();
        println!("read back {n} bytes, {nonzero} of them non-zero (first: {:02x?})", &buf[..8]);
        if n != 1000 || nonzero != 0 {
            println!("D9 PRESENT: a forward seek in write mode did not produce 1000 zero bytes");
            std::process::exit(1);
        }
        println!("D9 absent: forward seek produced 1000 zero bytes");
    }
}
