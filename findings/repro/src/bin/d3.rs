//! D3: inflateUndermine(strm, -1) clears the SANE flag (`(!subvert) != 0` is a bitwise not); a
//! too-far distance then reaches panic!("INFLATE_ALLOW_INVALID_DISTANCE_TOOFAR_ARRR") -> abort.
use libz_rs_sys::*;
use std::mem::MaybeUninit;
struct BitW { out: Vec<u8>, acc: u64, n: u32 }
impl BitW {
    fn lsb(&mut self, v: u32, bits: u32) { self.acc |= (v as u64) << self.n; self.n += bits; while self.n >= 8 { self.out.push(self.acc as u8); self.acc >>= 8; self.n -= 8; } }
    fn msb(&mut self, v: u32, bits: u32) { for i in (0..bits).rev() { self.lsb((v >> i) & 1, 1); } }
    fn finish(mut self) -> Vec<u8> { if self.n > 0 { self.out.push(self.acc as u8); } self.out }
}
fn main() {
    let mut w = BitW { out: vec![], acc: 0, n: 0 };
    w.lsb(1, 1); w.lsb(1, 2); w.msb(0x30 + 97, 8); w.msb(1, 7); w.msb(19, 5); w.lsb(1000 - 769, 8); w.msb(0, 7);
    let data = w.finish();
    unsafe {
        let mut strm = MaybeUninit::<z_stream>::zeroed();
        assert_eq!(inflateInit2_(strm.as_mut_ptr(), -15, zlibVersion(), core::mem::size_of::<z_stream>() as i32), Z_OK);
        let strm = strm.assume_init_mut();
        let u = inflateUndermine(strm, -1);
        let mut out = vec![0u8; 4096];
        strm.next_in = data.as_ptr() as *mut u8; strm.avail_in = data.len() as u32;
        strm.next_out = out.as_mut_ptr(); strm.avail_out = out.len() as u32;
        let r = std::panic::catch_unwind(std::panic::AssertUnwindSafe(|| inflate(strm, Z_FINISH)));
        match r {
            Ok(code) if code == Z_DATA_ERROR => println!("D3 absent: inflateUndermine(-1) returned {u}; too-far distance rejected with Z_DATA_ERROR"),
            Ok(code) => { println!("D3 PRESENT?: inflate returned {code}"); std::process::exit(1) }
            Err(_) => { println!("D3 PRESENT: inflate panicked after inflateUndermine(strm, -1)"); std::process::exit(1) }
        }
    }
}
