//! D14: deflateSetDictionary keeps a dictionary of w_size <= len < 2*w_size whole (`len >= window.capacity()`, capacity = 2*w_size)
//! where zlib-ng keeps the last w_size bytes (`dictLength >= s->w_size`): total_in grows by len instead of w_size, and what the
//! window holds (hence the matches found and the bytes emitted) differs from the reference.
use repro::*;
fn main() {
    unsafe {
        let mut bad = 0;
        for (wbits, len) in [(-12i32, 5000usize), (-12, 8191), (-9, 700), (-15, 65535)] {
            let wsize = 1usize << (-wbits);
            let dict: Vec<u8> = (0..len).map(|i| (i * 31 % 251) as u8).collect();
            let mut s = zs();
            assert_eq!(deflateInit2_(&mut *s, 6, Z_DEFLATED, wbits, 8, Z_DEFAULT_STRATEGY, zlibVersion(), SZ), Z_OK);
            assert_eq!(deflateSetDictionary(&mut *s, dict.as_ptr(), len as u32), Z_OK);
            let want = len.min(wsize);
            println!("windowBits {wbits} dictLength {len}: total_in after deflateSetDictionary = {} (zlib-ng: {want})", s.total_in);
            if s.total_in as usize != want { bad += 1; }
            deflateEnd(&mut *s);
        }
        if bad != 0 {
            println!("D14 PRESENT: {bad} case(s) load more than one window of dictionary");
            std::process::exit(1);
        }
        println!("D14 absent");
    }
}
