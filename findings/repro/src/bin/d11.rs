//! D11: after a successful inflateSync the next inflate() call overwrites strm.total_out with the bytes produced since
//! the sync point: inflate::sync restores stream.total_out around reset(), but inflate() assigns
//! `stream.total_out = state.total` and reset_keep zeroed state.total.  zlib adds the call's output to total_out.
use libz_rs_sys::*;
use std::mem::MaybeUninit;
fn main() {
    unsafe {
        // raw deflate: part1 + FULL_FLUSH, part2 + FULL_FLUSH, part3 + FINISH
        let mut d = MaybeUninit::<z_stream>::zeroed();
        assert_eq!(deflateInit2_(d.as_mut_ptr(), 6, Z_DEFLATED, -15, 8, Z_DEFAULT_STRATEGY, zlibVersion(), core::mem::size_of::<z_stream>() as i32), Z_OK);
        let d = d.assume_init_mut();
        let parts: [&[u8]; 3] = [b"0123456789", b"abcdefghijklmnopqrstuvwxyz", b"ABCDEFGHIJKLMNOPQRSTUVWXYZ012345"];
        let mut comp = vec![0u8; 1024];
        let mut ends = vec![];
        d.next_out = comp.as_mut_ptr(); d.avail_out = comp.len() as u32;
        for (i, p) in parts.iter().enumerate() {
            d.next_in = p.as_ptr() as *mut u8; d.avail_in = p.len() as u32;
            let r = deflate(d, if i == 2 { Z_FINISH } else { Z_FULL_FLUSH });
            assert!(r == Z_OK || r == Z_STREAM_END);
            ends.push(d.total_out as usize);
        }
        deflateEnd(d);
        let mut s = MaybeUninit::<z_stream>::zeroed();
        assert_eq!(inflateInit2_(s.as_mut_ptr(), -15, zlibVersion(), core::mem::size_of::<z_stream>() as i32), Z_OK);
        let s = s.assume_init_mut();
        let mut out = vec![0u8; 256];
        s.next_out = out.as_mut_ptr(); s.avail_out = out.len() as u32;
        s.next_in = comp.as_mut_ptr(); s.avail_in = ends[0] as u32;
        assert_eq!(inflate(s, Z_SYNC_FLUSH), Z_OK);
        assert_eq!(s.total_out, 10);
        // skip part 2 by synchronising on the flush marker at its end
        s.next_in = comp.as_mut_ptr().add(ends[0]); s.avail_in = (ends[1] - ends[0]) as u32;
        let r = inflateSync(s);
        assert_eq!(r, Z_OK, "inflateSync");
        assert_eq!(s.total_out, 10, "inflateSync keeps total_out");
        s.next_in = comp.as_mut_ptr().add(ends[1]); s.avail_in = (ends[2] - ends[1]) as u32;
        let r = inflate(s, Z_FINISH);
        let written = out.len() - s.avail_out as usize;
        println!("inflate after sync: ret={r} bytes written to out in total={written} total_out={}", s.total_out);
        inflateEnd(s);
        if s.total_out as usize != written {
            println!("D11 PRESENT: total_out ({}) != sum of the bytes produced by all calls ({written})", s.total_out);
            std::process::exit(1);
        }
        println!("D11 absent");
    }
}
