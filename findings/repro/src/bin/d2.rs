//! D2: State.block_open is not cleared by deflateReset: level-1 stream reset inside an open
//! block starts the next stream with a stray end-of-block; the output is not a valid stream.
use libz_rs_sys::*;
use std::mem::MaybeUninit;

unsafe fn inflate_raw(data: &[u8], out: &mut [u8]) -> (i32, usize) {
    let mut strm = MaybeUninit::<z_stream>::zeroed();
    assert_eq!(inflateInit2_(strm.as_mut_ptr(), -15, zlibVersion(), core::mem::size_of::<z_stream>() as i32), Z_OK);
    let strm = strm.assume_init_mut();
    strm.next_in = data.as_ptr() as *mut u8;
    strm.avail_in = data.len() as u32;
    strm.next_out = out.as_mut_ptr();
    strm.avail_out = out.len() as u32;
    let r = inflate(strm, Z_FINISH);
    let n = strm.total_out as usize;
    inflateEnd(strm);
    (r, n)
}

fn main() {
    unsafe {
        let mut strm = MaybeUninit::<z_stream>::zeroed();
        let ret = deflateInit2_(strm.as_mut_ptr(), 1, Z_DEFLATED, -15, 8, Z_DEFAULT_STRATEGY,
            zlibVersion(), core::mem::size_of::<z_stream>() as i32);
        assert_eq!(ret, Z_OK);
        let strm = strm.assume_init_mut();
        let input: Vec<u8> = (0..5000u32).map(|i| (i * 7 % 251) as u8).collect();
        let mut out = vec![0u8; 100000];
        strm.next_in = input.as_ptr() as *mut u8;
        strm.avail_in = input.len() as u32;
        strm.next_out = out.as_mut_ptr();
        strm.avail_out = out.len() as u32;
        assert_eq!(deflate(strm, Z_NO_FLUSH), Z_OK);
        assert_eq!(deflateReset(strm), Z_OK);
        let input2 = b"hello hello hello hello";
        strm.next_in = input2.as_ptr() as *mut u8;
        strm.avail_in = input2.len() as u32;
        strm.next_out = out.as_mut_ptr();
        strm.avail_out = out.len() as u32;
        assert_eq!(deflate(strm, Z_FINISH), Z_STREAM_END);
        let n = strm.total_out as usize;
        deflateEnd(strm);
        let mut back = vec![0u8; 1000];
        let (r, m) = inflate_raw(&out[..n], &mut back);
        if r == Z_STREAM_END && &back[..m] == input2 {
            println!("D2 absent: stream after reset round-trips");
        } else {
            println!("D2 PRESENT: stream after deflateReset does not decode: inflate={r} out={m} first bytes {:02x?}", &out[..n.min(8)]);
            std::process::exit(1);
        }
    }
}
