//! D24: deflateTune(strm, good, lazy, nice, max_chain = 0) followed by deflate at a level that uses longest_match:
//! `chain_length -= 1` on a u16 that is 0 (or becomes 0 after `>>= 2` when max_chain < 4 and a good match is held)
//! overflows -> panic inside extern "C" deflate -> abort in builds with overflow checks. zlib-ng's `--chain_length`
//! on an unsigned wraps and the walk ends at the chain's limit; release builds of zlib-rs wrap the same way.
use repro::*;
fn main() {
    unsafe {
        let mut s = zs();
        let mut out = vec![0u8; 1 << 16];
        assert_eq!(deflateInit2_(&mut *s, 6, Z_DEFLATED, 15, 8, Z_DEFAULT_STRATEGY, zlibVersion(), SZ), Z_OK);
        assert_eq!(deflateTune(&mut *s, 4, 4, 258, 0), Z_OK);
        let mut data = Vec::new();
        for i in 0..4000u32 { data.extend_from_slice(b"abcdefgh"); data.push((i % 7) as u8); }
        s.next_in = data.as_ptr() as *mut u8; s.avail_in = data.len() as u32;
        s.next_out = out.as_mut_ptr(); s.avail_out = out.len() as u32;
        let r = deflate(&mut *s, Z_FINISH); // aborts here when the defect is present (overflow checks on)
        println!("deflate after deflateTune(max_chain=0) = {r}");
        deflateEnd(&mut *s);
        if r != Z_STREAM_END { println!("D24 PRESENT"); std::process::exit(1); }
        println!("D24 absent");
    }
}
