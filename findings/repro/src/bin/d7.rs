//! D7: gzungetc ignores the failure of gz_look. If the read buffers cannot be allocated, out_size
//! stays 0 and `state.output.add(state.out_size - 1)` underflows: debug builds panic (abort across the
//! C ABI), release builds write through a wild pointer. Needs a failing allocator: the gz layer uses the
//! global Rust allocator, so this program installs one that can be told to fail.
use libz_rs_sys::*;
use std::alloc::{GlobalAlloc, Layout, System};
use std::ffi::CString;
use std::sync::atomic::{AtomicBool, Ordering};
struct Flaky;
static FAIL: AtomicBool = AtomicBool::new(false);
unsafe impl GlobalAlloc for Flaky {
    unsafe fn alloc(&self, l: Layout) -> *mut u8 {
        if FAIL.load(Ordering::Relaxed) && l.size() >= 4096 { return std::ptr::null_mut(); }
        System.alloc(l)
    }
    unsafe fn dealloc(&self, p: *mut u8, l: Layout) { System.dealloc(p, l) }
}
#[global_allocator]
static A: Flaky = Flaky;
fn main() { unsafe {
    let path = CString::new("/tmp/verif_d7_test.gz").unwrap();
    let w = gzopen(path.as_ptr(), CString::new("w").unwrap().as_ptr());
    gzwrite(w, b"hello".as_ptr().cast(), 5); gzclose(w);
    let f = gzopen(path.as_ptr(), CString::new("r").unwrap().as_ptr());
    assert!(!f.is_null());
    FAIL.store(true, Ordering::Relaxed);
    let r = std::panic::catch_unwind(|| gzungetc(b'x' as i32, f));
    FAIL.store(false, Ordering::Relaxed);
    match r {
        Ok(-1) => println!("D7 absent: gzungetc reported failure when its buffers could not be allocated"),
        Ok(v) => { println!("D7 PRESENT: gzungetc returned {v} without buffers (wild write)"); std::process::exit(1) }
        Err(_) => { println!("D7 PRESENT: gzungetc panicked"); std::process::exit(1) }
    }
} }
