//! D5: deflatePrime(strm, 20, v) hits debug_assert!(bits <= 16) in dev builds and aborts across the
//! C ABI; zlib-ng (the reference) accepts up to 32 bits and returns Z_OK.
use libz_rs_sys::*;
use std::mem::MaybeUninit;
fn main() {
    unsafe {
        let mut strm = MaybeUninit::<z_stream>::zeroed();
        assert_eq!(deflateInit2_(strm.as_mut_ptr(), 6, Z_DEFLATED, -15, 8, Z_DEFAULT_STRATEGY, zlibVersion(), core::mem::size_of::<z_stream>() as i32), Z_OK);
        let strm = strm.assume_init_mut();
        let r = std::panic::catch_unwind(std::panic::AssertUnwindSafe(|| deflatePrime(strm, 20, 0x5a5a5)));
        match r {
            Ok(code) => println!("D5 absent: deflatePrime(20 bits) returned {code}"),
            Err(_) => { println!("D5 PRESENT: deflatePrime(20 bits) panicked"); std::process::exit(1) }
        }
    }
}
