//! D17: inflateGetHeader called again while a gzip name/comment is being captured, announcing less room than was already
//! stored: `(name_max).checked_sub(self.length).expect("name out of bounds")` panics inside extern "C" inflate -> abort.
//! zlib/zlib-ng stop copying (`state->length < head->name_max` is false) and carry on.
use repro::*;
use std::mem::MaybeUninit;
fn gzip_with(name: Option<&[u8]>, comment: Option<&[u8]>) -> Vec<u8> {
    let mut v = vec![0x1f, 0x8b, 8, 0, 0, 0, 0, 0, 0, 3];
    if let Some(n) = name { v[3] |= 8; v.extend_from_slice(n); v.push(0); }
    if let Some(c) = comment { v[3] |= 16; v.extend_from_slice(c); v.push(0); }
    v.extend_from_slice(&[0x03, 0x00, 0, 0, 0, 0, 0, 0, 0, 0]); // empty fixed block, crc 0, isize 0
    v
}
fn main() {
    unsafe {
        let long = b"a-rather-long-file-name.txt";
        for field in 0..2 {
            let data = if field == 0 { gzip_with(Some(long), None) } else { gzip_with(None, Some(long)) };
            let mut s = zs();
            assert_eq!(inflateInit2_(&mut *s, 31, zlibVersion(), SZ), Z_OK);
            let mut big = [0u8; 64];
            let mut h1: gz_header = MaybeUninit::zeroed().assume_init();
            h1.name = big.as_mut_ptr(); h1.name_max = 64; h1.comment = big.as_mut_ptr(); h1.comm_max = 64;
            assert_eq!(inflateGetHeader(&mut *s, &mut h1), Z_OK);
            let mut out = [0u8; 64];
            s.next_in = data.as_ptr() as *mut u8; s.avail_in = 20;
            s.next_out = out.as_mut_ptr(); s.avail_out = 64;
            assert_eq!(inflate(&mut *s, Z_NO_FLUSH), Z_OK);
            let mut small = [0x5Au8; 8];
            let mut h2: gz_header = MaybeUninit::zeroed().assume_init();
            h2.name = small.as_mut_ptr(); h2.name_max = 4; h2.comment = small.as_mut_ptr(); h2.comm_max = 4;
            assert_eq!(inflateGetHeader(&mut *s, &mut h2), Z_OK);
            s.avail_in = (data.len() - 20) as u32;
            let r = inflate(&mut *s, Z_NO_FLUSH); // aborts here when the defect is present
            println!("field {field}: inflate after the second inflateGetHeader = {r} (zlib-ng: 1), small buffer untouched: {}", small.iter().all(|b| *b == 0x5A));
            inflateEnd(&mut *s);
            if r != Z_STREAM_END || !small.iter().all(|b| *b == 0x5A) { println!("D17 PRESENT"); std::process::exit(1); }
        }
        println!("D17 absent");
    }
}
