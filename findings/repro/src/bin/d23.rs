//! D23: inflateBack's fast path accepts a match distance that reaches before the first byte produced.  Before the first
//! flush of the window nothing precedes the data, but the fast path treated the bytes produced before it was entered as
//! older history at the end of the window and accepted distances up to (written now + written at entry): stale bytes of the
//! caller's window are copied to the output and the call returns Z_STREAM_END.  inflate() and inflateBack's slow path
//! (hardened by D4) answer Z_DATA_ERROR for the same bytes, so the verdict depended on how in() slices the input.
use repro::*;
use std::ffi::c_void;

#[derive(Default)]
struct BitW { out: Vec<u8>, acc: u64, n: u32 }
impl BitW {
    fn bits(&mut self, v: u32, n: u32) { self.acc |= (v as u64) << self.n; self.n += n; while self.n >= 8 { self.out.push(self.acc as u8); self.acc >>= 8; self.n -= 8; } }
    fn code(&mut self, code: u32, n: u32) { let mut r = 0; for i in 0..n { if code & (1 << i) != 0 { r |= 1 << (n - 1 - i); } } self.bits(r, n); }
    fn lit(&mut self, v: u32) { match v { 0..=143 => self.code(0x30 + v, 8), 144..=255 => self.code(0x190 + (v - 144), 9), 256..=279 => self.code(v - 256, 7), _ => self.code(0xC0 + (v - 280), 8) } }
    fn finish(mut self) -> Vec<u8> { if self.n > 0 { self.out.push(self.acc as u8); } self.out }
}

struct In { data: Vec<u8>, pos: usize, chunks: Vec<usize> }
unsafe extern "C" fn pull(desc: *mut c_void, buf: *mut *const u8) -> u32 {
    let c = &mut *(desc as *mut In);
    let left = c.data.len() - c.pos;
    let n = if c.chunks.is_empty() { left } else { c.chunks.remove(0).min(left) };
    *buf = c.data.as_ptr().add(c.pos);
    c.pos += n;
    n as u32
}
unsafe extern "C" fn push(desc: *mut c_void, buf: *mut u8, len: u32) -> i32 {
    (&mut *(desc as *mut Vec<u8>)).extend_from_slice(std::slice::from_raw_parts(buf, len as usize));
    0
}

fn main() {
    unsafe {
        let mut w = BitW::default();
        w.bits(1, 1); w.bits(1, 2);                       // final block, fixed codes
        for i in 0..60 { w.lit(b'a' as u32 + (i % 26)); }
        w.lit(257 + 7); w.code(12, 5); w.bits(80 - 65, 5); // match length 10, distance 80: 20 bytes before the start
        for i in 0..40 { w.lit(b'A' as u32 + (i % 26)); }
        w.lit(256);
        let stream = w.finish();
        let mut bad = 0;
        for chunks in [vec![], vec![14, 14, 14]] {
            let mut window = vec![0xEEu8; 32768];
            let mut s = zs();
            assert_eq!(inflateBackInit_(&mut *s, 15, window.as_mut_ptr(), zlibVersion(), SZ), Z_OK);
            let mut inp = In { data: stream.clone(), pos: 0, chunks: chunks.clone() };
            let mut out: Vec<u8> = Vec::new();
            let r = inflateBack(&mut *s, Some(pull), &mut inp as *mut In as *mut c_void, Some(push), &mut out as *mut Vec<u8> as *mut c_void);
            inflateBackEnd(&mut *s);
            println!("input slices {:?}: inflateBack = {r}, {} bytes delivered (inflate: -3 after 60 bytes)", chunks, out.len());
            if r != Z_DATA_ERROR { bad += 1; }
        }
        if bad != 0 { println!("D23 PRESENT: a distance reaching before the start of the output is accepted for some input slicings"); std::process::exit(1); }
        println!("D23 absent");
    }
}
