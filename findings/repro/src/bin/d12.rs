//! D12: inflate(Z_TREES) on a stream with a stored block.  After LEN/NLEN the Stored arm of State::dispatch leaves (Z_TREES
//! stops at block headers) without recording that the header has been consumed: the local `mode` is still Stored where the
//! two sibling Z_TREES exits (fixed block, end of the dynamic tables) set `mode = Len_` first, and zlib sets
//! `state->mode = COPY_` before `goto inf_leave`.  The next call parses the first four *data* bytes as LEN/NLEN again.
use libz_rs_sys::*;
use std::mem::MaybeUninit;
fn main() {
    unsafe {
        let data: Vec<u8> = (0..200u32).map(|i| (i * 7 + 3) as u8).collect();
        // level 0: one stored block
        let mut d = MaybeUninit::<z_stream>::zeroed();
        assert_eq!(deflateInit2_(d.as_mut_ptr(), 0, Z_DEFLATED, -15, 8, Z_DEFAULT_STRATEGY, zlibVersion(), core::mem::size_of::<z_stream>() as i32), Z_OK);
        let d = d.assume_init_mut();
        let mut comp = vec![0u8; 1024];
        d.next_in = data.as_ptr() as *mut u8; d.avail_in = data.len() as u32;
        d.next_out = comp.as_mut_ptr(); d.avail_out = comp.len() as u32;
        assert_eq!(deflate(d, Z_FINISH), Z_STREAM_END);
        let clen = d.total_out as usize;
        deflateEnd(d);

        let run = |flush: i32| -> (i32, Vec<u8>) {
            let mut s = MaybeUninit::<z_stream>::zeroed();
            assert_eq!(inflateInit2_(s.as_mut_ptr(), -15, zlibVersion(), core::mem::size_of::<z_stream>() as i32), Z_OK);
            let s = s.assume_init_mut();
            let mut out = vec![0u8; 1024];
            s.next_in = comp.as_ptr() as *mut u8; s.avail_in = clen as u32;
            s.next_out = out.as_mut_ptr(); s.avail_out = out.len() as u32;
            let mut r = Z_OK;
            for _ in 0..16 {
                r = inflate(s, flush);
                if r != Z_OK { break; }
            }
            let n = out.len() - s.avail_out as usize;
            inflateEnd(s);
            out.truncate(n);
            (r, out)
        };
        let (r0, o0) = run(Z_NO_FLUSH);
        let (r1, o1) = run(Z_TREES);
        println!("Z_NO_FLUSH: ret={r0} bytes={}   Z_TREES: ret={r1} bytes={}", o0.len(), o1.len());
        assert_eq!(r0, Z_STREAM_END);
        assert_eq!(o0, data);
        if r1 != Z_STREAM_END || o1 != data {
            println!("D12 PRESENT: with Z_TREES the same stream ends with {r1} after {} bytes (stored block header parsed twice)", o1.len());
            std::process::exit(1);
        }
        println!("D12 absent");
    }
}
