//! sanity for the D10 fix: name + comment + extra + hcrc, every output chunk size 1..=80, must equal
//! the one-shot output and decode (inflate verifies the header crc).
use libz_rs_sys::*;
use std::mem::MaybeUninit;
unsafe fn run(chunk: usize) -> (i32, Vec<u8>) {
    let mut strm = MaybeUninit::<z_stream>::zeroed();
    assert_eq!(deflateInit2_(strm.as_mut_ptr(), 6, Z_DEFLATED, 31, 1, Z_DEFAULT_STRATEGY, zlibVersion(), core::mem::size_of::<z_stream>() as i32), Z_OK);
    let strm = strm.assume_init_mut();
    let mut name: Vec<u8> = (0..700).map(|i| b'a' + (i % 26) as u8).collect(); name.push(0);
    let mut comm: Vec<u8> = (0..509).map(|i| b'A' + (i % 26) as u8).collect(); comm.push(0);
    let mut extra: Vec<u8> = (0..600).map(|i| i as u8).collect();
    let mut head: gz_header = core::mem::zeroed();
    head.name = name.as_mut_ptr(); head.comment = comm.as_mut_ptr(); head.extra = extra.as_mut_ptr(); head.extra_len = 600; head.hcrc = 1; head.os = 3;
    assert_eq!(deflateSetHeader(strm, &mut head), Z_OK);
    let input = b"hello hello hello";
    strm.next_in = input.as_ptr() as *mut u8; strm.avail_in = input.len() as u32;
    let mut out = Vec::new(); let mut buf = vec![0u8; chunk]; let mut ret = Z_OK;
    for _ in 0..20000 {
        strm.next_out = buf.as_mut_ptr(); strm.avail_out = chunk as u32;
        ret = deflate(strm, Z_FINISH);
        out.extend_from_slice(&buf[..chunk - strm.avail_out as usize]);
        if ret != Z_OK { break; }
    }
    deflateEnd(strm);
    (ret, out)
}
fn main() { unsafe {
    let (r0, big) = run(100000);
    assert_eq!(r0, Z_STREAM_END);
    // decode
    let mut s = MaybeUninit::<z_stream>::zeroed();
    assert_eq!(inflateInit2_(s.as_mut_ptr(), 31, zlibVersion(), core::mem::size_of::<z_stream>() as i32), Z_OK);
    let s = s.assume_init_mut();
    let mut out = vec![0u8; 100];
    s.next_in = big.as_ptr() as *mut u8; s.avail_in = big.len() as u32; s.next_out = out.as_mut_ptr(); s.avail_out = 100;
    assert_eq!(inflate(s, Z_FINISH), Z_STREAM_END, "one-shot output must decode (header crc verified)");
    inflateEnd(s);
    let mut bad = 0;
    for chunk in 1..=80 { let (r, o) = run(chunk); if r != Z_STREAM_END || o != big { bad += 1; println!("chunk {chunk}: ret {r} len {} vs {}", o.len(), big.len()); } }
    println!("{} chunk sizes differ from the one-shot output ({} bytes)", bad, big.len());
    if bad > 0 { std::process::exit(1); }
} }
