//! D18: gzip stream: inflateSync to a full-flush point, inflateValidate(strm, 1), inflate to the end.  Mode::Check hands the
//! stale `checksum` (1, left by the reset inside inflateSync) to Crc32Fold::fold as a start value; with few pending output
//! bytes the fold kernel's `assert!(src.len() >= 31 || !first)` fires inside extern "C" inflate -> abort.  zlib-ng: Z_DATA_ERROR.
use repro::*;
fn main() {
    unsafe {
        let mut d = zs();
        let mut gz = vec![0u8; 4096];
        assert_eq!(deflateInit2_(&mut *d, 6, Z_DEFLATED, 31, 8, Z_DEFAULT_STRATEGY, zlibVersion(), SZ), Z_OK);
        let a = b"first part of the data, first part of the data, first part of the data";
        let b = b"tail";
        d.next_out = gz.as_mut_ptr(); d.avail_out = gz.len() as u32;
        d.next_in = a.as_ptr() as *mut u8; d.avail_in = a.len() as u32;
        assert_eq!(deflate(&mut *d, Z_FULL_FLUSH), Z_OK);
        d.next_in = b.as_ptr() as *mut u8; d.avail_in = b.len() as u32;
        assert_eq!(deflate(&mut *d, Z_FINISH), Z_STREAM_END);
        let n = d.total_out as usize;
        deflateEnd(&mut *d);
        gz.truncate(n);

        let mut s = zs();
        let mut out = vec![0u8; 4096];
        assert_eq!(inflateInit2_(&mut *s, 31, zlibVersion(), SZ), Z_OK);
        s.next_in = gz.as_ptr() as *mut u8; s.avail_in = 14;
        s.next_out = out.as_mut_ptr(); s.avail_out = out.len() as u32;
        assert_eq!(inflate(&mut *s, Z_NO_FLUSH), Z_OK);
        s.avail_in = (gz.len() - 14) as u32;
        let r1 = inflateSync(&mut *s);
        let r2 = inflateValidate(&mut *s, 1);
        let r3 = inflate(&mut *s, Z_NO_FLUSH); // aborts here when the defect is present
        println!("inflateSync = {r1}, inflateValidate(1) = {r2}, inflate = {r3} (zlib-ng: 0, 0, -3)");
        inflateEnd(&mut *s);
        if (r1, r2, r3) != (Z_OK, Z_OK, Z_DATA_ERROR) { println!("D18 PRESENT"); std::process::exit(1); }
        println!("D18 absent");
    }
}
