//! D4: inflateBack slow path has no distance validation: windowBits 8 (256-byte window),
//! fixed block: literal 'a', match len 3 dist 1000 -> `buffer_size() - offset` underflows
//! (debug: panic/abort; release: read outside the caller's window).
use libz_rs_sys::*;
use std::ffi::c_void;
use std::mem::MaybeUninit;

struct BitW { out: Vec<u8>, acc: u64, n: u32 }
impl BitW {
    fn lsb(&mut self, v: u32, bits: u32) { self.acc |= (v as u64) << self.n; self.n += bits; while self.n >= 8 { self.out.push(self.acc as u8); self.acc >>= 8; self.n -= 8; } }
    fn msb(&mut self, v: u32, bits: u32) { for i in (0..bits).rev() { self.lsb((v >> i) & 1, 1); } }
    fn finish(mut self) -> Vec<u8> { if self.n > 0 { self.out.push(self.acc as u8); } self.out }
}

struct Input { data: Vec<u8>, done: bool }
unsafe extern "C" fn pull(desc: *mut c_void, buf: *mut *const u8) -> u32 {
    let inp = &mut *(desc as *mut Input);
    if inp.done { return 0; }
    inp.done = true;
    *buf = inp.data.as_ptr();
    inp.data.len() as u32
}
unsafe extern "C" fn push(_desc: *mut c_void, _buf: *mut u8, _len: u32) -> i32 { 0 }

fn main() {
    let mut w = BitW { out: vec![], acc: 0, n: 0 };
    w.lsb(1, 1); w.lsb(1, 2);            // BFINAL=1, BTYPE=01 (fixed)
    w.msb(0x30 + 97, 8);                 // literal 'a'
    w.msb(0b0000001, 7);                 // length symbol 257 (len 3)
    w.msb(19, 5);                        // distance symbol 19: base 769, 8 extra bits
    w.lsb(1000 - 769, 8);                // distance 1000
    w.msb(0, 7);                         // end of block
    let data = w.finish();
    unsafe {
        let mut window = vec![0u8; 256];
        let mut strm = MaybeUninit::<z_stream>::zeroed();
        let r = inflateBackInit_(strm.as_mut_ptr(), 8, window.as_mut_ptr(), zlibVersion(), core::mem::size_of::<z_stream>() as i32);
        assert_eq!(r, Z_OK);
        let strm = strm.assume_init_mut();
        let mut input = Input { data, done: false };
        let res = std::panic::catch_unwind(std::panic::AssertUnwindSafe(|| {
            inflateBack(strm, Some(pull), &mut input as *mut _ as *mut c_void, Some(push), std::ptr::null_mut())
        }));
        match res {
            Ok(code) if code == Z_DATA_ERROR => println!("D4 absent: inflateBack rejected the too-far distance with Z_DATA_ERROR"),
            Ok(code) => { println!("D4 PRESENT: inflateBack returned {code} for a distance beyond the window (out-of-window read)"); std::process::exit(1) }
            Err(_) => { println!("D4 PRESENT: inflateBack panicked"); std::process::exit(1) }
        }
    }
}
