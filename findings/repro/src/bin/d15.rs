//! D15: deflate_rle refills and suspends on `lookahead < MIN_LOOKAHEAD` (262) where zlib-ng uses `lookahead <= STD_MAX_MATCH` (258):
//! with Z_RLE the window slides at different times and, for small windows, the emitted bytes differ from zlib-ng's.
//! Reference values recorded from zlib-ng 2.x (libz-sys 1.1.29, zlib-ng feature) for the same calls.
use repro::*;
fn main() {
    unsafe {
        let mut rng = Rng::new(11);
        let noise: Vec<u8> = (0..5000).map(|_| rng.next() as u8).collect();
        let mut bad = 0;
        // (level, windowBits, memLevel, len, first flush, zlib-ng: bytes after the first call, final length)
        for (level, wbits, mem, len, flush1, ng1, ngfinal) in [(8, -12, 1, 893usize, Z_NO_FLUSH, 660usize, 930usize), (5, -9, 2, 1023, Z_PARTIAL_FLUSH, 1045, 1047),
                                                               (9, 9, 2, 3000, Z_PARTIAL_FLUSH, 3063, 3069)] {
            let data = &noise[..len];
            let mut s = zs();
            assert_eq!(deflateInit2_(&mut *s, level, Z_DEFLATED, wbits, mem, Z_RLE, zlibVersion(), SZ), Z_OK);
            let mut out = vec![0u8; len * 2 + 1000];
            s.next_in = data.as_ptr() as *mut u8; s.avail_in = len as u32;
            s.next_out = out.as_mut_ptr(); s.avail_out = out.len() as u32;
            assert_eq!(deflate(&mut *s, flush1), Z_OK);
            let n1 = out.len() - s.avail_out as usize;
            assert_eq!(deflate(&mut *s, Z_FINISH), Z_STREAM_END);
            let n2 = out.len() - s.avail_out as usize;
            deflateEnd(&mut *s);
            println!("level {level} windowBits {wbits} memLevel {mem} len {len}: after first call {n1} (zlib-ng {ng1}), final {n2} (zlib-ng {ngfinal})");
            if (n1, n2) != (ng1, ngfinal) { bad += 1; }
        }
        if bad != 0 {
            println!("D15 PRESENT: Z_RLE output differs from zlib-ng in {bad} case(s)");
            std::process::exit(1);
        }
        println!("D15 absent");
    }
}
