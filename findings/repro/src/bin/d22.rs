//! D22: inflateCopy / inflateMark reject a stream whose next_out is NULL (Z_STREAM_ERROR / LONG_MIN).  zlib and zlib-ng only run
//! inflateStateCheck: a freshly initialised (or reset) stream can be copied (0) and marked (-65536).
use repro::*;
use std::mem::MaybeUninit;
fn main() {
    unsafe {
        let mut s = zs();
        assert_eq!(inflateInit2_(&mut *s, -15, zlibVersion(), SZ), Z_OK);
        let m = inflateMark(&*s);
        let mut d = MaybeUninit::<z_stream>::zeroed();
        let r = inflateCopy(d.as_mut_ptr(), &*s);
        println!("fresh stream: inflateMark = {m} (zlib-ng: -65536), inflateCopy = {r} (zlib-ng: 0)");
        if r == Z_OK { inflateEnd(d.as_mut_ptr()); }
        inflateEnd(&mut *s);
        if r != Z_OK || m != -65536 { println!("D22 PRESENT"); std::process::exit(1); }
        println!("D22 absent");
    }
}
