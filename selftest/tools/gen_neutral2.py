import re, sys
sys.path.insert(0, "/verif/selftest/tools")
from nmk import mk, rep, chain, in_fn

IB = "zlib-rs/src/inflate/infback.rs"
# N08: rename the cursor locals of back(): have -> avail, left -> room_left, put -> out_ptr
def ren_back(seg):
    seg = re.sub(r"(?<!\.)\bhave\b", "avail", seg)
    seg = re.sub(r"(?<!\.)\bleft\b", "room_left", seg)
    seg = re.sub(r"(?<!\.)\bput\b", "out_ptr", seg)
    return seg
mk("N08_rename_back_locals", [(IB, in_fn("pub unsafe fn back(", "unsafe fn inflate_fast_back(", ren_back))])

# N09: gz_look: introduce a temporary for avail_in before the threshold test
GZ = "libz-rs-sys/src/gz.rs"
mk("N09_gz_look_temp", [(GZ, rep("    if state.stream.avail_in < 2 {\n        // `gz_avail` attempts", "    let buffered = state.stream.avail_in;\n    if buffered < 2 {\n        // `gz_avail` attempts"))])

# N10: new state field with reset and copy
D = "zlib-rs/src/deflate.rs"
mk("N10_new_state_field", [(D, chain(
    rep("        block_open: 0,\n", "        block_open: 0,\n        flush_count: 0,\n"),
    rep("        block_open: source_state.block_open,\n", "        block_open: source_state.block_open,\n        flush_count: source_state.flush_count,\n"),
    rep("    state.block_open = 0;\n", "    state.block_open = 0;\n    state.flush_count = 0;\n"),
    rep("    pub(crate) block_open: u8,\n", "    pub(crate) block_open: u8,\n\n    /// statistics: number of flushes requested since the last reset\n    pub(crate) flush_count: u32,\n"),
))])

# N11: while -> loop/break in gz_zero; if/else -> match on bool
mk("N11_loop_spelling", [(GZ, chain(
    rep("    while len != 0 {\n        let n = Ord::min(state.in_size, len);", "    loop {\n        if len == 0 {\n            break;\n        }\n        let n = Ord::min(state.in_size, len);"),
))])

# N12: free_buffers: swap the order in which the two buffers are released
mk("N12_free_order", [(GZ, rep(
"""    if !state.input.is_null() {
        // Safety: state.input is always allocated using ALLOCATOR, and
        // its allocation size is stored in state.in_size.
        unsafe { ALLOCATOR.deallocate(state.input, state.in_capacity()) };
        state.input = ptr::null_mut();
    }
    state.in_size = 0;
    if !state.output.is_null() {
        // Safety: state.output is always allocated using ALLOCATOR, and
        // its allocation size is stored in state.out_size.
        unsafe { ALLOCATOR.deallocate(state.output, state.out_capacity()) };
        state.output = ptr::null_mut();
    }
    state.out_size = 0;
""",
"""    if !state.output.is_null() {
        // Safety: state.output is always allocated using ALLOCATOR, and
        // its allocation size is stored in state.out_size.
        unsafe { ALLOCATOR.deallocate(state.output, state.out_capacity()) };
        state.output = ptr::null_mut();
    }
    state.out_size = 0;
    if !state.input.is_null() {
        // Safety: state.input is always allocated using ALLOCATOR, and
        // its allocation size is stored in state.in_size.
        unsafe { ALLOCATOR.deallocate(state.input, state.in_capacity()) };
        state.input = ptr::null_mut();
    }
    state.in_size = 0;
"""))])

# N13: a trace statement and an #[inline] attribute in the decoder and the stored compressor
mk("N13_attrs_and_tracing", [
    ("zlib-rs/src/deflate/algorithm/stored.rs", rep("pub fn deflate_stored(", "#[inline(never)]\npub fn deflate_stored(")),
    ("zlib-rs/src/deflate/sym_buf.rs", rep("    pub(crate) unsafe fn clone_to(&self, ptr: *mut u8) -> Self {\n", "    #[inline]\n    pub(crate) unsafe fn clone_to(&self, ptr: *mut u8) -> Self {\n        debug_assert!(!ptr.is_null());\n")),
])

# N14: adler32_combine reduces with `%` instead of conditional subtraction (the abstract interpreter must still prove it)
mk("N14_adler_combine_rem", [("zlib-rs/src/adler32.rs", rep("""    if sum1 >= BASE {
        sum1 -= BASE;
    }
    if sum1 >= BASE {
        sum1 -= BASE;
    }
    if sum2 >= (BASE << 1) {
        sum2 -= BASE << 1;
    }
    if sum2 >= BASE {
        sum2 -= BASE;
    }
""", """    sum1 %= BASE;
    sum2 %= BASE;
"""))])

# N15: gzseek64 clears the read-side state in a different order
mk("N15_gzseek_clear_order", [(GZ, rep("""        state.have = 0;
        state.eof = false;
        state.past = false;
        state.seek = false;""", """        state.seek = false;
        state.past = false;
        state.eof = false;
        state.have = 0;"""))])

# N16: deflate::end computes its result before releasing
mk("N16_end_result_first", [(D, rep("""    unsafe { alloc.deallocate(allocation_start.as_ptr(), total_allocation_size) };

    match status {
        Status::Busy => Err(stream),
        _ => Ok(stream),
    }""", """    let busy = matches!(status, Status::Busy);
    unsafe { alloc.deallocate(allocation_start.as_ptr(), total_allocation_size) };

    if busy {
        Err(stream)
    } else {
        Ok(stream)
    }"""))])

# N17: flush_bytes takes the header CRC over the slice it just wrote instead of re-reading the pending buffer
mk("N17_flush_bytes_crc_of_written_slice", [(D, chain(rep("""        state.bit_writer.pending.extend(&bytes[..copy]);

        stream.adler = crc32(
            stream.adler as u32,
            &state.bit_writer.pending.pending()[beg..],
        ) as z_checksum;
""", """        state.bit_writer.pending.extend(&bytes[..copy]);

        stream.adler = crc32(stream.adler as u32, &bytes[..copy]) as z_checksum;
"""), rep("""    state.bit_writer.pending.extend(bytes);

    stream.adler = crc32(
        stream.adler as u32,
        &state.bit_writer.pending.pending()[beg..],
    ) as z_checksum;
""", """    state.bit_writer.pending.extend(bytes);

    stream.adler = crc32(stream.adler as u32, bytes) as z_checksum;
"""), rep("""    // we'll be using the pending buffer as temporary storage
    let mut beg = state.bit_writer.pending.pending().len(); /* start of bytes to update crc */
""", ""), rep("""        beg = 0;
        bytes = &bytes[copy..];""", """        bytes = &bytes[copy..];""")))])

# N18: copy_match_back spells the byte-wise replication with iterators over indices
mk("N18_copy_match_back_while", [("zlib-rs/src/inflate/writer.rs", rep("""            _ => {
                for i in 0..length {
                    buf[current + i] = buf[current - offset_from_end + i];
                }
            }
        }
    }

    #[inline(always)]
    fn copy_chunked_within""", """            _ => {
                let mut i = 0;
                while i < length {
                    buf[current + i] = buf[current - offset_from_end + i];
                    i += 1;
                }
            }
        }
    }

    #[inline(always)]
    fn copy_chunked_within"""))])

# N19: flush_block_only guards the signed offset with an if/else instead of then_some
mk("N19_flush_block_if_else", [(D, rep("""        (stream.state.block_start >= 0).then_some(stream.state.block_start as usize),""", """        if stream.state.block_start >= 0 {
            Some(stream.state.block_start as usize)
        } else {
            None
        },"""))])

# N20: fast loop names the refill threshold
mk("N20_named_refill_threshold", [("zlib-rs/src/inflate.rs", chain(rep("""                if bit_reader.bits_in_buffer() < MAX_BITS + MAX_DIST_EXTRA_BITS {""", """                if bit_reader.bits_in_buffer() < DIST_BITS_NEEDED {"""), rep("""    let extra_safe = false;
""", """    let extra_safe = false;
    const DIST_BITS_NEEDED: u8 = MAX_BITS + MAX_DIST_EXTRA_BITS;
""")))])

# N21: the four match parameters are stored through a helper shared by lm_set_level and tune (hash selection stays in lm_set_level)
mk("N21_match_params_helper", [(D, chain(
    rep("""    state.max_lazy_match = CONFIGURATION_TABLE[level as usize].max_lazy;
    state.good_match = CONFIGURATION_TABLE[level as usize].good_length;
    state.nice_match = CONFIGURATION_TABLE[level as usize].nice_length;
    state.max_chain_length = CONFIGURATION_TABLE[level as usize].max_chain;
""", """    let config = &CONFIGURATION_TABLE[level as usize];
    set_match_params(state, config.good_length, config.max_lazy, config.nice_length, config.max_chain);
"""),
    rep("""fn lm_set_level(state: &mut State, level: i8) {""", """fn set_match_params(state: &mut State, good_length: u16, max_lazy: u16, nice_length: u16, max_chain: u16) {
    state.good_match = good_length;
    state.max_lazy_match = max_lazy;
    state.nice_match = nice_length;
    state.max_chain_length = max_chain;
}

fn lm_set_level(state: &mut State, level: i8) {"""),
    rep("""    stream.state.good_match = good_length as u16;
    stream.state.max_lazy_match = max_lazy as u16;
    stream.state.nice_match = nice_length as u16;
    stream.state.max_chain_length = max_chain as u16;
""", """    set_match_params(stream.state, good_length as u16, max_lazy as u16, nice_length as u16, max_chain as u16);
""")))])

# N22: locals of the fast compressor renamed
def ren_fast(seg):
    seg = re.sub(r"(?<!\.)\bmatch_len\b", "mlen", seg)
    seg = re.sub(r"(?<!\.)\bhash_head\b", "head_pos", seg)
    return seg
mk("N22_rename_fast_locals", [("zlib-rs/src/deflate/algorithm/fast.rs", ren_fast)])

# N23: gzclose_r tests the buffers through a local
mk("N23_gzclose_r_local", [(GZ, rep("""    // Process any buffered input.
    if state.in_size != 0 {""", """    // Process any buffered input.
    let buffers_exist = state.in_size != 0;
    if buffers_exist {"""))])

# N24: deflate(): the need_more arm spells its full-output test with a match
mk("N24_inflate_sync_comment_and_order", [("zlib-rs/src/inflate.rs", rep("""    stream.total_in = total_in;
    stream.total_out = total_out;
    // `inflate` publishes `state.total` as `total_out`, so it has to survive the reset as well
    stream.state.total = total_out as usize;
""", """    // `inflate` publishes `state.total` as `total_out`, so it has to survive the reset as well
    stream.state.total = total_out as usize;
    stream.total_out = total_out;
    stream.total_in = total_in;
"""))])

# N25: a private function renamed everywhere
import glob as _glob, os as _os
def _ren_all(name, old, new):
    edits = []
    for path in sorted(_glob.glob("/repo/zlib-rs/src/**/*.rs", recursive=True)) + sorted(_glob.glob("/repo/libz-rs-sys/src/**/*.rs", recursive=True)):
        rel = _os.path.relpath(path, "/repo")
        txt = open(path).read()
        if re.search(old, txt):
            edits.append((rel, (lambda o, n: (lambda s: re.sub(o, n, s)))(old, new)))
    mk(name, edits)
_ren_all("N25_rename_private_fn", r"\bflush_block_only\b", "flush_current_block")
# N26: a state field renamed everywhere
_ren_all("N26_rename_state_field", r"\bblock_open\b", "quick_block_state")
# N27: a gz helper renamed
_ren_all("N27_rename_gz_helper", r"\bgz_avail\b", "gz_refill_input")
