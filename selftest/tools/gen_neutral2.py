import re, sys
sys.path.insert(0, "/verif/selftest/tools")
from nmk import mk, rep, chain, in_fn

IB = "zlib-rs/src/inflate/infback.rs"
# N08: rename the cursor locals of back(): have -> avail, left -> room_left, put -> out_ptr
def ren_back(seg):
    seg = re.sub(r"(?<!\.)\bhave\b", "avail", seg)
    seg = re.sub(r"(?<!\.)\bleft\b", "room_left", seg)
    seg = re.sub(r"(?<!\.)\bput\b", "out_ptr", seg)
    return seg
mk("N08_rename_back_locals", [(IB, in_fn("pub unsafe fn back(", "unsafe fn inflate_fast_back(", ren_back))])

# N09: gz_look: introduce a temporary for avail_in before the threshold test
GZ = "libz-rs-sys/src/gz.rs"
mk("N09_gz_look_temp", [(GZ, rep("    if state.stream.avail_in < 2 {\n        // `gz_avail` attempts", "    let buffered = state.stream.avail_in;\n    if buffered < 2 {\n        // `gz_avail` attempts"))])

# N10: new state field with reset and copy
D = "zlib-rs/src/deflate.rs"
mk("N10_new_state_field", [(D, chain(
    rep("        block_open: 0,\n", "        block_open: 0,\n        flush_count: 0,\n"),
    rep("        block_open: source_state.block_open,\n", "        block_open: source_state.block_open,\n        flush_count: source_state.flush_count,\n"),
    rep("    state.block_open = 0;\n", "    state.block_open = 0;\n    state.flush_count = 0;\n"),
    rep("    pub(crate) block_open: u8,\n", "    pub(crate) block_open: u8,\n\n    /// statistics: number of flushes requested since the last reset\n    pub(crate) flush_count: u32,\n"),
))])

# N11: while -> loop/break in gz_zero; if/else -> match on bool
mk("N11_loop_spelling", [(GZ, chain(
    rep("    while len != 0 {\n        let n = Ord::min(state.in_size, len);", "    loop {\n        if len == 0 {\n            break;\n        }\n        let n = Ord::min(state.in_size, len);"),
))])

# N12: free_buffers: swap the order in which the two buffers are released
mk("N12_free_order", [(GZ, rep(
"""    if !state.input.is_null() {
        // Safety: state.input is always allocated using ALLOCATOR, and
        // its allocation size is stored in state.in_size.
        unsafe { ALLOCATOR.deallocate(state.input, state.in_capacity()) };
        state.input = ptr::null_mut();
    }
    state.in_size = 0;
    if !state.output.is_null() {
        // Safety: state.output is always allocated using ALLOCATOR, and
        // its allocation size is stored in state.out_size.
        unsafe { ALLOCATOR.deallocate(state.output, state.out_capacity()) };
        state.output = ptr::null_mut();
    }
    state.out_size = 0;
""",
"""    if !state.output.is_null() {
        // Safety: state.output is always allocated using ALLOCATOR, and
        // its allocation size is stored in state.out_size.
        unsafe { ALLOCATOR.deallocate(state.output, state.out_capacity()) };
        state.output = ptr::null_mut();
    }
    state.out_size = 0;
    if !state.input.is_null() {
        // Safety: state.input is always allocated using ALLOCATOR, and
        // its allocation size is stored in state.in_size.
        unsafe { ALLOCATOR.deallocate(state.input, state.in_capacity()) };
        state.input = ptr::null_mut();
    }
    state.in_size = 0;
"""))])

# N13: a trace statement and an #[inline] attribute in the decoder and the stored compressor
mk("N13_attrs_and_tracing", [
    ("zlib-rs/src/deflate/algorithm/stored.rs", rep("pub fn deflate_stored(", "#[inline(never)]\npub fn deflate_stored(")),
    ("zlib-rs/src/deflate/sym_buf.rs", rep("    pub(crate) unsafe fn clone_to(&self, ptr: *mut u8) -> Self {\n", "    #[inline]\n    pub(crate) unsafe fn clone_to(&self, ptr: *mut u8) -> Self {\n        debug_assert!(!ptr.is_null());\n")),
])
