"""helper: build selftest/neutral/<name>.patch from python transformations of /repo files"""
import difflib, os, re, sys
ROOT = "/repo"
OUT = os.path.join(os.path.dirname(os.path.abspath(__file__)), "..", "neutral")


def mk(name, edits, header="# neutral: behaviour-preserving refactoring; every check must stay silent\n"):
    out = [header]
    for f, fn in edits:
        s = open(os.path.join(ROOT, f)).read()
        t = fn(s)
        if s == t:
            sys.exit("%s: no change in %s" % (name, f))
        out.extend(difflib.unified_diff(s.splitlines(True), t.splitlines(True), "a/" + f, "b/" + f, n=3))
    open(os.path.join(OUT, name + ".patch"), "w").write("".join(out))
    print("wrote", name)


def rep(old, new, count=1):
    def f(s):
        if s.count(old) < 1:
            sys.exit("pattern not found: %r" % old[:60])
        return s.replace(old, new, count if count else -1)
    return f


def chain(*fs):
    def f(s):
        for g in fs:
            s = g(s)
        return s
    return f


def in_fn(start_marker, end_marker, g):
    """apply g only to the text between two markers"""
    def f(s):
        a = s.index(start_marker)
        b = s.index(end_marker, a)
        return s[:a] + g(s[a:b]) + s[b:]
    return f
