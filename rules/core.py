"""Check bookkeeping: obligations, violations, known findings, evidence, replay files."""
import json
import os
import re
import sys
import time

VERIF = os.path.dirname(os.path.dirname(os.path.abspath(__file__)))
OUT = os.environ.get("VERIF_OUT") or os.path.join(VERIF, "out")
EVID = os.environ.get("VERIF_EVID") or os.path.join(VERIF, "evidence")
KNOWN = os.path.join(VERIF, "known_findings.json")


def slug(s):
    return re.sub(r"[^A-Za-z0-9_.-]+", "_", s)[:150]


class Check:
    def __init__(self, pid, tier="quick", seed=0, explanation=""):
        self.pid = pid
        self.tier = tier
        self.seed = seed
        self.explanation = explanation
        self.t0 = time.time()
        self.obl = []          # dicts: rule, instance, ok(bool), detail, where
        self.rule_counts = {}  # rule -> {"matched": n, "floor": n}
        self.configs = set()
        self.fns_analysed = set()
        self.call_sites = 0
        self.samples = []
        self.assumptions = []
        self.extra = {}
        self.only_key = None   # --replay filter
        self.info = []

    # -- recording -------------------------------------------------------------------------------
    def ok(self, rule, instance, detail="", where=None):
        self.obl.append(dict(rule=rule, instance=instance, ok=True, detail=detail, where=where))

    def bad(self, rule, instance, detail, where=None, facts=None):
        self.obl.append(dict(rule=rule, instance=instance, ok=False, detail=detail, where=where, facts=facts))

    def decide(self, cond, rule, instance, detail_ok="", detail_bad="", where=None):
        if cond:
            self.ok(rule, instance, detail_ok, where)
        else:
            self.bad(rule, instance, detail_bad or detail_ok, where)
        return bool(cond)

    def anchor(self, what, found, where=None):
        """fail closed: a slot that was filled by reading the code must still exist"""
        if found:
            return True
        self.bad("ANCHOR", what, "anchor not found in the analysed program: the construct this rule "
                                 "is about has disappeared or changed kind", where)
        return False

    def floor(self, rule, matched, floor):
        """vacuity guard: an 'all N siblings must' rule must still see at least `floor` instances"""
        self.rule_counts[rule] = {"matched": matched, "floor": floor}
        if matched < floor:
            self.bad("ANCHOR", "%s:count" % rule,
                     "rule matched %d instances, fewer than the %d confirmed by reading" % (matched, floor))
            return False
        return True

    def sample(self, s):
        if len(self.samples) < 12:
            self.samples.append(s)

    def note(self, s):
        self.info.append(s)

    def use_fn(self, fn):
        if fn is not None:
            self.fns_analysed.add(fn.path)

    # -- finishing -------------------------------------------------------------------------------
    def finish(self):
        known = {}
        try:
            with open(KNOWN) as fh:
                for k in json.load(fh).get("findings", []):
                    if k.get("status") == "known" and k.get("property") == self.pid:
                        known[k["key"]] = k
        except FileNotFoundError:
            pass
        os.makedirs(os.path.join(OUT, self.pid), exist_ok=True)
        os.makedirs(EVID, exist_ok=True)
        viol = []
        knownhits = []
        seen_keys = set()
        for o in self.obl:
            if o["ok"]:
                continue
            key = "%s:%s" % (o["rule"], o["instance"])
            if key in seen_keys:
                continue
            seen_keys.add(key)
            if self.only_key and key != self.only_key:
                continue
            if key in known:
                knownhits.append((key, known[key], o))
            else:
                viol.append((key, o))
        lines = []
        for key, k, o in knownhits:
            lines.append("KNOWN-FINDING: property=%s %s [%s]" % (self.pid, k.get("what", ""), key))
        for key, o in viol:
            rp = os.path.join(OUT, self.pid, slug(key) + ".json")
            with open(rp, "w") as fh:
                json.dump(dict(property=self.pid, key=key, rule=o["rule"], instance=o["instance"],
                               detail=o["detail"], where=o.get("where"), facts=o.get("facts")), fh, indent=1)
            lines.append("VIOLATION property=%s replay=%s" % (self.pid, rp))
            lines.append("  rule=%s instance=%s" % (o["rule"], o["instance"]))
            lines.append("  at %s: %s" % (o.get("where") or "?", o["detail"]))
        n_obl = len(self.obl)
        n_ok = sum(1 for o in self.obl if o["ok"])
        ev = {
            "property_id": self.pid,
            "tier": self.tier,
            "seed": self.seed,
            "level": "other",
            "coverage": {
                "explanation": self.explanation,
                "obligations": n_obl,
                "discharged": n_ok,
                "known_findings_hit": [k for k, _, _ in knownhits],
                "functions_analysed": len(self.fns_analysed),
                "call_sites": self.call_sites,
                "configs": sorted(self.configs),
                "rules": self.rule_counts,
                "samples": self.samples or [o["rule"] + ":" + str(o["instance"]) + " — " + str(o["detail"])
                                            for o in self.obl[:8]],
                "by_rule": _by_rule(self.obl),
            },
            "assumptions": self.assumptions,
            "wall_s": round(time.time() - self.t0, 2),
            "violations": len(viol),
        }
        ev["coverage"].update(self.extra)
        with open(os.path.join(EVID, self.pid + ".json"), "w") as fh:
            json.dump(ev, fh, indent=1, sort_keys=True)
        print("%s tier=%s obligations=%d discharged=%d known=%d violations=%d fns=%d configs=%s wall=%.1fs" % (
            self.pid, self.tier, n_obl, n_ok, len(knownhits), len(viol), len(self.fns_analysed),
            ",".join(sorted(self.configs)), time.time() - self.t0))
        for l in self.info:
            print("  note:", l)
        for l in lines:
            print(l)
        sys.stdout.flush()
        return 1 if viol else 0


def _by_rule(obl):
    d = {}
    for o in obl:
        r = d.setdefault(o["rule"], {"ok": 0, "bad": 0})
        r["ok" if o["ok"] else "bad"] += 1
    return d


def where(fn, line=None):
    if fn is None:
        return None
    return "%s:%s fn %s" % (fn.file, line or fn.line, fn.path)
