"""Role-based identification of locals the rules talk about, so that renaming a local does not change a verdict.
back(): the four cursor locals are recognised by what initialises them, not by their spelling:
  next <- strm.next_in, have <- strm.avail_in, put <- Window::as_mut_ptr, left <- Window::buffer_size.
The canonical role name is installed as the local's alias (Fn.local_name returns it)."""
import re
from . import mir

BACK = "zlib_rs::inflate::infback::back"


def _def_exprs(fn, loc):
    for bi, si, rv in fn.defs.get(loc, []):
        if rv is None:
            continue
        try:
            yield bi, (fn.call_expr(rv) if si == "call" else fn.rvalue_expr(rv))
        except Exception:
            continue


def back_roles(fn):
    """{role: local index} for the user variables of back()"""
    roles = {}
    cands = [i for i, l in enumerate(fn.locals) if l.get("name") and i > fn.arg_count]
    for i in cands:
        for bi, e in _def_exprs(fn, i):
            flat = mir.fmt(e)
            calls = [x[1] for x in mir.walk(e) if x[0] == "call" and isinstance(x[1], str)]
            if any(c.endswith("Window::as_mut_ptr") for c in calls) and not any(x[0] == "bin" for x in mir.walk(e)):
                roles.setdefault("put", i)
            elif any(c.endswith("Window::buffer_size") for c in calls) and not any(x[0] == "bin" for x in mir.walk(e)) \
                    and fn.locals[i].get("ty", "").startswith("usize"):
                roles.setdefault("left", i)
            elif mir.mentions_field(e, "next_in") and not mir.mentions_field(e, "avail_in") and "*const" in fn.locals[i].get("ty", ""):
                roles.setdefault("next", i)
            elif mir.mentions_field(e, "avail_in") and fn.locals[i].get("ty", "") in ("u32", "core::ffi::c_uint"):
                roles.setdefault("have", i)
    return roles


def apply(P):
    fn = P.fns.get(BACK) if hasattr(P, "fns") else None
    if fn is None:
        return
    roles = back_roles(fn)
    if len(roles) == 4:
        for role, i in roles.items():
            fn.alias[i] = role
    fn.roles = roles
