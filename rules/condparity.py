"""SIB/ref-conditions: condition parity with the zlib-ng functions the code was ported from.

oracles/condparity.json holds, per (zlib-ng function, zlib-rs function) pair, the elementary conditions of the C
function (oracles/cconds.py) that had a counterpart among the branch conditions / boolean values of the Rust function
on the tree the table was frozen from (bin/mkcondparity, needs the vendored zlib-ng sources).  The rule: every frozen
instance still has a counterpart.  A dropped conjunct, a changed constant, a comparison against a different field is
what a "clean-up" loses; the C text is the reference for what the condition has to be.

Counterpart = a Rust atom of the same class (equality/truthiness vs ordering) that mentions every state/stream field of
the C condition (same name, or the listed renaming), every macro/enum name or its value, every integer literal (or
literal +/- 1: `>= n` vs `> n-1`), and - when the C condition is about locals only - those local names."""
import json
import os
import re

from . import mir, sig, atoms
from .core import where
from .ctx import Z

FROZEN = os.path.join(os.path.dirname(os.path.abspath(__file__)), "..", "oracles", "condparity.json")

PAIRS = {
    "deflate_stored.c:deflate_stored": [Z + "deflate::algorithm::stored::deflate_stored"],
    "deflate.c:fill_window": [Z + "deflate::fill_window"],
    "deflate_fast.c:deflate_fast": [Z + "deflate::algorithm::fast::deflate_fast"],
    "deflate_slow.c:deflate_slow": [Z + "deflate::algorithm::slow::deflate_slow"],
    "deflate_medium.c:deflate_medium": [Z + "deflate::algorithm::medium::deflate_medium"],
    "deflate_medium.c:emit_match": [Z + "deflate::algorithm::medium::emit_match"],
    "deflate_medium.c:insert_match": [Z + "deflate::algorithm::medium::insert_match"],
    "deflate_medium.c:fizzle_matches": [Z + "deflate::algorithm::medium::fizzle_matches"],
    "deflate_quick.c:deflate_quick": [Z + "deflate::algorithm::quick::deflate_quick"],
    "deflate_rle.c:deflate_rle": [Z + "deflate::algorithm::rle::deflate_rle"],
    "deflate_huff.c:deflate_huff": [Z + "deflate::algorithm::huff::deflate_huff"],
    "deflate.c:deflate": [Z + "deflate::deflate", Z + "deflate::flush_bytes"],
    "deflate.c:deflateParams": [Z + "deflate::params"],
    "deflate.c:deflateInit2": [Z + "deflate::init"],
    "deflate.c:deflateSetDictionary": [Z + "deflate::set_dictionary"],
    "deflate.c:deflateResetKeep": [Z + "deflate::reset_keep"],
    "deflate.c:deflatePrime": [Z + "deflate::prime"],
    "deflate.c:deflateTune": [Z + "deflate::tune"],
    "deflate.c:deflatePending": [Z + "deflate::pending"],
    "deflate.c:deflateCopy": [Z + "deflate::copy"],
    "deflate.c:deflateBound": [Z + "deflate::bound"],
    "deflate.c:lm_set_level": [Z + "deflate::lm_set_level"],
    "deflate.c:read_buf": [Z + "deflate::read_buf_window", Z + "deflate::read_buf"],
    "trees.c:zng_tr_flush_block": [Z + "deflate::zng_tr_flush_block"],
    "trees.c:gen_bitlen": [Z + "deflate::trees::gen_bitlen", Z + "deflate::gen_bitlen"],
    "trees.c:build_tree": [Z + "deflate::trees::build_tree", Z + "deflate::build_tree"],
    "trees.c:scan_tree": [Z + "deflate::State::scan_tree", Z + "deflate::scan_tree"],
    "trees.c:send_tree": [Z + "deflate::State::send_tree", Z + "deflate::send_tree"],
    "trees.c:build_bl_tree": [Z + "deflate::State::build_bl_tree", Z + "deflate::build_bl_tree"],
    "trees.c:detect_data_type": [Z + "deflate::State::detect_data_type", Z + "deflate::detect_data_type"],
    "inflate.c:inflateReset2": [Z + "inflate::reset_with_config"],
    "inflate.c:inflateInit2": [Z + "inflate::init"],
    "inflate.c:inflateSetDictionary": [Z + "inflate::set_dictionary"],
    "inflate.c:inflateGetDictionary": [Z + "inflate::get_dictionary"],
    "inflate.c:inflatePrime": [Z + "inflate::prime"],
    "inflate.c:inflateSync": [Z + "inflate::sync"],
    "inflate.c:inflateSyncPoint": [Z + "inflate::sync_point"],
    "inflate.c:inflateCopy": [Z + "inflate::copy"],
    "inflate.c:inflateMark": [Z + "inflate::mark"],
    "inflate.c:inflateGetHeader": [Z + "inflate::get_header"],
    "inflate.c:inflate": [Z + "inflate::inflate"],
    "infback.c:inflateBack": [Z + "inflate::infback::back"],
}
G = "libz_rs_sys::gz::"
for _f, _names in (("gzread.c", ["gz_load", "gz_avail", "gz_look", "gz_decomp", "gz_fetch", "gz_skip", "gz_read", "gzread", "gzfread", "gzgetc",
                                 "gzungetc", "gzgets", "gzdirect", "gzclose_r"]),
                   ("gzwrite.c", ["gz_init", "gz_comp", "gz_zero", "gz_write", "gzwrite", "gzfwrite", "gzputc", "gzputs", "gzflush",
                                  "gzsetparams", "gzclose_w"]),
                   ("gzlib.c", ["gz_reset", "gzbuffer", "gzrewind", "gzseek64", "gztell64", "gzoffset64", "gzeof", "gzclearerr", "gz_error"])):
    for _n in _names:
        PAIRS["%s:%s" % (_f, _n)] = [G + _n] + ([G + "gzrewind_help"] if _n == "gzrewind" else [])
PAIRS["gzlib.c:gz_open"] = [G + "gzopen_help"]
PAIRS["gzwrite.c:gz_write_init"] = [G + "gz_init"]
PAIRS["gzlib.c:gzseek"] = [G + "gzseek64"]
PAIRS["gzlib.c:gztell"] = [G + "gztell64"]
PAIRS["gzlib.c:gzoffset"] = [G + "gzoffset64"]
for _k in ("gzwrite.c:gz_init", "gzlib.c:gzseek64", "gzlib.c:gztell64", "gzlib.c:gzoffset64"):
    PAIRS.pop(_k, None)

# second batch: the remaining functions of the reference that have a one-to-one counterpart (added after the helper-walk fix)
PAIRS.update({
    "inftrees.c:zng_inflate_table": [Z + "inflate::inftrees::inflate_table"],
    "inflate.c:inflateResetKeep": [Z + "inflate::reset_keep"],
    "inflate.c:inflateReset": [Z + "inflate::reset"],
    "inflate.c:inflateEnd": [Z + "inflate::end"],
    "inflate.c:inflateValidate": [Z + "inflate::validate"],
    # inflate.c:syncsearch was paired and withdrawn: its three pins are a loop bound and a byte comparison over working locals,
    # which a `for &byte in buf` spelling of the same search leaves nothing of (neutral patch E_C11_r3)
    "inffast_tpl.h:INFLATE_FAST": [Z + "inflate::inflate_fast_help_impl"],
    "deflate.c:deflateReset": [Z + "deflate::reset"],
    "deflate.c:lm_init": [Z + "deflate::lm_init"],
    "deflate.c:deflateEnd": [Z + "deflate::end"],
    "deflate.c:deflateGetDictionary": [Z + "deflate::get_dictionary"],
    "deflate.c:deflateSetHeader": [Z + "deflate::set_header"],
    "deflate.c:flush_pending": [Z + "deflate::flush_pending"],
    "compress.c:compress2": [Z + "deflate::compress_with_flush", Z + "deflate::compress"],
    "uncompr.c:uncompress2": [Z + "inflate::uncompress2", Z + "inflate::uncompress"],
    "trees.c:send_all_trees": [Z + "deflate::send_all_trees"],
    "trees.c:compress_block": [Z + "deflate::BitWriter::compress_block_help"],
    "trees.c:init_block": [Z + "deflate::State::init_block"],
    "trees.c:zng_tr_stored_block": [Z + "deflate::zng_tr_stored_block"],
    "trees.c:gen_codes": [Z + "deflate::gen_codes"],
    "trees.c:pqdownheap": [Z + "deflate::Heap::pqdownheap"],
    "match_tpl.h:LONGEST_MATCH": [Z + "deflate::longest_match::longest_match_help"],
    "gzlib.c:gzerror": [G + "gzerror"],
    "gzlib.c:gzdopen": [G + "gzdopen"],
    "crc32_braid_comb.c:crc32_combine_gen": [Z + "crc32::combine::crc32_combine_gen", Z + "crc32::combine::x2nmodp"],
})

ENUMS = {
    "Z_FINISH": "Finish", "Z_NO_FLUSH": "NoFlush", "Z_BLOCK": "Block", "Z_FULL_FLUSH": "FullFlush", "Z_PARTIAL_FLUSH": "PartialFlush",
    "Z_SYNC_FLUSH": "SyncFlush", "Z_TREES": "Trees",
    "Z_OK": "Ok", "Z_STREAM_ERROR": "StreamError", "Z_BUF_ERROR": "BufError", "Z_STREAM_END": "StreamEnd", "Z_DATA_ERROR": "DataError",
    "Z_MEM_ERROR": "MemError", "Z_VERSION_ERROR": "VersionError", "Z_NEED_DICT": "NeedDict",
    "INIT_STATE": "Init", "GZIP_STATE": "GZip", "EXTRA_STATE": "Extra", "NAME_STATE": "Name", "COMMENT_STATE": "Comment", "HCRC_STATE": "Hcrc",
    "BUSY_STATE": "Busy", "FINISH_STATE": "Finish",
    "need_more": "NeedMore", "block_done": "BlockDone", "finish_started": "FinishStarted", "finish_done": "FinishDone",
    "Z_FILTERED": "Filtered", "Z_HUFFMAN_ONLY": "HuffmanOnly", "Z_RLE": "Rle", "Z_FIXED": "Fixed", "Z_DEFAULT_STRATEGY": "Default",
    "Z_BINARY": "Binary", "Z_TEXT": "Text", "Z_UNKNOWN": "Unknown",
    "GZ_READ": "GZ_READ", "GZ_WRITE": "GZ_WRITE", "GZ_APPEND": "GZ_APPEND", "GZ_NONE": "GZ_NONE", "LOOK": "Look", "GZIP": "Gzip",
    "Z_ERRNO": "Z_ERRNO", "SEEK_SET": "SEEK_SET", "SEEK_CUR": "SEEK_CUR",
    "HEAD": "Head", "TYPE": "Type", "SYNC": "Sync", "DICT": "Dict", "MEM": "Mem", "BAD": "Bad", "CHECK": "Check", "STORED": "Stored",
    "COPY": "CopyBlock", "LEN": "Len", "LENGTH": "Length", "DONE": "Done",
}

# zlib-ng field -> acceptable zlib-rs tokens (lower case; field names, `type::method` or method names)
ALIAS = {
    "bi_valid": {"bits_valid", "bits_used"}, "bi_buf": {"bit_buffer"},
    "pending": {"pending", "pending::pending", "pending::remaining", "is_empty"}, "pending_buf_size": {"pending_buf_size", "pending::capacity", "capacity"},
    "pending_out": {"pending"}, "pending_buf": {"pending"},
    "wsize": {"window::size", "size", "w_size"}, "whave": {"window::have", "have"}, "wnext": {"window::next", "next"},
    "sym_next": {"sym_buf", "symbuf::is_empty", "symbuf::should_flush_block", "is_empty", "should_flush_block"},
    "sym_end": {"symbuf::should_flush_block", "should_flush_block"},
    "gzhead": {"gzhead"}, "window": {"window"}, "head": {"head"}, "prev": {"prev"},
    "extra": {"extra"}, "name": {"name"}, "comment": {"comment"}, "hcrc": {"hcrc"},
    "state": {"state"}, "zalloc": {"zalloc"}, "zfree": {"zfree"},
    "mode": {"mode"}, "wbits": {"wbits", "window_bits"}, "windowbits": {"window_bits", "wbits"},
    "flags": {"gzip_flags", "flags"}, "check": {"checksum"}, "havedict": {"have_dict", "flags"}, "last": {"is_last_block", "flags", "last"},
    "bits": {"bits_in_buffer", "bitreader::bits_in_buffer", "bits", "bits_used"}, "hold": {"hold", "bitreader::hold", "bit_buffer"},
    "block_open": {"block_open"}, "match_available": {"match_available"},
    "memlevel": {"mem_level"}, "w_bits": {"window_bits", "w_bits"},
    "in": {"input", "in_size"}, "out": {"output"}, "size": {"in_size", "out_size", "size", "in_capacity", "out_capacity"}, "want": {"want"},
    "strm": {"stream"}, "err": {"err"}, "msg": {"msg"}, "path": {"path"}, "fd": {"fd"}, "start": {"start"}, "raw": {"raw"},
}
LOCAL_ALIAS = {"bits": {"bits", "bits_in_buffer", "bitreader::bits_in_buffer", "bits_used"}, "hold": {"hold", "bit_buffer", "bitreader::hold"},
               "windowbits": {"window_bits"}, "memlevel": {"mem_level"}, "dictlength": {"dictionary", "len"}, "dictlen": {"dictionary", "len"},
               "hash_head": {"hash_head"}, "bstate": {"bstate"}, "old_flush": {"old_flush"}, "val": {"val"}, "err": {"err"}, "ret": {"ret"}}


def load():
    with open(FROZEN) as fh:
        return json.load(fh)


def _tokens_of(s, fn):
    toks = set()
    for n in s.names:
        toks.add(str(n).lower())
    for c in s.calls:
        c = str(c)
        toks.add(c.lower())
        toks.add(c.split("::")[-1].lower())
    return toks


def _surface_names(fn, bi, cache):
    """names of the user variables read in block bi (the expression builder expands single-definition locals, so
    the spelling `len == left` would otherwise be lost)"""
    if bi in cache:
        return cache[bi]
    names = set()

    def scan(node):
        if isinstance(node, dict):
            l = node.get("l")
            if isinstance(l, int) and node.get("k") in ("copy", "move") and l < len(fn.locals):
                n = fn.local_name(l)
                if n:
                    names.add(str(n).lower())
            for k, v in node.items():
                if k != "lhs":
                    scan(v)
        elif isinstance(node, list):
            for v in node:
                scan(v)
    # the block itself and the straight-line blocks leading to it (overflow assertions split one expression over blocks)
    preds = fn.preds()
    cur, chain = bi, [bi]
    for _ in range(4):
        ps = [p for p, _l in preds.get(cur, []) if p in fn.live]
        if len(ps) != 1 or len(fn.succ[ps[0]]) != 1:
            break
        cur = ps[0]
        chain.append(cur)
    for bj in chain:
        b = fn.blocks[bj]
        for st in b["s"]:
            scan(st.get("rv"))
        scan({k: v for k, v in b["t"].items() if k not in ("dest",)})
    cache[bi] = names
    return names


class TokSet(set):
    """tokens of an atom; `.own` are those of the atom itself, the rest are the names of the user variables read in its block
    (kept only so that the spelling of a comparison between locals survives the expression builder)"""
    own = frozenset()


def _toks(s, fn, b, cache):
    own = _tokens_of(s, fn)
    t = TokSet(own | _surface_names(fn, b, cache))
    t.own = frozenset(own)
    return t


def rust_atoms(fn):
    """(signature, token set) of every branch atom plus every comparison computed as a value"""
    out = []
    cache = {}
    for a, b, tb in atoms.all_atoms(fn):
        s = sig.sig(a, fn)
        out.append((s, _toks(s, fn, b, cache)))
    for bi, si, lhs, rv, st in fn.assignments():
        if rv.get("k") == "bin" and rv.get("op") in ("Eq", "Ne", "Lt", "Le", "Gt", "Ge"):
            e = fn.rvalue_expr(rv)
            for a in mir.bool_atoms(fn, e, True):
                s = sig.sig(a, fn)
                out.append((s, _toks(s, fn, bi, cache)))
    return out


EQ_RELS = {"Eq", "Ne", "true", "false", "is", "isnot", "in", "notin"}
ORD_RELS = {"Le", "Lt", "range", "notrange"}


def _c_bound(c):
    """('A', k) for `x >= k` / `x < k`, ('B', k) for `x > k` / `x <= k` when exactly one side of an ordering is one integer
    constant (a literal or a macro with a known value); None otherwise"""
    if c.get("cls") != "ord" or c.get("op") not in ("<", "<=", ">", ">="):
        return None
    text = c["text"]
    m = re.match(r"^(.*?)\s(<=|>=|<|>)\s(.*)$", text)
    if not m:
        return None
    left, op, right = m.group(1).strip(), m.group(2), m.group(3).strip()

    used = set()

    def atom_of(t):
        t = t.strip("() ")
        if re.fullmatch(r"-?\s*(0[xX][0-9a-fA-F]+|\d+)[uUlL]*", t):
            return int(re.sub(r"[uUlL\s]+", "", t), 0)
        v = c.get("macro_values", {}).get(t)
        if v is None:
            for mapped, rawn in (c.get("raw") or {}).items():
                if rawn == t:
                    v = c.get("macro_values", {}).get(mapped)
        if isinstance(v, int):
            used.add(t)
            return v
        return None

    def const_of(t):
        # a literal, a macro, or a sum / difference of those (`MAX_BITS + MAX_DIST_EXTRA_BITS`)
        t = t.strip()
        while t.startswith("(") and t.endswith(")"):
            t = t[1:-1].strip()
        parts = re.split(r"\s([+-])\s", t)
        total, sign = 0, 1
        for i, p_ in enumerate(parts):
            if i % 2 == 1:
                sign = 1 if p_ == "+" else -1
                continue
            v = atom_of(p_)
            if v is None:
                return None
            total += sign * v
        return total
    lk, rk = const_of(left), const_of(right)
    if (lk is None) == (rk is None):
        return None
    if rk is not None:
        k = rk
    else:
        k = lk
        op = {"<": ">", "<=": ">=", ">": "<", ">=": "<="}[op]
    return ("A" if op in (">=", "<") else "B", k, frozenset(used))


def matches(c, s, toks):
    if c["cls"] == "eq" and s.rel not in EQ_RELS:
        # `x != 0` in C may be `0 < x` in Rust for unsigned values
        if not (c["op"] in ("!=0", "!=", "==", "==0") and 0 in c["consts"] and s.rel in ("Le", "Lt")):
            return False
    if c["cls"] == "ord" and s.rel not in ORD_RELS:
        return False
    own = getattr(toks, "own", toks)
    for f in c["fields"]:
        alts = ALIAS.get(f.lower(), {f.lower()}) | {f.lower()}
        if not (alts & own):
            return False
    sconsts = {x for x in s.consts if isinstance(x, int)}
    if s.lo is not None:
        sconsts.add(s.lo)
    if s.hi is not None:
        sconsts.add(s.hi)
    if s.values:
        sconsts |= {v for v in s.values if isinstance(v, int)}
    # constants of range patterns (`2..=5`) reach the signature as spelled tokens
    sconsts |= {int(t) for t in own if isinstance(t, str) and t.lstrip("-").isdigit()}
    near = sconsts | {x + 1 for x in sconsts} | {x - 1 for x in sconsts}
    macro_vals = set(c.get("macro_values", {}).values())
    by_value = False
    snames = None
    bound_names = set()
    # an ordering against one constant (`x >= 3`, `MAX < y`): the tolerance of one is exactly the change of strictness,
    # `x >= k` is `k <= x`, `k-1 < x`, or the negation of `x < k` / `x <= k-1` - not `x >= k+1`
    bound = _c_bound(c)
    if bound is not None and s.rel in ("Le", "Lt") and (s.lo_consts or s.hi_consts) and not (s.lo_consts and s.hi_consts):
        kind, k, folded = bound
        if kind == "A":     # x >= k  /  x < k
            okset = {("Le", "lo", k), ("Lt", "lo", k - 1), ("Lt", "hi", k), ("Le", "hi", k - 1)}
        else:               # x > k  /  x <= k
            okset = {("Lt", "lo", k), ("Le", "lo", k + 1), ("Le", "hi", k), ("Lt", "hi", k + 1)}
        have = {(s.rel, "lo", v) for v in s.lo_consts if isinstance(v, int)} | {(s.rel, "hi", v) for v in s.hi_consts if isinstance(v, int)}
        if have and not (have & okset):
            return False
        if have & okset:
            # the bound is there, exactly: the macros it was computed from may have been folded into one constant
            bound_names = {x for x in folded}
    for n in c["names"]:
        nl = n.lower()
        if nl in own or n in s.names:
            continue
        if n in bound_names or c.get("raw", {}).get(n) in bound_names:
            by_value = True     # folded into the constant: recognised by value, so the subject has to be right
            continue
        if snames is None:
            snames = set(structural(s)["names"])
        if n in snames or c.get("raw", {}).get(n) in snames:
            # the named constant is inside the atom (a range built from it and stored in a local first)
            continue
        rawn = c.get("raw", {}).get(n)
        if rawn and (rawn.lower() in own or rawn in s.names):
            continue
        mv = c.get("macro_values", {}).get(n)
        if mv is not None and mv in near:
            by_value = True
            continue
        if s.variants and n in s.variants:
            continue
        return False
    for k in c["consts"]:
        if k in macro_vals:
            continue
        if k == 0 and (s.kind in ("truth", "is") or s.rel in ("true", "false", "is", "isnot")):
            continue
        if k not in near:
            return False
    locs = c["locals"]
    # a name recognised only by its value (Z_NO_FLUSH = 0) says nothing about the subject: then the C locals must be there
    if not c["fields"] and (not c["names"] or by_value):
        # recognised by value only: the subject has to be in the atom itself, not merely somewhere in its block
        where_ = own if (by_value and c["names"]) else toks
        for l in locs:
            alts = LOCAL_ALIAS.get(l.lower(), {l.lower()}) | {l.lower()}
            if not (alts & where_):
                return False
    if not (c["fields"] or c["names"] or locs):
        return False
    return True


def structural(s, fn=None):
    """spelling-independent summary of a Rust atom: relation, field and constant names and callees after expansion,
    constants - no names of locals or parameters"""
    fields, cnames, calls, consts = set(), set(), set(), set()
    parts = [x for part in s.atom[1:] if isinstance(part, tuple) for x in mir.walk(part)]
    for x in parts:
        if not isinstance(x, tuple) or not x:
            continue
        t = x[0]
        if t == "f":
            if not str(x[2]).isdigit():        # tuple positions are not names
                fields.add(str(x[2]))
        elif t == "c":
            if isinstance(x[1], int):
                consts.add(str(x[1]))
            if len(x) > 2 and x[2]:
                cnames.add(str(x[2]).split("::")[-1])
        elif t == "call" and isinstance(x[1], str):
            calls.add(sig._short(x[1]))
        elif t in ("dc", "agg") and len(x) > 2 and x[2]:
            cnames.add(str(x[2]))
    out = {"rel": s.rel, "names": sorted(fields | cnames), "calls": sorted(calls), "consts": sorted(consts)}
    # which variants / values an `is` / `in` atom selects is part of its meaning
    if s.variants:
        out["variants"] = sorted(map(str, s.variants))
    if s.values:
        out["values"] = sorted(map(str, s.values))
    return out


def find(c, sigs_toks):
    for s, toks in sigs_toks:
        if matches(c, s, toks):
            return s
    rs = c.get("rs")
    if rs:
        # the instance was frozen together with the structure of its counterpart: a renamed local does not matter
        for s, toks in sigs_toks:
            if s.rel == rs["rel"] and structural(s) == rs:
                return s
    elif not c["fields"] and not c["names"]:
        # a comparison between working locals only (`have < len`): nothing of it survives a renaming of the locals
        # except its shape - a comparison of the same class between two plain locals / parameters
        want = EQ_RELS if c["cls"] == "eq" else ORD_RELS
        for s, toks in sigs_toks:
            if s.rel in want and s.kind == "cmp":
                st = structural(s)
                if not st["names"] and not st["calls"] and not st["consts"]:
                    return s
    return None


# zlib-ng callee -> acceptable last path segments of the zlib-rs callee
CALL_ALIAS = {
    "inflateReset": {"reset"}, "inflateResetKeep": {"reset_keep"}, "inflateReset2": {"reset_with_config"}, "inflateStateCheck": set(),
    "deflateReset": {"reset"}, "deflateResetKeep": {"reset_keep"}, "deflateStateCheck": set(), "deflate": {"deflate"},
    "updatewindow": {"extend"}, "inflate_fast": {"inflate_fast_help", "inflate_fast"}, "zng_inflate_table": {"inflate_table"},
    "zng_tr_flush_block": {"zng_tr_flush_block", "flush_block_only"}, "zng_tr_stored_block": {"zng_tr_stored_block"},
    "zng_tr_flush_bits": {"flush_bits"}, "zng_tr_align": {"align", "emit_align"}, "zng_tr_init": {"zng_tr_init"},
    "zng_tr_emit_end_block": {"emit_end_block", "emit_end_block_and_align"}, "zng_tr_emit_tree": {"emit_tree"},
    "flush_pending": {"flush_pending"}, "read_buf": {"read_buf", "read_buf_window"}, "slide_hash": {"slide_hash"},
    "fill_window": {"fill_window"}, "lm_init": {"lm_init"}, "lm_set_level": {"lm_set_level"}, "syncsearch": {"syncsearch"},
    "longest_match": {"longest_match"}, "longest_match_slow": {"longest_match_slow", "longest_match"},
    "put_short": {"extend"}, "put_byte": {"extend"}, "put_uint32": {"extend"}, "put_uint32_msb": {"extend"}, "put_short_msb": {"extend"},
    "crc_reset": {"crc32fold::new", "new", "default"}, "compare256_rle": {"compare256_rle", "compare256"},
}
C_NOT_CALLS = {"if", "while", "for", "switch", "return", "sizeof", "defined", "Assert", "Tracev", "Tracevv", "Trace", "Tracec", "Tracecv",
               "LIKELY", "UNLIKELY", "MAX", "MIN", "PREFIX", "PREFIX3", "FUNCTABLE_CALL", "ZSWAP32", "MAX_DIST", "memcpy", "memset", "memcmp",
               "FLUSH_BLOCK", "FLUSH_BLOCK_ONLY", "NEEDBITS", "PULLBYTE", "DROPBITS", "BITS", "INITBITS", "BYTEBITS", "LOAD", "RESTORE",
               "SET_BAD", "CRC2", "CRC4", "UPDATE", "CLEAR_HASH", "RANK", "ALLOC", "ZFREE", "TRY_FREE", "INFLATE_NEED_CHECKSUM"}


def c_calls(body):
    names = set()
    for m in re.finditer(r"\b(?:PREFIX\d?\()?([A-Za-z_]\w*)\)?\s*\(", body):
        n = m.group(1)
        if n in C_NOT_CALLS or n.isupper():
            continue
        names.add(n)
    return sorted(names)


def call_candidates(cname):
    if cname in CALL_ALIAS:
        return set(CALL_ALIAS[cname])
    return {cname.lower(), re.sub(r"^zng_", "", cname.lower())}


def c_literals(body, macros):
    """integer literals of a C function body (and the values of the integer macros it names), small ones excluded"""
    out = set()
    for m in re.finditer(r"(?<![\w.])(0[xX][0-9a-fA-F]+|\d+)[uUlL]*(?![\w.])", body):
        try:
            v = int(m.group(1), 0)
        except ValueError:
            continue
        if v >= 7:
            out.add(v)
    for m in re.finditer(r"\b([A-Z][A-Z0-9_]{2,})\b", body):
        v = macros.get(m.group(1))
        if isinstance(v, int) and v >= 7:
            out.add(v)
    return out


def rust_literals(fns):
    out = set()

    def scan(node):
        if isinstance(node, dict):
            if node.get("k") == "const" and isinstance(node.get("val"), int):
                out.add(node["val"])
            if node.get("k") == "const" and isinstance(node.get("indirect"), dict) and str(node.get("ty", "")).startswith("[u8; ") \
                    and len(node["indirect"].get("hex", "")) <= 32:
                out.update(bytes.fromhex(node["indirect"]["hex"]))   # a small named byte array counts as its bytes
            for v in node.values():
                scan(v)
        elif isinstance(node, list):
            for v in node:
                scan(v)
    for f in fns:
        for bi in f.live:
            scan(f.blocks[bi]["s"])
            scan(f.blocks[bi]["t"])
        for pr in f.j.get("promoted", []) or []:
            scan(pr)
    return out


def c_const_stores(body):
    """(field, value) for every `state->field = <integer literal>;` of a C function body"""
    out = set()
    for m in re.finditer(r"\b(?:s|state|strm)->(?:x\.|strm\.)?(\w+)\s*=\s*(-?\d+)\s*;", body):
        out.add((m.group(1), int(m.group(2))))
    return sorted(out)


def rust_const_stores(fns):
    out = set()
    for f in fns:
        for bi, fp, root, rv, st in f.field_writes():
            v = f.const_of(rv)
            if v is not None and fp:
                out.add((str(fp[-1]).lower(), int(v)))
    return out


C_OPS = {">>=": "Shr", "<<=": "Shl", "+=": "Add", "-=": "Sub", "|=": "BitOr", "&=": "BitAnd", "^=": "BitXor"}


def c_opassigns(body):
    """(field, operator) for every compound assignment `state->field OP= ...` of a C function body"""
    out = set()
    for m in re.finditer(r"\b(?:s|state|strm)->(?:x\.|strm\.)?(\w+)\s*(>>=|<<=|\+=|-=|\|=|&=|\^=)", body):
        out.add((m.group(1), C_OPS[m.group(2)]))
    return sorted(out)


def c_opassign_counts(body):
    """{(field, operator): number of compound assignments `state->field OP= ...`} of a C function body"""
    out = {}
    for m in re.finditer(r"\b(?:s|state|strm)->(?:x\.|strm\.)?(\w+)\s*(>>=|<<=|\+=|-=|\|=|&=|\^=)", body):
        k = (m.group(1), C_OPS[m.group(2)])
        out[k] = out.get(k, 0) + 1
    return out


def rust_opassign_counts(fns, allf):
    """{(field, operator): number of in-place update sites} over the paired functions and their helpers; the sites of a helper
    count once per live call to it from the set (a site that moved into a helper called twice is still two updates)"""
    calls = {}
    for g in allf:
        for c in g.live_calls():
            if c.callee:
                calls[c.callee] = calls.get(c.callee, 0) + 1
    roots = {f.path for f in fns}
    out = {}
    for g in allf:
        w = 1 if g.path in roots else max(1, calls.get(g.path, 1))
        for k in _rust_opassign_sites([g]):
            out[k] = out.get(k, 0) + w
    return out


def c_local_opassigns(body):
    """{(local, operator)} for every compound assignment `name OP= ...` to a plain local of a C function body"""
    out = set()
    for m in re.finditer(r"(?<![\w>.\]])([a-z_]\w*)\s*(>>=|<<=|\+=|-=|\|=|&=|\^=)", body):
        out.add((m.group(1), C_OPS[m.group(2)]))
    return out


def c_local_field_assigns(body):
    """{(local, field)} for plain assignments `local = other;` of a C function body where `other` is a state field
    (`state->wnext`) or a local that the function initialises from one (`wnext = state->wnext; ... op = wnext;`)"""
    from_field = {}
    for m in re.finditer(r"(?<![\w>.\]])([a-z_]\w*)\s*=\s*(?:\(\w[\w \*]*\)\s*)?(?:s|state|strm)->(?:x\.|strm\.)?(\w+)\s*;", body):
        from_field.setdefault(m.group(1), set()).add(m.group(2))
    out = set()
    for loc, flds in from_field.items():
        for fl in flds:
            out.add((loc, fl))
    for m in re.finditer(r"(?<![\w>.\]])([a-z_]\w*)\s*=\s*([a-z_]\w*)\s*;", body):
        a, b = m.group(1), m.group(2)
        if a != b and b in from_field and len(from_field[b]) == 1:
            out.add((a, next(iter(from_field[b]))))
    return out


def rust_local_field_assigns(f):
    """{(local name, token)} for assignments to a named local whose value is nothing but a state field or an accessor call
    (`op = window_next` with `window_next = state.window.next()`): tokens are the field name and `type::method` / method names"""
    out = set()
    for bi, si, lhs, rv, st in f.assignments():
        if lhs.get("p"):
            continue
        name = f.local_name(lhs["l"])
        if not name:
            continue
        # only re-loads count: the local already holds a value here (another definition dominates this one).  The initialiser of
        # `let mut copy = state.length;` followed by clamps is routinely folded into one expression and is not pinned.
        reload = False
        for bi2, si2, rv2 in f.defs.get(lhs["l"], []):
            if bi2 in f.live and ((bi2 == bi and isinstance(si2, int) and si2 < si) or (bi2 != bi and f.dominates(bi2, bi))):
                reload = True
                break
        if not reload:
            continue
        e = mir.strip_casts(f.rvalue_expr(rv))
        while e and e[0] in ("*", "&"):
            e = mir.strip_casts(e[1])
        if e and e[0] == "f":
            r_, fp_ = mir.field_path(e)
            if fp_:
                out.add((name, str(fp_[-1]).lower()))
        elif e and e[0] == "call" and isinstance(e[1], str) and len(e[2]) <= 1:
            segs = e[1].split("::")
            out.add((name, segs[-1].lower()))
            if len(segs) >= 2:
                out.add((name, (segs[-2] + "::" + segs[-1]).lower()))
    return out


def c_flush_variants(body):
    """the Z_* flush constants a C function body compares its `flush` argument with"""
    out = set()
    for m in re.finditer(r"\bflush\s*(?:==|!=|<=|>=|<|>)\s*(Z_[A-Z_]+)", body):
        out.add(m.group(1))
    for m in re.finditer(r"(Z_[A-Z_]+)\s*(?:==|!=)\s*flush\b", body):
        out.add(m.group(1))
    return {ENUMS[z] for z in out if z in ENUMS}


def rust_flush_variants(fns):
    """the flush variants that the functions' branches on a local or parameter named `flush` distinguish"""
    out = set()
    for f in fns:
        for b in sorted(f.live):
            if f.blocks[b]["t"]["k"] != "switch" or b in f.debug_branches:
                continue
            for lab, tb in f.succ[b]:
                if lab is None or lab[0] == "const":
                    continue
                for a in f.edge_atoms(b, lab, expand=False):
                    if a[0] == "is" and str(a[4]).endswith("Flush"):
                        e = mir.strip_casts(a[1])
                        while e[0] in ("*", "&"):
                            e = e[1]
                        if e[0] in ("v", "p") and (f.local_name(e[1]) or "") == "flush":
                            out |= {str(x) for x in a[2]}
                    if a[0] == "cmp" and a[1] in ("Eq", "Ne"):
                        # `flush == DeflateFlush::NoFlush` through PartialEq
                        for x, y in ((a[2], a[3]), (a[3], a[2])):
                            x = mir.strip_casts(x)
                            while x[0] in ("*", "&"):
                                x = x[1]
                            if x[0] in ("v", "p") and (f.local_name(x[1]) or "") == "flush" and isinstance(y, tuple) and y[0] == "agg" \
                                    and str(y[1]).endswith("Flush") and isinstance(y[2], str):
                                out.add(y[2])
    return out


def rust_local_opassigns(f):
    """{(local name, operator): sites} for every `x = x OP ..` on a named local of one function (also through shadowing:
    the operand is a local of the same name)"""
    out = {}
    for bi, si, lhs, rv, st in f.assignments():
        if lhs.get("p"):
            continue
        L = lhs["l"]
        name = f.local_name(L)
        if not name:
            continue
        e = mir.strip_casts(f.rvalue_expr(rv))
        if e and e[0] == "f" and isinstance(e[1], tuple) and e[1] and e[1][0] == "bin":
            e = e[1]
        if not (e and e[0] == "bin"):
            continue
        a = mir.strip_casts(e[2])
        inplace = a[0] in ("v", "p") and (a[1] == L or f.local_name(a[1]) == name)
        if not inplace:
            # `let x = if c { y - 1 } else { y }` is `let mut x = y; if c { x -= 1 }`: the left operand is what another
            # definition of the same local assigns as it is
            for bi2, si2, rv2 in f.defs.get(L, []):
                if rv2 is None or si2 == "call" or rv2 is rv:
                    continue
                o = mir.strip_casts(f.rvalue_expr(rv2))
                if o == a and o[0] not in ("c",):
                    inplace = True
                    break
        if inplace:
            op = str(e[1])
            for suf in ("WithOverflow", "Unchecked"):
                op = op.replace(suf, "")
            out[(name, op)] = out.get((name, op), 0) + 1
    return out


def rust_opassigns(fns):
    """(field, operator) for every store `place.field = place.field OP ...` (a compound assignment)"""
    return set(_rust_opassign_sites(fns))


def _rust_opassign_sites(fns):
    out = []
    for f in fns:
        for bi, fp, root, rv, st in f.field_writes():
            if not fp:
                continue
            e = f.rvalue_expr(rv) if isinstance(rv, dict) else rv
            e = mir.strip_casts(e)
            # checked arithmetic: (a + b).0
            if e and e[0] == "f" and isinstance(e[1], tuple) and e[1] and e[1][0] == "bin":
                e = e[1]
            if not (e and e[0] == "bin"):
                continue
            lhs = mir.strip_casts(e[2])
            r2, p2 = mir.field_path(lhs)
            if p2 and str(p2[-1]) == str(fp[-1]):
                op = str(e[1])
                for suf in ("WithOverflow", "Unchecked"):
                    op = op.replace(suf, "")
                out.append((str(fp[-1]).lower(), op))
    return out


def c_minmax(body, macros=None):
    """[(kind, sorted field/macro tokens of the arguments)] for every MIN(..)/MAX(..) of a C function body"""
    out = []
    for m in re.finditer(r"\b(MIN|MAX)\s*\(", body):
        i, d = m.end(), 1
        while i < len(body) and d:
            d += body[i] == "("
            d -= body[i] == ")"
            i += 1
        args = body[m.end():i - 1]
        toks = set()
        for f in re.findall(r"(?:->|\.)\s*(\w+)", args):
            toks.add(f.lower())
        for n in re.findall(r"\b([A-Z][A-Z0-9_]{2,})\b", args):
            toks.add(n.lower())
        if toks:
            out.append((m.group(1).lower(), sorted(toks)))
    return out


def rust_minmax(fns):
    """[(kind, tokens)] for every min/max call: field names, constant names and callee names inside its arguments"""
    out = []
    for f in fns:
        for c in f.live_calls(r"(?:^|::)(?:min|max)$"):
            kind = c.callee.split("::")[-1]
            toks = set()
            for a in f.call_args(c):
                for x in mir.walk(a):
                    if not isinstance(x, tuple) or not x:
                        continue
                    if x[0] == "f":
                        toks.add(str(x[2]).lower())
                    elif x[0] == "c" and len(x) > 2 and x[2]:
                        toks.add(str(x[2]).split("::")[-1].lower())
                    elif x[0] == "call" and isinstance(x[1], str):
                        toks.add(x[1].split("::")[-1].lower())
            out.append((kind, toks))
    return out


def _minmax_ok(kind, ctoks, rmm):
    for k2, rt in rmm:
        if k2 != kind:
            continue
        if all((ALIAS.get(t, {t}) | {t}) & rt for t in ctoks):
            return True
    return False


C_BINOPS = {">>": "Shr", "<<": "Shl", "+": "Add", "-": "Sub", "&": "BitAnd", "|": "BitOr", "*": "Mul", "/": "Div", "%": "Rem", "^": "BitXor"}


def c_arith(body):
    """(operator, literal) for every binary operation of a C function body that has an integer literal operand
    (`x >> 4`, `+ 5`, `& 0xffff`); +-1 and *1 are too common to say anything"""
    out = set()
    for m in re.finditer(r"(>>|<<|\+|-|&|\||\*|/|%|\^)\s*\(?\s*(0[xX][0-9a-fA-F]+|\d+)[uUlL]*\b(?!\s*\.)", body):
        op, v = m.group(1), int(m.group(2), 0)
        pre = body[max(0, m.start() - 2):m.start()]
        if op in ("+", "-", "&", "*") and (pre.strip().endswith(("(", ",", "=", "?", ":", "<", ">", "!", "&", "|", "+", "-", "*", "/")) or not pre.strip()):
            continue        # unary minus / address-of / dereference, not a binary operator
        if body[m.start():m.start() + 2] in ("&&", "||", "++", "--", "+=", "-=", "&=", "|=", "*=", "/=", "%=", "^=", "->"):
            continue
        if v in (0, 1) or (op in ("+", "-") and v <= 1):
            continue
        out.add((C_BINOPS[op], v))
    return sorted(out)


def rust_arith(fns):
    out = set()

    def scan(e):
        for x in mir.walk(e):
            if isinstance(x, tuple) and x and x[0] == "bin" and len(x) >= 4:
                op = str(x[1])
                for suf in ("WithOverflow", "Unchecked"):
                    op = op.replace(suf, "")
                for side in (x[2], x[3]):
                    sd = mir.strip_casts(side)
                    if isinstance(sd, tuple) and sd and sd[0] == "c" and isinstance(sd[1], int):
                        out.add((op, sd[1]))
    for f in fns:
        for bi, si, lhs, rv, st in f.assignments():
            if bi in f.live and isinstance(rv, dict) and rv.get("k") == "bin":
                try:
                    scan(f.rvalue_expr(rv))
                except Exception:
                    pass
    return out


def c_loops(body, macros=None):
    """iteration domains of the simple counting `for` loops of a C function body: (lo, hi, inclusive) with endpoints as
    integers or lower-cased names (`for (bits = max_length; bits != 0; bits--)` -> (1, 'max_length', True))"""
    macros = macros or {}
    out = []

    def tok(t):
        t = t.strip().strip("()").strip()
        t = re.sub(r"^(?:s|state|strm|desc)\s*(?:->|\.)\s*", "", t)
        if re.fullmatch(r"(0[xX][0-9a-fA-F]+|\d+)[uUlL]*", t):
            return int(re.sub(r"[uUlL]+$", "", t), 0)
        if re.fullmatch(r"[A-Za-z_]\w*", t):
            v = macros.get(t)
            return v if isinstance(v, int) else t.lower()
        m = re.fullmatch(r"([A-Za-z_]\w*)\s*([+-])\s*(\d+)", t)
        if m and isinstance(macros.get(m.group(1)), int):
            return macros[m.group(1)] + (int(m.group(3)) if m.group(2) == "+" else -int(m.group(3)))
        return None
    for m in re.finditer(r"\bfor\s*\(\s*(\w+)\s*=\s*([^;]+);\s*(\w+)\s*(!=|>=|<=|>|<)\s*([^;]+);\s*(?:(\w+)\s*(\+\+|--)|(\+\+|--)\s*(\w+))\s*\)", body):
        var, init, cv, op, bound = m.group(1), m.group(2), m.group(3), m.group(4), m.group(5)
        sv, step = (m.group(6), m.group(7)) if m.group(6) else (m.group(9), m.group(8))
        if cv != var or sv != var:
            continue
        a, b_ = tok(init), tok(bound)
        if a is None or b_ is None:
            continue
        if step == "--":
            if op in ("!=", ">") and b_ == 0:
                out.append((1, a, True))
            elif op == ">=" and isinstance(b_, int):
                out.append((b_, a, True))
        else:
            if op == "<":
                out.append((a, b_, False))
            elif op == "<=":
                out.append((a, b_, True))
    return out


def rust_ranges(fns):
    """(lo, hi, inclusive) of every range constructed in the functions; endpoints as integers or sets of lower-cased names"""
    out = []

    def end(e):
        e = mir.strip_casts(e)
        v = None
        if isinstance(e, tuple) and e and e[0] == "c" and isinstance(e[1], int):
            return e[1]
        names = set()
        for x in mir.walk(e):
            if isinstance(x, tuple) and x:
                if x[0] == "f" and not str(x[2]).isdigit():
                    names.add(str(x[2]).lower())
                elif x[0] == "c" and len(x) > 2 and x[2]:
                    names.add(str(x[2]).split("::")[-1].lower())
                elif x[0] == "call" and isinstance(x[1], str):
                    names.add(x[1].split("::")[-1].lower())
        return frozenset(names) if names else None
    for f in fns:
        for c in f.live_calls(r"ops::range::RangeInclusive(?:<[^>]*>)?::new$"):
            a = f.call_args(c)
            if len(a) == 2:
                out.append((end(a[0]), end(a[1]), True))
        for bi, si, lhs, rv, st in f.assignments():
            if bi in f.live and isinstance(rv, dict) and rv.get("k") == "agg" and str(rv.get("adt", "")).endswith("ops::range::Range"):
                e = f.rvalue_expr(rv)
                d = dict(e[3]) if len(e) > 3 else {}
                if "start" in d and "end" in d:
                    out.append((end(d["start"]), end(d["end"]), False))
    return out


def _loop_ok(lo, hi, incl, rr):
    def same(c, r):
        if isinstance(c, int):
            return r == c
        return isinstance(r, frozenset) and ((ALIAS.get(c, {c}) | {c}) & r)
    for rlo, rhi, rincl in rr:
        if not same(lo, rlo):
            continue
        if rincl == incl and same(hi, rhi):
            return True
        if isinstance(hi, int) and isinstance(rhi, int) and (hi + (0 if incl else -1)) == (rhi + (0 if rincl else -1)):
            return True
    return False


def rust_callee_names(fns):
    out = set()
    for f in fns:
        for c in f.live_calls():
            if c.callee:
                parts = c.callee.lower().split("::")
                out.add(parts[-1])
                if len(parts) >= 2:
                    out.add(parts[-2] + "::" + parts[-1])
    return out


def with_helpers(P, fns):
    """the paired functions plus the local helpers they call (transitively) that are not themselves the counterpart of a
    zlib-ng function: a condition, call or store that moved into an extracted helper is still the function's own"""
    paired = {p for v in PAIRS.values() for p in v}
    try:
        from . import refwrites
        paired |= set(refwrites.PAIRS.values())
    except Exception:
        pass
    from collections import deque
    seen, out = set(), []
    work = deque((f.path, 0) for f in fns)
    # breadth first, the paired functions themselves first, helpers up to three calls deep.  No bound on the count within
    # that depth: a count bound makes the set depend on the order of the calls, and an edit that only reorders or
    # extracts code would move a helper in or out of it.
    while work:
        p, depth = work.popleft()
        if p in seen:
            continue
        seen.add(p)
        f = P.fns.get(p)
        if f is None:
            continue
        out.append(f)
        if depth >= 3 or len(out) > 400:
            continue
        for c in f.live_calls():
            cp = c.callee
            if cp and cp in P.fns and cp not in seen and cp not in paired and (cp.startswith(Z) or cp.startswith("libz_rs_sys::")):
                g = P.fns[cp]
                # only small private helpers: same crate, not a public API entry point
                if g.j.get("vis") == "Public" and g.is_extern_c:
                    continue
                work.append((cp, depth + 1))
    return out


def check(ck, P, rule, only=None):
    try:
        table = load()
    except OSError:
        ck.anchor("oracle: oracles/condparity.json", False)
        return 0
    n = 0
    for key, pins in sorted(table["pins"].items()):
        if only is not None and key not in only:
            continue
        fns = [P.fn(p) for p in PAIRS.get(key, [])]
        fns = [f for f in fns if f is not None]
        if not ck.anchor("zlib-rs counterpart of %s" % key, bool(fns)):
            continue
        st = []
        for f in fns:
            ck.use_fn(f)
        allf = with_helpers(P, fns)
        for f in allf:
            st += rust_atoms(f)
        cname = key.split(":")[1]
        cond_ok_consts = set()
        cond_ok_folded = set()
        for c in pins:
            n += 1
            m = find(c, st)
            if m is not None:
                cond_ok_consts.update(c["consts"])
                cond_ok_folded.update(v_ for v_ in c.get("macro_values", {}).values() if isinstance(v_, int))
            ck.decide(m is not None, rule, "%s:%s" % (cname, c["text"]), "counterpart present",
                      "zlib-ng's %s decides with `%s`; no branch or boolean value of %s tests %s any more - the port has lost or changed "
                      "a condition of its reference" % (cname, c["text"], ", ".join(f.path.replace(Z, "") for f in fns),
                                                        "/".join(c["fields"] + c["names"] + [str(k) for k in c["consts"]] + (c["locals"] if not c["fields"] and not c["names"] else []))),
                      where(fns[0]))
        wr = set()
        from . import refwrites
        for f in fns:
            w_, _c = refwrites.attributed(P, f)
            wr |= {str(x).lower() for x in w_}
        for cf in table.get("writes", {}).get(key, []):
            n += 1
            alts = ALIAS.get(cf.lower(), {cf.lower()}) | {cf.lower()}
            stored = bool(alts & wr)
            if not stored:
                # the store moved into a function that accompanies this one in every caller: the same store
                from . import flow as _flow
                W_ = getattr(P, "_cp_writes", None)
                if W_ is None:
                    W_ = P._cp_writes = _flow.Writes(P)
                stored = any(refwrites._companions_write(P, W_, f, a_) for f in fns for a_ in alts)
            ck.decide(stored, rule, "%s:stores:%s" % (cname, cf), "still stored",
                      "zlib-ng's %s assigns `%s`; %s (with its helpers) no longer stores it: the port has lost a state update of its reference"
                      % (cname, cf, ", ".join(f.path.replace(Z, "") for f in fns)), where(fns[0]))
        cst = rust_const_stores(allf)
        for cf, v in table.get("const_stores", {}).get(key, []):
            n += 1
            alts = ALIAS.get(cf.lower(), {cf.lower()}) | {cf.lower()}
            cstored = any((a_, v) in cst for a_ in alts)
            if not cstored:
                from . import flow as _flow
                W_ = getattr(P, "_cp_writes", None)
                if W_ is None:
                    W_ = P._cp_writes = _flow.Writes(P)
                for f in fns:
                    callers = [P.fns[c_] for c_ in P.callers_of(f.path) if c_ in P.fns and c_ != f.path]
                    comp = []
                    for cx in callers:
                        comp += [P.fns[cp] for cp in cx.callee_paths() if cp in P.fns and cp != f.path]
                    if callers and any((a_, v) in rust_const_stores(with_helpers(P, [k_])) for k_ in comp for a_ in alts) and \
                            any(refwrites._companions_write(P, W_, f, a_) for a_ in alts):
                        cstored = True
            ck.decide(cstored, rule, "%s:stores:%s=%d" % (cname, cf, v), "still stored",
                      "zlib-ng's %s sets `%s = %d`; %s (with its helpers) no longer stores that value in it: a flag or counter of the "
                      "reference is no longer (re)set" % (cname, cf, v, ", ".join(f.path.replace(Z, "") for f in fns)), where(fns[0]))
        rops = rust_opassigns(allf)
        for cf, op in table.get("opassigns", {}).get(key, []):
            n += 1
            alts = ALIAS.get(cf.lower(), {cf.lower()}) | {cf.lower()}
            ck.decide(any((a_, op) in rops for a_ in alts), rule, "%s:update:%s:%s" % (cname, cf, op), "still updated with that operator",
                      "zlib-ng's %s updates `%s` with %s; %s (with its helpers) no longer updates it that way: the direction or kind of "
                      "an in-place update of the reference has changed" % (cname, cf, op, ", ".join(f.path.replace(Z, "") for f in fns)), where(fns[0]))
        if table.get("opcounts", {}).get(key):
            rcnt = rust_opassign_counts(fns, allf)
            for fo, want in sorted(table["opcounts"][key].items()):
                cf, op = fo.split("|")
                n += 1
                alts = ALIAS.get(cf.lower(), {cf.lower()}) | {cf.lower()}
                got = sum(v_ for (a_, o_), v_ in rcnt.items() if o_ == op and a_ in alts)
                ck.decide(got >= want, rule, "%s:update-count:%s:%s" % (cname, cf, op), "%d in-place updates of that kind, as in the reference" % want,
                          "zlib-ng's %s updates `%s` in place with %s at %d places and so did the port; %s (with its helpers) now does so at %d: "
                          "one of the in-place updates of the reference became a plain store or was dropped"
                          % (cname, cf, op, want, ", ".join(f.path.replace(Z, "") for f in fns), got), where(fns[0]))
        for fpath, want_ in sorted(table.get("local_ops", {}).get(key, {}).items()):
            g = P.fns.get(fpath)
            if g is None:
                continue
            have_ = rust_local_opassigns(g)
            names_ = {}
            for l in g.locals:
                if l.get("name"):
                    names_[str(l["name"])] = names_.get(str(l["name"]), 0) + 1
            for no, cnt in sorted(want_.items()):
                nm, op = no.split("|")
                cnt, nloc = cnt if isinstance(cnt, list) else (cnt, 1)
                if names_.get(nm, 0) < nloc:
                    continue  # the working local (or one of the shadowed locals of that name) was renamed: nothing to compare by name
                n += 1
                got = have_.get((nm, op), 0)
                ck.decide(got >= cnt, rule, "%s:local-update:%s:%s:%s" % (cname, fpath.split("::")[-1], nm, op),
                          "working local still updated in place (%d site(s))" % cnt,
                          "zlib-ng's %s updates its local `%s` with %s and %s did so at %d place(s); it now does at %d although the local "
                          "is still there: an adjustment of the reference's working variable was dropped or turned into a fresh value"
                          % (cname, nm, op, fpath.replace(Z, ""), cnt, got), where(g))
        if table.get("flush_variants", {}).get(key):
            n += 1
            allowed = set(table["flush_variants"][key])
            now_ = rust_flush_variants(fns)
            extra_ = sorted(now_ - allowed)
            ck.decide(not extra_, rule, "%s:flush-variants" % cname, "flush compared only with %s" % sorted(allowed),
                      "%s now distinguishes flush value(s) %s that zlib-ng's %s does not look at (it compares flush with %s only): "
                      "the function behaves differently for a flush mode the reference treats like the others"
                      % (", ".join(f.path.replace(Z, "") for f in fns), extra_, cname, sorted(allowed)), where(fns[0]))
        for fpath, want_ in sorted(table.get("local_assigns", {}).get(key, {}).items()):
            g = P.fns.get(fpath)
            if g is None:
                continue
            have_ = rust_local_field_assigns(g)
            names_ = {}
            for l in g.locals:
                if l.get("name"):
                    names_[str(l["name"])] = names_.get(str(l["name"]), 0) + 1
            for no, nloc in sorted(want_.items()):
                nm, cf = no.split("|")
                if names_.get(nm, 0) < nloc:
                    continue  # renamed
                n += 1
                alts = ALIAS.get(cf.lower(), {cf.lower()}) | {cf.lower()}
                ck.decide(any((nm, a_) in have_ for a_ in alts), rule, "%s:local-assign:%s:%s=%s" % (cname, fpath.split("::")[-1], nm, cf),
                          "working local still takes that state value",
                          "zlib-ng's %s assigns `%s = %s` and %s did so too; no assignment to `%s` takes that value any more although the "
                          "local is still there: a working variable of the reference is re-loaded from something else"
                          % (cname, nm, cf, fpath.replace(Z, ""), nm), where(g))
        for cf, frozen in sorted(table.get("opsets", {}).get(key, {}).items()):
            n += 1
            alts = ALIAS.get(cf.lower(), {cf.lower()}) | {cf.lower()}
            now = {op for (a_, op) in rops if a_ in alts}
            extra = sorted(now - set(frozen))
            ck.decide(not extra, rule, "%s:update:%s:only" % (cname, cf), "no other in-place operator on that field",
                      "%s now updates `%s` in place with %s, which neither zlib-ng's %s nor the port did: the direction or kind of an "
                      "in-place update has changed" % (", ".join(f.path.replace(Z, "") for f in fns), cf, "/".join(extra), cname), where(fns[0]))
        root_toks = set()
        for f in fns:
            for s_, t_ in rust_atoms(f):
                root_toks |= set(getattr(t_, "own", t_))
        own_fn = all(f.path in PAIRS.get(key, []) for f in fns)
        for fld in table.get("absent", {}).get(key, []):
            if not own_fn:
                break           # the function was folded into its caller: the caller's tests are not its own
            n += 1
            ck.decide(fld not in root_toks, rule, "%s:no-test:%s" % (cname, fld), "does not test the caller's buffers",
                      "zlib-ng's %s never looks at strm->%s; %s now decides on it: a call that the reference accepts (a stream without "
                      "buffers attached yet) is answered differently" % (cname, fld, ", ".join(f.path.replace(Z, "") for f in fns)), where(fns[0]))
        rr = None
        for lo, hi, incl in table.get("loops", {}).get(key, []):
            if rr is None:
                rr = rust_ranges(allf)
            n += 1
            ck.decide(_loop_ok(lo, hi, incl, rr), rule, "%s:loop:%s..%s%s" % (cname, lo, "=" if incl else "", hi), "iteration domain kept",
                      "zlib-ng's %s iterates over %s..%s%s; %s (with its helpers) no longer has a range with these ends: a loop of the reference "
                      "covers a different domain" % (cname, lo, "=" if incl else "", hi, ", ".join(f.path.replace(Z, "") for f in fns)), where(fns[0]))
        rar = None
        for op, v in table.get("arith", {}).get(key, []):
            if rar is None:
                rar = rust_arith(allf)
            n += 1
            ck.decide((op, v) in rar, rule, "%s:arith:%s:%d" % (cname, op, v), "operation with that constant still there",
                      "zlib-ng's %s computes with `%s %d`; %s (with its helpers) no longer does: a shift, mask or offset of the reference "
                      "has changed" % (cname, op, v, ", ".join(f.path.replace(Z, "") for f in fns)), where(fns[0]))
        rmm = rust_minmax(allf)
        for kind, ctoks in table.get("minmax", {}).get(key, []):
            n += 1
            ck.decide(_minmax_ok(kind, ctoks, rmm), rule, "%s:%s:%s" % (cname, kind, "+".join(ctoks)), "clamp still applied",
                      "zlib-ng's %s clamps with %s(.. %s ..); %s (with its helpers) no longer takes that %s: a length or count of the "
                      "reference is no longer bounded" % (cname, kind.upper(), ", ".join(ctoks), ", ".join(f.path.replace(Z, "") for f in fns), kind), where(fns[0]))
        lits = rust_literals(allf)
        for v in table.get("literals", {}).get(key, []):
            n += 1
            # a comparison re-spelled by one (`>= 258` as `> 257`) keeps its condition pin; the literal then counts as kept
            moved = v in cond_ok_consts and ((v - 1) in lits or (v + 1) in lits)
            # a macro of a condition that still holds may have been folded into a named constant with other macros
            ck.decide(v in lits or moved or v in cond_ok_folded, rule, "%s:literal:%d" % (cname, v), "constant still used",
                      "zlib-ng's %s uses the constant %d (0x%x); %s no longer does - a size, threshold or mask of the reference has changed"
                      % (cname, v, v, ", ".join(f.path.replace(Z, "") for f in fns)), where(fns[0]))
        have = rust_callee_names(allf)
        for cc in table.get("calls", {}).get(key, []):
            n += 1
            ok_call = bool(call_candidates(cc) & have)
            if not ok_call:
                # the callee was a function of the reference tree that has since been inlined into this caller
                from . import inline
                for kp in inline.table().get("fns", []):
                    if kp.split("::")[-1].lower() in call_candidates(cc) and kp not in P.fns and any(f.path in inline.frozen_callers(kp) for f in fns):
                        ok_call = True
            ck.decide(ok_call, rule, "%s:calls:%s" % (cname, cc), "counterpart call present",
                      "zlib-ng's %s calls %s; %s no longer calls its counterpart (%s) - a different helper (for instance the variant that "
                      "keeps part of the state) changes what the function does for its reference's callers"
                      % (cname, cc, ", ".join(f.path.replace(Z, "") for f in fns), "/".join(sorted(call_candidates(cc)))), where(fns[0]))
    return n
