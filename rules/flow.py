"""Interprocedural field-write summaries (must / may) and path (CUT) queries."""
import re
from . import mir

CONTENT_WRITERS = {"fill", "write_bytes", "copy_from_slice", "copy_from_nonoverlapping", "write", "copy_nonoverlapping",
                   "fill_with", "clone_from_slice", "copy_within"}
RECEIVER_CHAIN = {"as_mut_slice", "as_mut", "deref_mut", "as_mut_ptr", "index_mut", "as_slice", "as_ptr", "deref",
                  "as_mut_slice_unchecked", "borrow_mut", "get_mut", "get_unchecked_mut", "first_chunk_mut"}


def receiver_root(e):
    """dig through reference/receiver-adapter calls to the place the call operates on"""
    for _ in range(12):
        if e[0] in ("&", "cast"):
            e = e[1]
            continue
        if e[0] == "call" and isinstance(e[1], str) and e[1].split("::")[-1] in RECEIVER_CHAIN and e[2]:
            e = e[2][0]
            continue
        break
    return e


class Writes:
    """per function: gen sets per block of (param, fieldpath) writes, with callee summaries"""

    def __init__(self, prog):
        self.prog = prog
        self._must = {}
        self._may = {}
        self._inprog = set()

    def _block_gens(self, fn, summary_of):
        gens = {b: set() for b in fn.live}
        for bi, fp, root, rv, s in fn.field_writes():
            if root[0] == "p":
                gens[bi].add((root[1], fp))
        # whole-place writes through a param reference:  *param = value
        for bi, si, lhs, rv, s in fn.assignments():
            pe = fn.place_expr(lhs)
            if pe[0] == "*" and pe[1][0] == "p":
                gens[bi].add((pe[1][1], ()))
        for c in fn.calls:
            if c.bb not in fn.live or not c.callee:
                continue
            args = fn.call_args(c)
            callee = self.prog.fns.get(c.callee)
            if callee is not None and callee is not fn:
                summ = summary_of(callee)
                for (q, path) in summ:
                    if q - 1 < len(args):
                        root, prefix = mir.field_path(args[q - 1])
                        if root[0] == "p":
                            gens[c.bb].add((root[1], prefix + path))
            else:
                last = c.callee.split("::")[-1]
                if last in CONTENT_WRITERS and args:
                    r = receiver_root(args[0])
                    root, prefix = mir.field_path(r)
                    if root[0] == "p" and prefix:
                        gens[c.bb].add((root[1], prefix + ("<contents>",)))
                if last in ("replace", "swap", "take") and args:
                    # mem::replace(&mut place, v) / mem::swap(&mut a, &mut b) write their targets
                    for a in args[:2 if last == "swap" else 1]:
                        root, prefix = mir.field_path(a)
                        if root[0] == "p" and prefix:
                            gens[c.bb].add((root[1], prefix))
        return gens

    def may(self, fn):
        """set of (param, fieldpath) possibly written by fn or its local callees"""
        if fn.path in self._may:
            return self._may[fn.path]
        if fn.path in self._inprog:
            return set()
        self._inprog.add(fn.path)
        gens = self._block_gens(fn, self.may)
        res = set()
        for b in gens:
            res |= gens[b]
        self._inprog.discard(fn.path)
        self._may[fn.path] = res
        return res

    def must(self, fn):
        """set of (param, fieldpath) written on every path from entry to a return"""
        if fn.path in self._must:
            return self._must[fn.path]
        if fn.path in self._inprog:
            return set()
        self._inprog.add(fn.path)
        gens = self._block_gens(fn, self.must)
        res = must_dataflow(fn, gens)
        self._inprog.discard(fn.path)
        self._must[fn.path] = res
        return res


FAIL_VARIANTS = {"StreamError", "DataError", "MemError", "BufError", "VersionError", "ErrNo"}


def failure_blocks(fn):
    """blocks that assign a failure constant (ReturnCode::*Error, Err(..), None? no) to the return place:
    paths through them are failure exits and do not count for success-path (must) facts"""
    out = set()
    for bi, si, rv in fn.defs.get(0, []):
        if rv is None or si == "call":
            continue
        e = fn.rvalue_expr(rv)
        v = fn.enum_const(e)
        if v is not None and v[0].endswith("ReturnCode") and v[1] in FAIL_VARIANTS:
            out.add(bi)
        elif e[0] == "agg" and e[1].endswith("result::Result") and e[2] == "Err":
            out.add(bi)
        elif e[0] == "agg" and e[1].endswith("ControlFlow") and e[2] == "Break":
            inner = e[3][0][1] if e[3] else None
            v2 = fn.enum_const(inner) if inner else None
            if v2 is not None and v2[1] in FAIL_VARIANTS:
                out.add(bi)
    return out


def must_dataflow(fn, gens):
    """forward must analysis over success paths; returns the intersection over return blocks.
    A block assigning a failure constant to the return place ends a failure path (neutral)."""
    live = fn.live
    failb = failure_blocks(fn)
    preds = fn.preds()
    TOP = None
    out = {b: TOP for b in live}
    order = sorted(live)
    changed = True
    it = 0
    while changed and it < 200:
        changed = False
        it += 1
        for b in order:
            if b == 0:
                inn = set()
            else:
                inn = TOP
                for p, _ in preds.get(b, []):
                    if p not in live:
                        continue
                    po = out[p]
                    if po is TOP:
                        continue
                    inn = set(po) if inn is TOP else (inn & po)
                if inn is TOP:
                    continue
            if b in failb:
                continue  # stays TOP: failure path
            new = inn | gens.get(b, set())
            if out[b] is TOP or new != out[b]:
                out[b] = new
                changed = True
    res = TOP
    for b, kind in fn.exits():
        if kind != "return":
            continue
        o = out[b]
        if o is TOP:
            continue
        res = set(o) if res is TOP else (res & o)
    return res if res is not TOP else set()


def covered(path, written):
    """a leaf path is covered if it or any prefix of it is in the written set"""
    for i in range(len(path) + 1):
        if path[:i] in written:
            return True
    return False


def leaves(prog, adt_path, prefix=(), stop=(), seen=()):
    """leaf field paths of a struct, expanding local struct-typed fields"""
    a = prog.adt(adt_path)
    out = []
    if not a or a["kind"] != "struct" or adt_path in seen:
        return [prefix]
    for f in a["variants"][0]["fields"]:
        sub = f.get("adt")
        p = prefix + (f["name"],)
        if sub and sub in prog.adts and prog.adts[sub]["kind"] == "struct" and sub not in stop:
            out.extend(leaves(prog, sub, p, stop, seen + (adt_path,)))
        else:
            out.append(p)
    return out


# ----------------------------------------------------------------------------------------------
# CUT: every path from a set of start blocks to a set of end blocks passes through one of `cut`
# ----------------------------------------------------------------------------------------------

def reaches_avoiding(fn, starts, ends, cut_blocks=(), cut_edges=None):
    """True if some path from a start block reaches an end block without entering a cut block or
    taking a cut edge. starts themselves are not tested against cut."""
    cut_blocks = set(cut_blocks)
    ends = set(ends)
    seen = set()
    work = [s for s in starts if s not in cut_blocks]
    while work:
        b = work.pop()
        if b in seen:
            continue
        seen.add(b)
        if b in ends:
            return True
        for lab, tb in fn.succ[b]:
            if tb in cut_blocks:
                continue
            if cut_edges and cut_edges(b, lab, tb):
                continue
            if tb in ends:
                return True
            if tb not in seen:
                work.append(tb)
    return False


def blocks_calling(fn, rx):
    r = re.compile(rx)
    return [c.bb for c in fn.live_calls() if c.callee and r.search(c.callee)]


def successor_after_call(fn, bb):
    t = fn.blocks[bb]["t"]
    return t.get("t")


def guarded_since(fn, site_bb, kill_blocks, edge_ok_pred, pass_blocks=()):
    """True when every path that reaches `site_bb` from the function entry or from a kill block
    (a block that invalidates the guarded fact, e.g. decrements a counter) crosses, after that kill,
    an edge for which edge_ok_pred(bb, label, atoms) holds or enters one of pass_blocks (blocks that
    re-establish the fact, e.g. a refill)."""
    pass_blocks = set(pass_blocks)
    # the straight-line segment that ends in the site: `check; counter -= 1; *ptr` consumes the
    # checked element inside the segment, so changes of the counter within it do not count as kills
    preds = fn.preds()
    seg = [site_bb]
    cur = site_bb
    for _ in range(16):
        ps = [p for p, lab in preds.get(cur, []) if p in fn.live]
        if len(ps) != 1 or len(fn.succ[ps[0]]) != 1 or ps[0] in seg or ps[0] in pass_blocks:
            break
        cur = ps[0]
        seg.append(cur)
    site_bb = cur
    kill_blocks = set(kill_blocks) - set(seg)

    def cut(b, lab, tb):
        if tb in pass_blocks:
            return True
        if lab is None or lab[0] == "const":
            return False
        return edge_ok_pred(b, lab, fn.edge_atoms(b, lab))

    starts = set(kill_blocks) | {0}
    # a path "reaches the site" when it enters site_bb; starts are expanded through their successors
    seen = set()
    work = []
    for s in starts:
        if s not in fn.live:
            continue
        if s == site_bb and s == 0:
            return False
        for lab, tb in fn.succ[s]:
            if not cut(s, lab, tb):
                work.append(tb)
    while work:
        b = work.pop()
        if b in seen:
            continue
        seen.add(b)
        if b == site_bb:
            return False
        if b in starts:
            continue  # covered from that start on its own
        for lab, tb in fn.succ[b]:
            if not cut(b, lab, tb):
                work.append(tb)
    return True
