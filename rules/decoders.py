"""Shared rules over the inflate decoders (dispatch, len_and_friends, inflate_fast_help_impl, back,
inflate_fast_back): rejection sites located by their message constant, the atoms guarding them,
sibling fingerprints of the duplicated length/distance arms."""
import json
import re

from . import mir, atoms, sig
from .core import where
from .ctx import Z

DISPATCH = Z + "inflate::State::dispatch"
LEN_AND_FRIENDS = Z + "inflate::State::len_and_friends"
FAST = Z + "inflate::inflate_fast_help_impl"
BACK = Z + "inflate::infback::back"
FAST_BACK = Z + "inflate::infback::inflate_fast_back"
INFTREES = Z + "inflate::inftrees::inflate_table"

_STR = re.compile(r'"str":\s*"((?:[^"\\]|\\.)*)"')


def message_sites(fn):
    """message (without trailing NUL) -> list of live blocks mentioning that string constant"""
    out = {}
    for b in sorted(fn.live):
        blk = fn.blocks[b]
        txt = json.dumps(blk)
        for m in _STR.finditer(txt):
            s = json.loads('"' + m.group(1) + '"').rstrip("\0")
            if len(s) < 6 or " " not in s:
                continue
            out.setdefault(s, [])
            if b not in out[s]:
                out[s].append(b)
    return out


# ---- the rejection table ------------------------------------------------------------------------
# message -> list of named site requirements; each requirement: (instance name, [patterns])
# every pattern must be matched by some guarding atom (entry edges or dominating edges) of one
# site carrying the message.  impls: which decoder copies must contain that instance (live).
def P(**kw):
    return kw


REJECTIONS = [
    # --- RFC 1950 header --------------------------------------------------------------------
    ("incorrect header check", "zlib-fcheck", [DISPATCH], [
        P(rel="Eq", names={"wrap"}, ops={"BitAnd"}, consts={1, 0}),
        P(rel="Ne", ops={"Rem"}, consts={31, 0, 8}),
    ]),
    ("unknown compression method", "zlib-cm", [DISPATCH], [
        P(rel="Ne", consts={8, 4}, not_consts={255}),
    ]),
    ("unknown compression method", "gzip-cm", [DISPATCH], [
        P(rel="Ne", names={"gzip_flags"}, ops={"BitAnd"}, consts={255, 8}),
    ]),
    ("invalid window size", "cinfo", [DISPATCH], [
        P(rel="Le", lo_consts={16}, hi_consts={8, 4}),          # len = bits(4)+8 > 15
        P(rel="Lt", lo_names={"wbits"}, hi_consts={8, 4}),      # len > wbits
    ]),
    # --- RFC 1952 header --------------------------------------------------------------------
    ("unknown header flags set", "gzip-reserved", [DISPATCH], [
        P(rel="Ne", names={"gzip_flags"}, ops={"BitAnd"}, consts={0xe000, 0}),
    ]),
    ("header crc mismatch", "gzip-hcrc", [DISPATCH], [
        P(rel="Ne", names={"checksum"}, consts={0xffff}),
        P(rel="Ne", names={"wrap"}, consts={4, 0}),
        P(rel="Ne", names={"gzip_flags"}, consts={0x200, 0}),
    ]),
    # --- RFC 1951 block level ------------------------------------------------------------------
    ("invalid block type", "btype-3", [DISPATCH, BACK], [
        P(rel="in", values={3}),
    ]),
    ("invalid stored block lengths", "len-nlen", [DISPATCH, BACK], [
        P(rel="Ne", ops={"Not", "Shr"}, consts={16}),
    ]),
    ("too many length or distance symbols", "hlit-hdist", [DISPATCH, BACK], [
        P(rel="Le", lo_consts={287}, hi_names={"nlen"}),
        P(rel="Le", lo_consts={31}, hi_names={"ndist"}),
    ]),
    ("invalid code lengths set", "cl-table", [DISPATCH, BACK], [
        P(rel="isnot", calls={"inflate_table"}, names={"Codes", "lens"}, consts={19, 7}),
    ]),
    ("invalid bit length repeat", "rep16-first", [DISPATCH, BACK], [
        P(rel="Eq", names={"have"}, consts={0}),
        P(rel="in", values={16}),
    ]),
    ("invalid bit length repeat", "rep16-overflow", [DISPATCH, BACK], [
        P(rel="Lt", lo_names={"nlen", "ndist"}, hi_names={"have"}, hi_consts={3, 2}),
        P(rel="in", values={16}),
    ]),
    ("invalid bit length repeat", "rep17-overflow", [DISPATCH, BACK], [
        P(rel="Lt", lo_names={"nlen", "ndist"}, hi_names={"have"}, hi_consts={3}, not_consts={11, 7, 2}),
        P(rel="in", values={17}),
    ]),
    ("invalid bit length repeat", "rep18-overflow", [DISPATCH, BACK], [
        P(rel="Lt", lo_names={"nlen", "ndist"}, hi_names={"have"}, hi_consts={11, 7}),
    ]),
    ("invalid code -- missing end-of-block", "eob-present", [DISPATCH, BACK], [
        P(rel="Eq", names={"lens"}, consts={256, 0}),
    ]),
    ("invalid literal/lengths set", "ll-table", [DISPATCH, BACK], [
        P(rel="isnot", calls={"inflate_table"}, names={"Lens", "lens", "nlen"}, consts={10}),
    ]),
    ("invalid distances set", "dist-table", [DISPATCH, BACK], [
        P(rel="isnot", calls={"inflate_table"}, names={"Dists", "lens", "nlen", "ndist"}, consts={9}),
    ]),
    # --- symbol level (five copies) ----------------------------------------------------------------
    ("invalid literal/length code", "ll-invalid", [LEN_AND_FRIENDS, FAST, BACK, FAST_BACK], [
        P(rel="Ne", names={"op"}, ops={"BitAnd"}, consts={64, 0}),
        P(rel="Eq", names={"op"}, ops={"BitAnd"}, consts={32, 0}),
    ]),
    ("invalid distance code", "dist-invalid", [LEN_AND_FRIENDS, DISPATCH, FAST, BACK, FAST_BACK], [
        P(rel="Ne", names={"op"}, ops={"BitAnd"}, consts={64, 0}),
    ]),
    ("invalid distance too far back", "dist-window", [LEN_AND_FRIENDS, DISPATCH, FAST], [
        P(rel="Lt", lo_calls={"Window::have"}),
    ]),
    # inflateBack's fast loop: the rejection is reached through either of two tests (window never flushed, or distance larger
    # than the window), so no single guard dominates it; the two tests are what GUARD/back-fast-distance (C19) decides
    ("invalid distance too far back", "dist-window-fast-back", [FAST_BACK], []),
    ("invalid distance too far back", "dist-window-back", [BACK], [
        P(rel="Lt", lo_calls={"Window::buffer_size"}, hi_names={"offset"}),
    ]),
    # --- trailers -----------------------------------------------------------------------------------
    ("incorrect data check", "trailer-check", [DISPATCH], [
        P(rel="Ne", names={"checksum"}),
        P(rel="Ne", names={"wrap"}, consts={4, 0}),
    ]),
    ("incorrect length check", "trailer-isize", [DISPATCH], [
        P(rel="Ne", names={"total"}),
        P(rel="Ne", names={"wrap"}, consts={4, 0}),
        P(rel="Ne", names={"gzip_flags"}, consts={0}),
    ]),
]


BLOCK_COPY = r"copy_within$|ptr::copy$|intrinsics::copy$|copy_nonoverlapping$|copy_from_slice$|copy_from_nonoverlapping$|copy_to_nonoverlapping$|Writer::copy_chunked_within$|Writer::copy_chunk_unchecked$"


def overlap_safe(ck, prog, rule, fn_rx):
    """An LZ77 match may overlap the bytes it produces (distance < length replicates the pattern).  In the match-copy
    routines a block copy (memmove/memcpy semantics: it reads the source as it was before the call) is therefore only
    allowed on paths where length <= distance; the overlapping case has to go byte by byte (or by fill for distance 1)."""
    n = 0
    for fn in sorted(prog.fns.values(), key=lambda f: f.path):
        if not re.search(fn_rx, fn.path) or fn.is_promoted:
            continue
        n += 1
        ck.use_fn(fn)
        bad = []
        for c in fn.live_calls(BLOCK_COPY):
            ok = False
            for a in fn.dominating_atoms(c.bb):
                s_ = sig.sig(a, fn)
                # length <= offset_from_end   (the negation of `length > offset_from_end`)
                if s_.rel in ("Le", "Lt") and "length" in s_.lo_names and "offset_from_end" in s_.hi_names:
                    ok = True
            if not ok:
                bad.append(c)
        short = fn.path.replace(Z, "")
        ck.decide(not bad, rule, short, "block copies only under length <= distance",
                  "%s calls %s without a dominating `length <= offset_from_end` test: for an overlapping match (distance < length) a "
                  "block copy reads the bytes as they were before the call instead of replicating the pattern"
                  % (short, ", ".join(sorted({c.callee.split("::")[-1] for c in bad}))), where(fn, bad[0].line if bad else None))
    return n


def _region_literals(fn, region):
    """integer literals appearing anywhere in the statements and terminators of the region's blocks"""
    out = set()

    def scan(node):
        if isinstance(node, dict):
            if node.get("k") == "const" and isinstance(node.get("val"), int):
                out.add(node["val"])
            if node.get("k") == "const" and isinstance(node.get("indirect"), dict) and str(node.get("ty", "")).startswith("[u8; ") \
                    and len(node["indirect"].get("hex", "")) <= 32:
                out.update(bytes.fromhex(node["indirect"]["hex"]))   # a small named byte array counts as its bytes
            for v in node.values():
                scan(v)
        elif isinstance(node, list):
            for v in node:
                scan(v)
    for b in region:
        scan(fn.blocks[b]["s"])
        scan(fn.blocks[b]["t"])
    return out


# equivalent spellings of a guard (all patterns of one alternative must match)
ALT_PATTERNS = {
    # the number of code-length codes written as the length of the ORDER table instead of the literal 19
    "cl-table": [[P(rel="isnot", calls={"inflate_table"}, names={"Codes", "lens", "ORDER"}, consts={7})]],
    # the repeat-overflow test with `have` moved to the other side: `copy > nlen + ndist - have` (neutral patch F_F2_r1)
    "rep16-overflow": [[P(rel="Lt", lo_names={"nlen", "ndist", "have"}, hi_consts={3, 2}), P(rel="in", values={16})]],
    "rep17-overflow": [[P(rel="Lt", lo_names={"nlen", "ndist", "have"}, hi_consts={3}, not_consts={11, 7, 2}), P(rel="in", values={17})]],
    "rep18-overflow": [[P(rel="Lt", lo_names={"nlen", "ndist", "have"}, hi_consts={11, 7})]],
}

MERGED_ALTERNATIVES = {
    # (the symbol value 17 may be a literal of a comparison or a value of a `match`: only the repeat bases and widths are asked for)
    "rep17-overflow": ([P(rel="Lt", lo_names={"nlen", "ndist"}, hi_names={"have"})], {3, 7, 11}),
    "rep18-overflow": ([P(rel="Lt", lo_names={"nlen", "ndist"}, hi_names={"have"})], {3, 7, 11}),
}


def site_sigs(fn, bb):
    es, ds = sig.site_guards(fn, bb)
    return es + ds


def check_rejections(ck, prog, rule, only_impls=None, only_names=None):
    """every (message, instance) of REJECTIONS exists live, with its atoms, in every required copy"""
    cache = {}
    n = 0
    for msg, name, impls, pats in REJECTIONS:
        if only_names and name not in only_names:
            continue
        for impl in impls:
            if only_impls and impl not in only_impls:
                continue
            fn = prog.fn(impl)
            short = impl.replace(Z, "")
            inst = "%s@%s" % (name, short)
            if not ck.anchor("fn " + impl, fn):
                continue
            ck.use_fn(fn)
            if impl not in cache:
                cache[impl] = message_sites(fn)
            sites = cache[impl].get(msg, [])
            n += 1
            if not sites:
                ck.bad(rule, inst, "no live rejection with message %r in %s: this decoder copy does not perform "
                                   "the validation (after pruning constant-false conditions)" % (msg, short), where(fn))
                continue
            best_missing = None
            okk = False
            for b in sites:
                ss = site_sigs(fn, b)
                missing = [p for p in pats if not any(sig.sym_match(s, p) for s in ss)]
                if missing and name in MERGED_ALTERNATIVES:
                    # the same validation in its merged spelling (one arm for symbols 17 and 18 with the repeat base and
                    # width chosen per symbol): the overflow comparison guards the site and the arm still holds the constants
                    alt_pats, need_consts = MERGED_ALTERNATIVES[name]
                    if not [p for p in alt_pats if not any(sig.sym_match(s, p) for s in ss)]:
                        regs = mode_regions(fn, 20) or mode_regions(fn, 10) or {}
                        arm = [r for r in regs.values() if b in r]
                        consts = set(arm_fingerprint(fn, arm[0])["consts"]) | _region_literals(fn, arm[0]) if arm else set()
                        if need_consts <= set(consts):
                            missing = []
                if missing and name in ALT_PATTERNS:
                    for alt in ALT_PATTERNS[name]:
                        if not [p for p in alt if not any(sig.sym_match(s, p) for s in ss)]:
                            missing = []
                            break
                if not missing:
                    okk = True
                    ck.ok(rule, inst, "site bb%d guarded by %s" % (b, "; ".join(mir.atom_str(s.atom, fn)[:80] for s in ss[:3])),
                          where(fn, fn.blocks[b]["t"].get("line")))
                    ck.sample("%s: %r in %s guarded by %s" % (name, msg, short, "; ".join(mir.atom_str(s.atom, fn)[:70] for s in ss[:2])))
                    break
                if best_missing is None or len(missing) < len(best_missing[0]):
                    best_missing = (missing, b, ss)
            if not okk:
                missing, b, ss = best_missing
                ck.bad(rule, inst, "rejection %r exists in %s but none of its sites is guarded by the required condition(s) %s; "
                                   "nearest site has: %s" % (msg, short, missing, "; ".join(mir.atom_str(s.atom, fn)[:90] for s in ss[:4])),
                       where(fn, fn.blocks[b]["t"].get("line")))
    return n


# ---- header field extraction (Table arm): nlen = bits(5)+257 etc. -------------------------------
FIELD_DEFS = [
    ("nlen", {5, 257}), ("ndist", {5, 1}), ("ncode", {4}),
]


def check_table_fields(ck, prog, rule, impls=(DISPATCH, BACK)):
    for impl in impls:
        fn = prog.fn(impl)
        if not ck.anchor("fn " + impl, fn):
            continue
        short = impl.replace(Z, "")
        found = {}
        for bi, fp, root, rv, s in fn.field_writes():
            if fp and fp[-1] in ("nlen", "ndist", "ncode"):
                cs = {x[1] for x in mir.consts_in(rv) if isinstance(x[1], int)}
                found.setdefault(fp[-1], []).append(cs)
        for name, need in FIELD_DEFS:
            # ncode = bits(4) + 4: the set collapses to {4}
            ok = any(need <= cs for cs in found.get(name, []))
            ck.decide(ok, rule, "%s@%s" % (name, short), "%s extracted with constants %s" % (name, sorted(need)),
                      "%s is not computed with the RFC 1951 field width/offset %s in %s (found %s)" % (name, sorted(need), short, found.get(name)), where(fn))


# ---- sibling fingerprints --------------------------------------------------------------------------

def arm_fingerprint(fn, region):
    fields, consts, calls, msgs = set(), set(), set(), set()
    for bi, fpth, root, rv, s in fn.field_writes():
        if bi in region and root[0] == "p":
            fields.add(fpth[-1])
    for b, lab, tb, ats in atoms.edges(fn):
        if b in region:
            for a in ats:
                s = sig.sig(a, fn)
                consts |= {c for c in s.consts if isinstance(c, int)}
    for c in fn.live_calls():
        if c.bb in region and c.callee:
            calls.add(sig._short(c.callee))
    for m, bs in message_sites(fn).items():
        # the default message of an assertion is the stringified condition: source text (a `debug_assert!` that an extracted
        # helper states about its arguments), not one of the decoder's error strings
        if any(b in region for b in bs) and not (m.startswith("assertion failed:") or m.startswith("assertion `")):
            msgs.add(m)
    return {"fields": fields, "consts": consts, "calls": calls, "msgs": msgs}


def mode_regions(fn, min_targets):
    sws = fn.enum_switches("inflate::Mode", min_targets)
    if len(sws) != 1:
        return None
    return fn.arm_regions(sws[0])
