"""ABORT rule family: inventory of explicit abort constructs (panic!/assert!/unreachable!/todo!/
unwrap/expect/unreachable_unchecked) reachable from an entry set, keyed without line numbers."""
import json
import re
from . import mir
from .decoders import _STR

UNWRAP_RX = re.compile(r"^core::(option::Option|result::Result)::(unwrap|expect|unwrap_err|expect_err)$")
PANIC_RX = re.compile(r"^(core|std)::panicking::|^core::panicking::assert_failed|^std::rt::begin_panic|^core::option::(unwrap_failed|expect_failed)$|^core::result::unwrap_failed$")
IMPLICIT_RX = re.compile(r"panic_bounds_check|slice_(start|end)_index|slice_index_|panic_misaligned|panic_nounwind|const_panic|str_index|copy_from_slice::len_mismatch_fail|len_mismatch|panic_const_(add|sub|mul|div|rem|neg|shl|shr)_overflow|panic_const_div_by_zero|panic_const_rem_by_zero|panic_invalid_enum")
MACROS = ("panic!", "assert!", "assert_eq!", "assert_ne!", "unreachable!", "todo!", "unimplemented!",
          "debug_assert!", "debug_assert_eq!", "debug_assert_ne!")


def _block_strings(fn, b, back=4):
    """string constants in block b and its straight-line predecessors"""
    preds = fn.preds()
    seen = []
    cur = b
    out = []
    for _ in range(back):
        txt = json.dumps(fn.blocks[cur])
        for m in _STR.finditer(txt):
            s = json.loads('"' + m.group(1) + '"').rstrip("\0")
            if s and s not in out:
                out.append(s)
        ps = [p for p, lab in preds.get(cur, []) if p in fn.live]
        if len(ps) != 1 or len(fn.succ[ps[0]]) != 1:
            break
        cur = ps[0]
    # promoted format pieces
    return out


def constructs(fn):
    """list of dicts(kind, macro, msg, bb, line, debug_only, key_base) for explicit abort constructs in live code"""
    out = []
    for c in fn.calls:
        if c.bb not in fn.live:
            continue
        callee = c.callee or ""
        exp = c.exp or []
        macro = None
        for e in exp:
            if e in MACROS:
                macro = e
                break
        debug = any(e.startswith("debug_assert") for e in exp)
        if UNWRAP_RX.match(callee):
            if exp and any(e in ("#[derive(Debug)]",) for e in exp):
                continue
            kind = callee.split("::")[-1]
            args = fn.call_args(c)
            recv = mir.fmt(args[0], fn)[:80] if args else ""
            msg = None
            if kind.startswith("expect") and len(args) > 1:
                ss = [x[1] for x in mir.consts_in(args[1]) if isinstance(x[1], str)]
                msg = ss[0] if ss else None
            out.append(dict(kind=kind, macro=macro, msg=msg, bb=c.bb, line=c.line, debug_only=debug, recv=_recv_callee(args)))
        elif callee.endswith("hint::unreachable_unchecked"):
            out.append(dict(kind="unreachable_unchecked", macro=macro, msg=None, bb=c.bb, line=c.line, debug_only=False, recv=""))
        elif PANIC_RX.match(callee) and c.target is None:
            if IMPLICIT_RX.search(callee):
                continue
            if not macro:
                # a panic call not from a recognised macro: e.g. explicit core::panicking use
                macro = "panic-call"
            strs = _block_strings(fn, c.bb)
            msg = strs[0] if strs else None
            # the default message of assert!(cond) is the stringified condition: source text, not semantics
            if msg and (msg.startswith("assertion failed:") or msg.startswith("assertion `")):
                msg = None
            if msg and msg.startswith("internal error: entered unreachable code"):
                msg = msg[len("internal error: entered unreachable code"):].lstrip(": ") or None
            out.append(dict(kind=macro.rstrip("!"), macro=macro, msg=msg, bb=c.bb, line=c.line, debug_only=debug, recv=""))
    return out


def _recv_callee(args):
    if not args:
        return ""
    e = mir.strip_casts(args[0])
    if e[0] == "call" and isinstance(e[1], str):
        return e[1].split("::")[-1]
    r, fp = mir.field_path(e)
    if fp:
        return fp[-1]
    return ""


def key_of(fn, c, ordinal):
    if c["msg"]:
        return "%s|%s|%s" % (c["kind"], fn.path.split("::", 1)[1], c["msg"][:60])
    return "%s|%s|%s#%d" % (c["kind"], fn.path.split("::", 1)[1], c["recv"], ordinal)


def _inherited(prog, k, fn, c, justified, inv):
    """justification carried over to a construct whose exact key changed although nothing was added:
    (a) the construct moved into a former caller together with the body of a function that no longer exists;
    (b) within one function, as many constructs of this kind are found as are justified for it (a re-spelled receiver)."""
    from . import inline
    kind = c["kind"]
    short = fn.path.split("::", 1)[1]
    tail = k.split("|", 2)[2]
    for j in justified:
        parts = j.split("|", 2)
        if len(parts) != 3 or parts[0] != kind:
            continue
        jfn = fn.path.split("::", 1)[0] + "::" + parts[1]
        if jfn not in prog.fns and inline.is_known(jfn) and fn.path in inline.frozen_callers(jfn):
            if parts[2] == tail or (not c["msg"] and parts[2].split("#")[0] == tail.split("#")[0]) or c["msg"] and parts[2] == c["msg"][:60]:
                return j
    found = [x for x in inv if x.startswith("%s|%s|" % (kind, short)) and not inv[x][1]["debug_only"]]
    just = [x for x in justified if x.startswith("%s|%s|" % (kind, short))]
    extra_found = [x for x in found if x not in justified]
    free_just = [x for x in just if x not in inv]
    if k in extra_found and len(extra_found) <= len(free_just):
        return free_just[extra_found.index(k)]
    return None


def inventory(prog, roots):
    """{key: (fn, construct)} over functions reachable from roots"""
    reach = prog.reachable_from(roots)
    inv = {}
    for p in sorted(reach):
        fn = prog.fns.get(p)
        if fn is None:
            continue
        cs = constructs(fn)
        counts = {}
        for c in cs:
            base = (c["kind"], c["recv"], c["msg"])
            counts[base] = counts.get(base, 0) + 1
            k = key_of(fn, c, counts[base])
            inv[k] = (fn, c)
    return inv, reach


# ----------------------------------------------------------------------------------------------
INT_TYPES = {"i8", "i16", "i32", "i64", "isize", "u8", "u16", "u32", "u64", "usize", "core::ffi::c_int", "core::ffi::c_uint"}


def _int_param_leaves(fn, e):
    out = set()
    for x in mir.walk(e):
        if x[0] in ("p", "v") and 1 <= x[1] <= fn.arg_count:
            ty = fn.locals[x[1]]["ty"]
            if ty in INT_TYPES:
                out.add(fn.local_name(x[1]) or "arg%d" % x[1])
    return out


def check(ck, prog, roots, rule, justified, api_fns=None, label=""):
    """every explicit (non debug-only) abort construct reachable from roots is in `justified`;
    debug-only constructs are inventoried, and gated only when their condition tests an integer
    parameter of a public API function (an API integer reaching a debug assertion unfiltered)."""
    from . import sig as _sig
    from .core import where
    inv, reach = inventory(prog, roots)
    n_exp = n_dbg = 0
    for k in sorted(inv):
        fn, c = inv[k]
        if c["debug_only"]:
            n_dbg += 1
            if api_fns is not None and fn.path in api_fns:
                leaves = set()
                for b in fn.debug_branches:
                    # the condition blocks of this assertion: one edge leads straight to the panic
                    for lab, tb in fn.succ[b]:
                        cur = tb
                        hit = False
                        for _ in range(8):
                            if cur == c["bb"]:
                                hit = True
                                break
                            su = fn.succ[cur]
                            if len(su) != 1 or fn.blocks[cur]["t"]["k"] == "switch":
                                break
                            cur = su[0][1]
                        if hit:
                            for a in fn.edge_atoms(b, lab, include_debug=True):
                                for part in a[1:]:
                                    if isinstance(part, tuple):
                                        leaves |= _int_param_leaves(fn, part)
                if leaves:
                    ck.bad(rule + "/debug-api-int", k.replace("debug_assert|", "", 1) if False else k,
                           "debug assertion in public API function %s tests the integer parameter(s) %s directly: a caller-supplied "
                           "value aborts the process in builds with debug assertions" % (fn.path, sorted(leaves)), where(fn, c["line"]))
                    continue
            ck.ok(rule + "/debug-only", k, "debug-only assertion on internal values (not gated)")
            continue
        n_exp += 1
        if k in justified:
            ck.ok(rule, k, justified[k], where(fn, c["line"]))
        elif _inherited(prog, k, fn, c, justified, inv):
            ck.ok(rule, k, "same construct as a justified one (moved with an inlined function, or its receiver re-spelled): "
                           + _inherited(prog, k, fn, c, justified, inv), where(fn, c["line"]))
        else:
            ck.bad(rule, k, "explicit abort construct (%s%s) reachable from %s entry points is not in the justified table: "
                            "either a new abort path or an error return rewritten into a panic"
                   % (c["macro"] or c["kind"], (": " + c["msg"]) if c["msg"] else "", label), where(fn, c["line"]))
    ck.rule_counts[rule] = {"matched": n_exp, "floor": 0, "debug_only": n_dbg, "functions_reachable": len(reach)}
    for p in reach:
        if p in prog.fns:
            ck.fns_analysed.add(p)
    return inv, reach
