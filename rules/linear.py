"""SIB/same-terms-same-threshold: two ordering decisions of one function that compare the same linear combination of the same
state fields and working locals decide at the same threshold.

Every ordering comparison `a REL b` of the function's live branches is brought into the linear normal form
`sum(coef * leaf) + const  REL  0` (Add/Sub trees are opened, casts dropped; a leaf is a state field by its last name, a named
local, or an opaque sub-expression by its printed form).  A decision and its negation are the same decision (the two edges of
one branch), so `>`/`<=` form one class and `>=`/`<` the other once the sign is normalised.  Decisions with the same
leaf coefficients (up to a common sign) and at least three leaves are one group; all members of a group must be in the same class and have
the same constant.  A copy of a bounds test that was re-derived with `>=` for `>` (an off-by-one in one arm of several) is what
this reports; re-arranging the terms of a test (`have + copy > n` as `copy > n - have`) leaves the normal form unchanged."""
from . import mir
from .core import where

ADD = {"Add", "AddWithOverflow", "AddUnchecked"}
SUB = {"Sub", "SubWithOverflow", "SubUnchecked"}


def _leaf(f, e):
    if e[0] == "f":
        r, fp = mir.field_path(e)
        if fp:
            return "." + str(fp[-1])
    if e[0] in ("v", "p"):
        return f.local_name(e[1]) or "_%d" % e[1]
    if e[0] == "call" and isinstance(e[1], str):
        # accessor calls on self/state: by name and leaf arguments
        args = ",".join(sorted(_leaf(f, mir.strip_casts(a)) for a in e[2]))
        return "%s(%s)" % (e[1].split("::")[-1], args)
    if e[0] in ("*", "&"):
        return _leaf(f, e[1])
    return mir.fmt(e, f)[:60]


def linear(f, e, sign=1, acc=None, depth=0):
    if acc is None:
        acc = {}
    e = mir.strip_casts(e)
    if e[0] == "f" and isinstance(e[1], tuple) and e[1] and e[1][0] == "bin" and str(e[1][1]).endswith("WithOverflow"):
        e = e[1]
    if e[0] == "bin" and e[1] in ADD:
        linear(f, e[2], sign, acc, depth)
        linear(f, e[3], sign, acc, depth)
    elif e[0] == "bin" and e[1] in SUB:
        linear(f, e[2], sign, acc, depth)
        linear(f, e[3], -sign, acc, depth)
    elif e[0] == "c" and isinstance(e[1], int):
        acc["#"] = acc.get("#", 0) + sign * e[1]
    else:
        # a named local that is nothing but a sum/difference of fields and locals (`remaining = nlen + ndist - have`) is opened;
        # one that holds a decoded or computed value (`copy = 3 + bits(2)`) stays a term of its own
        if e[0] == "v" and depth < 4:
            ds = f.defs.get(e[1], [])
            if len(ds) == 1 and ds[0][1] != "call" and ds[0][2] is not None:
                d = mir.strip_casts(f.rvalue_expr(ds[0][2]))
                if d[0] == "f" and isinstance(d[1], tuple) and d[1] and d[1][0] == "bin" and str(d[1][1]).endswith("WithOverflow"):
                    d = d[1]
                if d[0] == "bin" and (d[1] in ADD or d[1] in SUB) and not mir.calls_in(d) and \
                        not any(x[0] == "c" for x in mir.walk(d)):
                    return linear(f, d, sign, acc, depth + 1)
        k = _leaf(f, e)
        acc[k] = acc.get(k, 0) + sign
    return acc


def decisions(f):
    """[(key, cls, const, bb)] for the ordering atoms of f's live switch edges"""
    out = []
    seen = set()
    # everything cached on the function (liveness prunes dead edges through evaluated constants) is computed before named
    # locals are made symbolic
    _ = (f.live, f.succ, f.debug_branches, f.calls, f.defs)
    f._stop_named = True
    try:
        return _decisions(f, out, seen)
    finally:
        f._stop_named = False


def _decisions(f, out, seen):
    for b in sorted(f.live):
        t = f.blocks[b]["t"]
        if t["k"] != "switch" or b in f.debug_branches:
            continue
        for lab, tb in f.succ[b]:
            if lab is None or lab[0] == "const":
                continue
            for a in f.edge_atoms(b, lab, expand=False):
                if a[0] != "cmp" or a[1] not in ("Lt", "Le", "Gt", "Ge"):
                    continue
                L = linear(f, a[2])
                linear(f, a[3], -1, L)
                c = L.pop("#", 0)
                L = {k: v for k, v in L.items() if v}
                if len(L) < 3:
                    continue
                rel = a[1]
                first = sorted(L)[0]
                if L[first] < 0:
                    L = {k: -v for k, v in L.items()}
                    c = -c
                    rel = {"Lt": "Gt", "Le": "Ge", "Gt": "Lt", "Ge": "Le"}[rel]
                cls = "strict" if rel in ("Gt", "Le") else "weak"   # X > 0  ==  not (X <= 0)
                key = tuple(sorted(L.items()))
                if (key, cls, c, b) in seen:
                    continue
                seen.add((key, cls, c, b))
                out.append((key, cls, c, b))
    return out


def same_threshold(ck, P, fns, R="SIB/same-terms-same-threshold"):
    """groups are formed over all the given functions: the decoder's copies of one test (dispatch, back, the fast loops) are
    siblings of one reference test"""
    n = 0
    groups = {}
    for f in fns:
        if f is None:
            continue
        ck.use_fn(f)
        for key, cls, c, b in decisions(f):
            groups.setdefault(key, []).append((cls, c, f, b))
    for key, lst in sorted(groups.items()):
        sites = {(f.path, b) for _, _, f, b in lst}
        if len(sites) < 2:
            continue
        n += 1
        kinds = {(cls, c) for cls, c, _, _ in lst}
        names = sorted({f.path.split("::")[-1] for _, _, f, _ in lst})
        inst = "%s:%s" % ("~".join(names), "".join(("+" if v > 0 else "-") + k for k, v in key))
        # report at the minority site
        cnt = {}
        for cls, c, f, b in lst:
            cnt[(cls, c)] = cnt.get((cls, c), 0) + 1
        odd = min(lst, key=lambda x: (cnt[(x[0], x[1])], x[2].path, x[3]))
        line = odd[2].blocks[odd[3]]["t"].get("line")
        ck.decide(len(kinds) == 1, R, inst, "%d decisions over these terms, one threshold" % len(sites),
                  "%s compare the same combination of %s at different thresholds (%s): one copy of a bounds test was re-derived "
                  "off by one" % (", ".join(names), ", ".join(k for k, _ in key), sorted(kinds)), where(odd[2], line))
    return n


def second_level_bits(ck, P, fns, R="PAIR/second-level-bits"):
    """two-level Huffman lookup: a copy `last` of the first-level entry is kept while the second-level entry is fetched, and
    the fetch loop ends only when the bit buffer holds the bits of both (`last.bits + here.bits <= bits`).  Every such saved
    entry (a named local of the table-entry type that is defined as a copy of another one) takes part, with its `bits` field,
    in an ordering decision that also reads the `bits` of a second entry."""
    n = 0
    for f in fns:
        if f is None:
            continue
        _ = (f.live, f.succ, f.debug_branches, f.calls, f.defs)
        cands = []
        for idx, l in enumerate(f.locals):
            if not l.get("name") or not str(l.get("ty", "")).endswith("::Code") or idx <= f.arg_count:
                continue
            ds = [d for d in f.defs.get(idx, []) if d[0] in f.live]
            if len(ds) != 1 or ds[0][1] == "call" or ds[0][2] is None or ds[0][2].get("k") != "use":
                continue
            src = ds[0][2]["a"]
            if src.get("k") == "const" or src.get("p"):
                continue
            if not str(f.locals[src["l"]].get("ty", "")).endswith("::Code") or not f.locals[src["l"]].get("name"):
                continue
            cands.append(idx)
        if not cands:
            continue
        ck.use_fn(f)
        f._stop_named = True
        try:
            # the saved entry is the base of a second-level index: `last.val + (..)`
            based = set()
            for bi, si, lhs, rv, st in f.assignments():
                if rv.get("k") != "bin" or rv.get("op") not in ADD:
                    continue
                for side in ("a", "b"):
                    e = mir.strip_casts(f.operand_expr(rv[side]))
                    if e[0] == "f" and e[2] == "val" and e[1][0] in ("v", "p"):
                        based.add(e[1][1])
            cands = [c for c in cands if c in based]
            found = set()
            for b in sorted(f.live):
                t = f.blocks[b]["t"]
                if t["k"] != "switch" or b in f.debug_branches:
                    continue
                d = f.operand_expr(t["discr"])
                owners = set()
                for x in mir.walk(d):
                    if x[0] == "f" and x[2] == "bits" and x[1][0] in ("v", "p"):
                        owners.add(x[1][1])
                if len(owners) >= 2:
                    found |= owners
        finally:
            f._stop_named = False
        for i, idx in enumerate(cands):
            n += 1
            ck.decide(idx in found, R, "%s:%s#%d" % (f.path.split("::")[-1], f.local_name(idx), i),
                      "the saved first-level entry's bits are part of the loop's exit test",
                      "%s keeps a first-level table entry in `%s` but no decision adds its bit count to that of the second-level entry: "
                      "the second-level fetch loop stops before the bit buffer holds the whole code, and the bits dropped afterwards "
                      "exceed the bits held" % (f.path, f.local_name(idx)), where(f, f.locals[idx].get("line")))
    return n
