"""NULL rule: in an extern "C" function a raw-pointer parameter may flow only into null-safe sinks
unless the use is dominated by a null test of that parameter."""
import re
from . import mir

SAFE_SINK_RX = re.compile(
    r"(::is_null$|::as_ref$|::as_mut$|::as_uninit_mut$|::as_uninit_ref$|from_stream_mut$|from_stream_ref$|"
    r"::cast$|::cast_mut$|::cast_const$|::addr$|::wrapping_add$|::wrapping_sub$|::is_aligned$|"
    r"core::ptr::eq$|core::ptr::null|::map$|core::mem::size_of|core::cmp::PartialEq::(eq|ne)$|PartialEq<.*>>::(eq|ne)$)")
PROPAGATE_RX = re.compile(r"(::cast$|::cast_mut$|::cast_const$|::wrapping_add$|::wrapping_sub$)")


def is_raw_ptr(ty):
    return ty.startswith("*mut ") or ty.startswith("*const ")


def tainted_locals(fn, param):
    """locals that hold (a cast/copy of) the parameter pointer"""
    t = {param}
    changed = True
    while changed:
        changed = False
        for bi, si, lhs, rv, s in fn.assignments(live_only=True):
            if "p" in lhs or lhs["l"] in t:
                continue
            k = rv["k"]
            src = None
            if k in ("use", "cast"):
                a = rv["a"]
                if a.get("k") in ("copy", "move") and "p" not in a and a["l"] in t:
                    src = a["l"]
            if src is not None:
                t.add(lhs["l"])
                changed = True
        for c in fn.calls:
            if c.bb not in fn.live or not c.callee or not PROPAGATE_RX.search(c.callee):
                continue
            args = c.raw["args"]
            if args and args[0].get("k") in ("copy", "move") and "p" not in args[0] and args[0]["l"] in t:
                d = c.dest
                if d and "p" not in d and d["l"] not in t:
                    t.add(d["l"])
                    changed = True
    return t


def null_tested(fn, bb, param_expr_names, tainted):
    """is block bb dominated by an edge that establishes the pointer is non-null"""
    for a in fn.dominating_atoms(bb):
        if a[0] == "truth" and a[2] is False and a[1][0] == "call" and isinstance(a[1][1], str) and a[1][1].endswith("::is_null"):
            if _mentions_local(a[1], tainted):
                return True
        if a[0] == "is" and a[3] and "Some" in a[2] and _mentions_local(a[1], tainted):
            return True
        if a[0] == "is" and not a[3] and "None" in a[2] and _mentions_local(a[1], tainted):
            return True
        if a[0] == "cmp" and a[1] == "Ne" and (_is_null_const(a[2]) or _is_null_const(a[3])) and (_mentions_local(a[2], tainted) or _mentions_local(a[3], tainted)):
            return True
    return False


def _is_null_const(e):
    e = mir.strip_casts(e)
    return (e[0] == "call" and isinstance(e[1], str) and "ptr::null" in e[1]) or (e[0] == "c" and e[1] == 0)


def _mentions_local(e, locs):
    for x in mir.walk(e):
        if x[0] in ("p", "v") and x[1] in locs:
            return True
    return False


def param_uses(fn, param, prog, depth=0):
    """list of (kind, detail, bb, line) of unsafe uses of the raw pointer parameter"""
    t = tainted_locals(fn, param)
    bad = []

    def deref_in_place(pl):
        return pl.get("l") in t and pl.get("p") and pl["p"][0] == "*"

    def scan_operand(op, bb, line):
        if isinstance(op, dict) and op.get("k") in ("copy", "move") and deref_in_place(op):
            if not null_tested(fn, bb, None, t):
                bad.append(("deref", "read through the pointer", bb, line))

    for bi in sorted(fn.live):
        b = fn.blocks[bi]
        for s in b["s"]:
            if s["k"] != "assign":
                continue
            if deref_in_place(s["lhs"]) and not null_tested(fn, bi, None, t):
                bad.append(("deref", "write through the pointer", bi, s.get("line")))
            rv = s["rv"]
            for key in ("a", "b"):
                if key in rv:
                    scan_operand(rv[key], bi, s.get("line"))
            if "place" in rv and deref_in_place(rv["place"]) and not null_tested(fn, bi, None, t):
                bad.append(("deref", "reference/projection through the pointer", bi, s.get("line")))
            for o in rv.get("ops", []):
                scan_operand(o, bi, s.get("line"))
        tm = b["t"]
        if tm["k"] == "call":
            callee = None
            f = tm["func"]
            if f.get("k") == "const" and "fn" in f:
                callee = mir.strip_generics(f.get("resolved") or f["fn"])
            for i, a in enumerate(tm["args"]):
                scan_operand(a, bi, tm.get("line"))
                if a.get("k") in ("copy", "move") and "p" not in a and a["l"] in t:
                    if null_tested(fn, bi, None, t):
                        continue
                    if callee is None:
                        bad.append(("indirect-call", "passed to an indirect call", bi, tm.get("line")))
                        continue
                    if SAFE_SINK_RX.search(callee):
                        continue
                    cf = prog.fns.get(callee)
                    if cf is not None and depth < 3:
                        # workspace callee: null-safe for that parameter if its own body is
                        if i + 1 <= cf.arg_count and not param_uses(cf, i + 1, prog, depth + 1):
                            continue
                        bad.append(("callee", "passed to %s, which uses it without a null test" % callee, bi, tm.get("line")))
                        continue
                    bad.append(("sink", "passed to %s (not a null-safe sink)" % callee, bi, tm.get("line")))
        elif tm["k"] == "switch":
            scan_operand(tm["discr"], bi, tm.get("line"))
    return bad
