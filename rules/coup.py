"""COUP rule: cursor/counter triples are adjusted together by the same amount."""
from . import mir

GROUPS = {
    "out": ("next_out", "avail_out", "total_out"),
    "in": ("next_in", "avail_in", "total_in"),
}
SIGN = {"next_out": +1, "total_out": +1, "avail_out": -1, "next_in": +1, "total_in": +1, "avail_in": -1}


def strip_all_casts(e):
    if not isinstance(e, tuple) or not e:
        return e
    if e[0] == "cast":
        return strip_all_casts(e[1])
    if e[0] == "call" and isinstance(e[1], str) and mir.is_conversion(e[1]) and len(e[2]) == 1:
        return strip_all_casts(e[2][0])
    if e[0] == "call":
        return ("call", e[1], tuple(strip_all_casts(a) for a in e[2]))
    if e[0] in ("bin",):
        return ("bin", e[1], strip_all_casts(e[2]), strip_all_casts(e[3]))
    if e[0] in ("f", "*", "&", "un", "dc"):
        return tuple([e[0]] + [strip_all_casts(x) if isinstance(x, tuple) else x for x in e[1:]])
    return e


def adjustment(field, rv):
    """(sign, delta) if rv is `<same field> +/- delta` in any of the spellings, else None"""
    e = mir.strip_casts(rv)
    def is_same(x):
        x = mir.strip_casts(x)
        r, fp = mir.field_path(x)
        return fp[-1:] == (field,)
    if e[0] == "bin" and e[1] in ("Add", "Sub", "AddWithOverflow", "SubWithOverflow") and is_same(e[2]):
        return (+1 if e[1].startswith("Add") else -1, strip_all_casts(e[3]))
    if e[0] == "call" and isinstance(e[1], str) and len(e[2]) == 2 and is_same(e[2][0]):
        last = e[1].split("::")[-1]
        if last in ("wrapping_add", "add", "saturating_add", "checked_add"):
            return (+1, strip_all_casts(e[2][1]))
        if last in ("wrapping_sub", "sub", "saturating_sub", "checked_sub"):
            return (-1, strip_all_casts(e[2][1]))
    return None


def adjustments(fn):
    """{field: [(sign, delta, bb, line)]} for the six cursor fields"""
    out = {}
    for bi, fp, root, rv, s in fn.field_writes():
        f = fp[-1]
        if f in SIGN and len(fp) <= 2:
            adj = adjustment(f, rv)
            if adj:
                out.setdefault(f, []).append((adj[0], adj[1], bi, s.get("line") if isinstance(s, dict) else None))
    return out
