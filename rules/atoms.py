"""Helpers over canonical branch atoms: enumerate the conditional edges of a function, find
validation idioms (`if cond { return Err }`), match atoms against small patterns."""
from . import mir


def leaf_name(e, fn):
    """name of the variable / last field an expression denotes (through casts, derefs, refs)"""
    e = mir.strip_casts(e)
    while e[0] in ("&", "*"):
        e = mir.strip_casts(e[1])
    if e[0] in ("v", "p"):
        return fn.local_name(e[1])
    if e[0] == "f":
        return e[2]
    return None


def names_in(e, fn):
    """all variable and field names mentioned in an expression"""
    out = set()
    for x in mir.walk(e):
        if x[0] in ("v", "p"):
            n = fn.local_name(x[1])
            if n:
                out.add(n)
        elif x[0] == "f":
            out.add(x[2])
    return out


def cval(e, fn=None):
    """integer value of a constant expression (folding simple arithmetic), else None"""
    e = mir.strip_casts(e)
    if e[0] == "c" and isinstance(e[1], int):
        return e[1]
    if e[0] == "un" and e[1] == "Neg":
        v = cval(e[2])
        return -v if v is not None else None
    if e[0] == "un" and e[1] == "Not":
        v = cval(e[2])
        return ~v if v is not None else None
    if e[0] == "bin":
        a, b = cval(e[2]), cval(e[3])
        if a is None or b is None:
            return None
        op = e[1]
        try:
            return {"Add": a + b, "Sub": a - b, "Mul": a * b, "Shl": a << b, "Shr": a >> b, "BitAnd": a & b,
                    "BitOr": a | b, "BitXor": a ^ b}.get(op)
        except Exception:
            return None
    return None


def edges(fn):
    """(bb, label, target, atoms) for every live conditional edge"""
    for b in sorted(fn.live):
        for lab, tb in fn.succ[b]:
            if lab is None or lab[0] == "const":
                continue
            yield b, lab, tb, fn.edge_atoms(b, lab)


def all_atoms(fn):
    out = []
    for b, lab, tb, ats in edges(fn):
        for a in ats:
            out.append((a, b, tb))
    return out


def straight_line(fn, start, limit=12):
    """blocks on the unconditional chain starting at `start` (stops at a conditional branch or a
    call to a local non-trivial function)"""
    out = []
    b = start
    for _ in range(limit):
        out.append(b)
        su = fn.succ[b]
        if len(su) != 1:
            break
        if su[0][0] is not None and su[0][0][0] != "const":
            break
        b = su[0][1]
        if b in out:
            break
    return out


def ret_value_along(fn, blocks):
    """enum constant assigned to the return place along a block chain (last one wins)"""
    val = None
    for b in blocks:
        for s in fn.blocks[b]["s"]:
            if s["k"] == "assign" and s["lhs"]["l"] == 0 and "p" not in s["lhs"]:
                e = fn.rvalue_expr(s["rv"])
                v = fn.enum_const(e)
                if v is not None:
                    val = v[1]
                else:
                    c = cval(e)
                    val = c if c is not None else mir.fmt(e, fn)
    return val


def rejections(fn):
    """list of (atom, returned, bb, line): conditional edges that lead straight to a return of a constant"""
    out = []
    for b, lab, tb, ats in edges(fn):
        chain = straight_line(fn, tb)
        last = chain[-1]
        if fn.blocks[last]["t"]["k"] != "return":
            continue
        rv = ret_value_along(fn, chain)
        if rv is None:
            continue
        for a in ats:
            out.append((a, rv, b, fn.blocks[b]["t"].get("line")))
    return out


def error_edges(fn, variants=("StreamError", "DataError", "BufError", "MemError", "VersionError")):
    """atoms guarding a straight return of an error code"""
    return [(a, rv, b, ln) for a, rv, b, ln in rejections(fn) if rv in variants]


# ---- small atom predicates ---------------------------------------------------------------------

def is_cmp(a, op=None):
    return a[0] == "cmp" and (op is None or a[1] == op)


def cmp_sides(a, fn):
    """(op, left name/val, right name/val) with constants folded"""
    l, r = a[2], a[3]
    lv, rv = cval(l), cval(r)
    return (a[1], lv if lv is not None else leaf_name(l, fn), rv if rv is not None else leaf_name(r, fn))


def bounds_of(fn, name, atoms=None):
    """collect interval facts about variable/field `name` from atoms: list of (kind, value, truth)
    kind in lt/le/gt/ge/eq/ne/range"""
    out = []
    for a, b, tb in (atoms if atoms is not None else all_atoms(fn)):
        if a[0] == "cmp":
            op, l, r = cmp_sides(a, fn)
            if l == name and isinstance(r, int):
                out.append((op, r, b))
            elif r == name and isinstance(l, int):
                flip = {"Lt": "Gt", "Le": "Ge", "Eq": "Eq", "Ne": "Ne"}[op]
                out.append((flip, l, b))
        elif a[0] == "range":
            if leaf_name(a[1], fn) == name:
                lo, hi = cval(a[2]), cval(a[3])
                out.append(("range" if a[5] else "notrange", (lo, hi, a[4]), b))
    return out
