"""Fact extraction front end: runs the zfacts rustc driver over /repo's current working tree
(one `cargo +nightly check` per build configuration) and loads the resulting JSON.

Nothing of the library is executed; the driver dumps the type-checked program (MIR at
mir-opt-level 0, ADTs, const-evaluated items).  Facts are cached under /verif/.cache/<tree-hash>/.
"""
import fcntl
import hashlib
import json
import os
import shutil
import subprocess
import sys
import time

VERIF = os.path.dirname(os.path.dirname(os.path.abspath(__file__)))
REPO = os.environ.get("VERIF_REPO", "/repo")
CACHE = os.path.join(VERIF, ".cache", "scratch" if os.environ.get("VERIF_REPO") else "main")
DRIVER = os.path.join(VERIF, "driver", "target", "debug", "zfacts")

AVX512_TF = "+avx512f,+avx512bw,+avx512vl,+avx512vnni,+vpclmulqdq,+avx2,+bmi2,+bmi1,+pclmulqdq,+sse4.2,+avx512dq,+avx512cd"

CONFIGS = {
    # key: (cargo args, extra rustflags, crates expected)
    "K1": (["-p", "libz-rs-sys", "--features", "gz"], "", ["zlib_rs", "libz_rs_sys"]),
    "K2": (["-p", "libz-rs-sys", "--no-default-features", "--features", "std,c-allocator,gz"], "",
           ["zlib_rs", "libz_rs_sys"]),
    "K3": (["-p", "zlib-rs", "--features", "__internal-api,avx512,vpclmulqdq"], "", ["zlib_rs"]),
    "K3b": (["-p", "zlib-rs", "--features", "__internal-api,avx512,vpclmulqdq"],
            "-Ctarget-feature=" + AVX512_TF, ["zlib_rs"]),
    # experimental printf entry points (need the nightly-only c_variadic feature; the driver runs on nightly)
    "K5": (["-p", "libz-rs-sys", "--features", "gz,gzprintf"], "", ["zlib_rs", "libz_rs_sys"]),
    "K4": (["-p", "libz-rs-sys", "--no-default-features", "--features", "c-allocator"], "",
           ["zlib_rs", "libz_rs_sys"]),
}


def _sysroot():
    return subprocess.check_output(["rustc", "+nightly", "--print", "sysroot"], text=True).strip()


def tree_hash(repo=None):
    """sha256 over (path, content) of every file git considers part of the working tree
    (tracked + untracked-not-ignored), i.e. exactly what a build can see, minus target/."""
    repo = repo or REPO
    try:
        out = subprocess.check_output(
            ["git", "-C", repo, "ls-files", "-co", "--exclude-standard", "-z"], stderr=subprocess.DEVNULL)
        names = [n for n in out.decode("utf-8", "replace").split("\0") if n]
    except Exception:
        names = []
        for root, dirs, files in os.walk(repo):
            dirs[:] = [d for d in dirs if d not in (".git", "target")]
            for f in files:
                names.append(os.path.relpath(os.path.join(root, f), repo))
    h = hashlib.sha256()
    for n in sorted(set(names)):
        if n.startswith("target/") or n.endswith((".tar", ".tar.gz", ".json")) and "/" not in n:
            continue
        p = os.path.join(repo, n)
        if not os.path.isfile(p):
            continue
        # only sources/manifest influence the facts
        if not n.endswith((".rs", ".toml", ".lock")):
            continue
        h.update(n.encode())
        h.update(b"\0")
        with open(p, "rb") as fh:
            h.update(hashlib.sha256(fh.read()).digest())
    # the driver itself is part of the key
    try:
        st = os.stat(DRIVER)
        h.update(("%d:%d" % (st.st_size, int(st.st_mtime))).encode())
    except OSError:
        pass
    return h.hexdigest()[:24]


def _prune_cache(keep):
    try:
        ents = [os.path.join(CACHE, e) for e in os.listdir(CACHE)]
    except FileNotFoundError:
        return
    locks = [e for e in ents if e.endswith(".lock")]
    ents = [e for e in ents if os.path.isdir(e) and os.path.basename(e) != keep]
    ents.sort(key=lambda e: os.stat(e).st_mtime, reverse=True)
    for e in ents[12:]:
        shutil.rmtree(e, ignore_errors=True)
    live = {os.path.basename(e) for e in ents[:12]} | {keep}
    for l in locks:
        if os.path.basename(l).split(".")[0] not in live:
            try:
                os.unlink(l)
            except OSError:
                pass


class FactError(Exception):
    pass


def ensure_driver():
    if os.path.exists(DRIVER):
        return
    env = dict(os.environ, CARGO_NET_OFFLINE="true")
    r = subprocess.run(["cargo", "build", "--offline"], cwd=os.path.join(VERIF, "driver"), env=env,
                       stdout=subprocess.PIPE, stderr=subprocess.STDOUT, text=True)
    if r.returncode != 0 or not os.path.exists(DRIVER):
        raise FactError("driver build failed:\n" + r.stdout[-3000:])


def build(config, repo=None, out_dir=None, target_dir=None):
    """Run the driver for one configuration. Returns the directory holding <crate>.json."""
    repo = repo or REPO
    args, extra_flags, crates = CONFIGS[config]
    ensure_driver()
    os.makedirs(out_dir, exist_ok=True)
    env = dict(os.environ)
    env["LD_LIBRARY_PATH"] = _sysroot() + "/lib" + (":" + env["LD_LIBRARY_PATH"] if env.get("LD_LIBRARY_PATH") else "")
    env["RUSTFLAGS"] = ("-Zmir-opt-level=0 -Awarnings -Along_running_const_eval -Zub-checks=no " + extra_flags).strip()
    env["RUSTC_WORKSPACE_WRAPPER"] = DRIVER
    env["ZFACTS_OUT"] = out_dir
    env["CARGO_TARGET_DIR"] = target_dir
    env["CARGO_NET_OFFLINE"] = "true"
    env.pop("RUSTC_WRAPPER", None)
    # a warm target dir would make cargo skip the wrapper: always start from a fresh one
    shutil.rmtree(target_dir, ignore_errors=True)
    cmd = ["cargo", "+nightly", "check", "--offline", "-j", "16"] + args
    r = subprocess.run(cmd, cwd=repo, env=env, stdout=subprocess.PIPE, stderr=subprocess.STDOUT, text=True)
    shutil.rmtree(target_dir, ignore_errors=True)
    if r.returncode != 0:
        raise FactError("cargo check failed for %s:\n%s" % (config, r.stdout[-4000:]))
    for c in crates:
        if not os.path.exists(os.path.join(out_dir, c + ".json")):
            raise FactError("driver produced no facts for crate %s in %s" % (c, config))
    return out_dir


_loaded = {}


def load(config, repo=None):
    """Facts for one configuration of the current /repo tree: dict crate -> json."""
    repo = repo or REPO
    key = (config, repo)
    if key in _loaded:
        return _loaded[key]
    os.makedirs(CACHE, exist_ok=True)
    th = tree_hash(repo)
    d = os.path.join(CACHE, th, config)
    lock_path = os.path.join(CACHE, th + "." + config + ".lock")
    with open(lock_path, "w") as lock:
        fcntl.flock(lock, fcntl.LOCK_EX)
        try:
            ok = os.path.exists(os.path.join(d, "DONE"))
            if not ok:
                shutil.rmtree(d, ignore_errors=True)
                t0 = time.time()
                build(config, repo, out_dir=d, target_dir=os.path.join(CACHE, th, config + "-target"))
                with open(os.path.join(d, "DONE"), "w") as fh:
                    fh.write("%.1f\n" % (time.time() - t0))
                _prune_cache(th)
            else:
                os.utime(os.path.join(CACHE, th), None)
        finally:
            fcntl.flock(lock, fcntl.LOCK_UN)
    res = {}
    for c in CONFIGS[config][2]:
        with open(os.path.join(d, c + ".json")) as fh:
            res[c] = json.load(fh)
    _loaded[key] = res
    return res


if __name__ == "__main__":
    for k in sys.argv[1:] or ["K1"]:
        t = time.time()
        f = load(k)
        print(k, {c: len(v["fns"]) for c, v in f.items()}, "%.1fs" % (time.time() - t))
