"""Lazily loaded Programs per build configuration."""
from . import facts, mir, flow, roles, inline

_progs = {}
_writes = {}


def prog(config="K1"):
    if config not in _progs:
        f, log = inline.apply(facts.load(config), config)
        _progs[config] = mir.Program(f)
        _progs[config].inlined = log
        roles.apply(_progs[config])
    return _progs[config]


def writes(config="K1"):
    if config not in _writes:
        _writes[config] = flow.Writes(prog(config))
    return _writes[config]


Z = "zlib_rs::"
SYS = "libz_rs_sys::"
