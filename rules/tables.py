"""CONST rules: exhaustive comparison of const-evaluated coding tables with RFC 1951 and with each
other (encoder side vs decoder side).  All values come from rustc's const evaluator via zfacts."""
import os
import sys

sys.path.insert(0, os.path.join(os.path.dirname(os.path.abspath(__file__)), ".."))
from oracles import rfc1951 as rfc  # noqa: E402
from . import consts  # noqa: E402
from .ctx import Z  # noqa: E402

T = Z + "deflate::trees_tbl::"
SD = Z + "deflate::StaticTreeDesc::"
IT = Z + "inflate::inftrees::"
IF = Z + "inflate::inffixed_tbl::"


def _get(ck, P, path, rule):
    try:
        return consts.get(P, path)
    except consts.ConstError as e:
        ck.anchor("const " + path, False)
        return None


def _cmp_list(ck, rule, name, got, want, what):
    if got is None:
        return False
    if len(got) < len(want):
        ck.bad(rule, name, "%s has %d entries, RFC needs %d" % (what, len(got), len(want)))
        return False
    bad = [(i, got[i], want[i]) for i in range(len(want)) if got[i] != want[i]]
    if bad:
        i, g, w = bad[0]
        ck.bad(rule, name, "%s differs from RFC 1951 at %d entries; first: [%d] = %s, RFC says %s" % (what, len(bad), i, g, w))
        return False
    ck.ok(rule, name, "%s: %d entries equal to RFC 1951" % (what, len(want)))
    return True


def encoder_tables(ck, P, rule="CONST/enc-rfc"):
    """deflate-side static tables equal RFC 1951 (C05, C12 base)"""
    lt = rfc.length_table()
    dt = rfc.dist_table()
    n = 0
    length_code = _get(ck, P, T + "LENGTH_CODE", rule)
    base_length = _get(ck, P, T + "BASE_LENGTH", rule)
    extra_lbits = _get(ck, P, SD + "EXTRA_LBITS", rule)
    dist_code = _get(ck, P, T + "DIST_CODE", rule)
    base_dist = _get(ck, P, T + "BASE_DIST", rule)
    extra_dbits = _get(ck, P, SD + "EXTRA_DBITS", rule)
    extra_blbits = _get(ck, P, SD + "EXTRA_BLBITS", rule)
    bl_order = _get(ck, P, SD + "BL_ORDER", rule)
    sl = _get(ck, P, T + "STATIC_LTREE", rule)
    sdt = _get(ck, P, T + "STATIC_DTREE", rule)
    if None in (length_code, base_length, extra_lbits, dist_code, base_dist, extra_dbits, extra_blbits, bl_order, sl, sdt):
        return 0
    # length code / base / extra: zlib's length code c (0..28) <-> RFC symbol 257+c; base is (len-3)
    # zlib's BASE_LENGTH[28] is 0 in trees_tbl (code 28 = length 258 handled through LENGTH_CODE[255] = 28 and
    # extra 0) so compare through the mapping len -> (code, extra value)
    bad = []
    for length in range(3, 259):
        sym, extra, ev = rfc.length_symbol(length)
        c = length_code[length - 3]
        if 257 + c != sym:
            bad.append("len %d: code %d, RFC symbol %d" % (length, 257 + c, sym))
            continue
        if extra_lbits[c] != extra:
            bad.append("len %d: extra bits %d, RFC %d" % (length, extra_lbits[c], extra))
            continue
        if extra and (length - 3) - base_length[c] != ev:
            bad.append("len %d: extra value %d, RFC %d" % (length, (length - 3) - base_length[c], ev))
    n += 256
    ck.decide(not bad, rule, "LENGTH_CODE/BASE_LENGTH/EXTRA_LBITS", "all 256 lengths map to the RFC symbol, extra bits and value",
              "; ".join(bad[:3]))
    bad = []
    for dist in range(1, 32769):
        sym, extra, ev = rfc.dist_symbol(dist)
        d = dist - 1
        idx = d if d < 256 else 256 + (d >> 7)
        c = dist_code[idx]
        if c != sym:
            bad.append("dist %d: code %d, RFC %d" % (dist, c, sym))
            if len(bad) > 5:
                break
            continue
        if extra_dbits[c] != extra or d - base_dist[c] != ev:
            bad.append("dist %d: extra %d/%d, RFC %d/%d" % (dist, extra_dbits[c], d - base_dist[c], extra, ev))
            if len(bad) > 5:
                break
    n += 32768
    ck.decide(not bad, rule, "DIST_CODE/BASE_DIST/EXTRA_DBITS", "all 32768 distances map to the RFC symbol, extra bits and value",
              "; ".join(bad[:3]))
    _cmp_list(ck, rule, "EXTRA_BLBITS", extra_blbits, [0] * 16 + [2, 3, 7], "code-length alphabet extra bits")
    _cmp_list(ck, rule, "BL_ORDER", bl_order, rfc.CODE_LENGTH_ORDER, "code-length order")
    n += 38
    # static trees: a = bit-reversed canonical code, b = length
    lens = rfc.fixed_litlen_lengths()
    codes = rfc.canonical_codes(lens)
    want = [{"a": rfc.bit_reverse(codes[i], lens[i]), "b": lens[i]} for i in range(288)]
    _cmp_list(ck, rule, "STATIC_LTREE", sl, want, "fixed literal/length tree (bit-reversed code, length)")
    dl = rfc.fixed_dist_lengths()
    dc = rfc.canonical_codes(dl)
    want = [{"a": rfc.bit_reverse(dc[i], 5), "b": 5} for i in range(30)]
    _cmp_list(ck, rule, "STATIC_DTREE", sdt, want, "fixed distance tree")
    n += 318
    # descriptors
    for nm, (eb, elems, maxl) in {"L": (257, rfc.N_LITLEN, rfc.MAX_CODE_BITS), "D": (0, rfc.N_DIST, rfc.MAX_CODE_BITS),
                                   "BL": (0, rfc.N_CL, rfc.MAX_CL_BITS)}.items():
        d = _get(ck, P, SD + nm, rule)
        if d is None:
            continue
        ok = d["extra_base"] == eb and d["elems"] == elems and d["max_length"] == maxl
        ck.decide(ok, rule, "StaticTreeDesc::" + nm, "extra_base/elems/max_length = %d/%d/%d" % (eb, elems, maxl),
                  "descriptor is %d/%d/%d, RFC 1951 needs %d/%d/%d" % (d["extra_base"], d["elems"], d["max_length"], eb, elems, maxl))
        n += 3
    for nm, v in (("MAX_STORED", rfc.STORED_MAX), ("REP_3_6", 16), ("REPZ_3_10", 17), ("REPZ_11_138", 18), ("MAX_BITS", 15),
                  ("MAX_BL_BITS", 7), ("L_CODES", 286), ("D_CODES", 30), ("BL_CODES", 19), ("LITERALS", 256),
                  ("LENGTH_CODES", 29), ("STD_MIN_MATCH", 3), ("STD_MAX_MATCH", 258)):
        g = _get(ck, P, Z + "deflate::" + nm, rule)
        ck.decide(g == v, rule, nm, "= %d" % v, "is %s, RFC 1951 needs %d" % (g, v))
        n += 1
    # precomputed static encodings equal encode_len over the other tables
    enc = _get(ck, P, T + "STATIC_LTREE_ENCODINGS", rule)
    if enc is not None:
        bad = []
        for lc in range(256):
            c = length_code[lc]
            node = sl[c + 257]
            bits, nb = node["a"], node["b"]
            ex = extra_lbits[c]
            if ex:
                bits |= (lc - base_length[c]) << nb
                nb += ex
            if enc[lc] != {"a": bits, "b": nb}:
                bad.append("lc %d: %s, recomputed (%d,%d)" % (lc, enc[lc], bits, nb))
        n += 256
        ck.decide(not bad, rule, "STATIC_LTREE_ENCODINGS", "256 precomputed (code|extra, nbits) entries equal encode_len",
                  "; ".join(bad[:3]))
    return n


def decoder_tables(ck, P, rule="CONST/dec-rfc"):
    """inflate-side static tables equal RFC 1951 (C03)"""
    n = 0
    lbase = _get(ck, P, IT + "LBASE", rule)
    lext = _get(ck, P, IT + "LEXT", rule)
    dbase = _get(ck, P, IT + "DBASE", rule)
    dext = _get(ck, P, IT + "DEXT", rule)
    lenfix = _get(ck, P, IF + "LENFIX", rule)
    distfix = _get(ck, P, IF + "DISTFIX", rule)
    if None in (lbase, lext, dbase, dext, lenfix, distfix):
        return 0
    lt = rfc.length_table()
    _cmp_list(ck, rule, "LBASE", lbase[:29], [b for _, _, b in lt], "length bases")
    _cmp_list(ck, rule, "LEXT", lext[:29], [16 + e for _, e, _ in lt], "length extra (16+bits)")
    inval = [x for x in lext[29:31] if not (x & 64 and not x & 32 and not x & 16)]
    ck.decide(len(lext) >= 31 and not inval, rule, "LEXT[286..287]", "symbols 286/287 marked invalid",
              "length symbols 286/287 are not marked invalid (op & 64, !(op & 32), !(op & 16)): %s" % lext[29:31])
    dt = rfc.dist_table()
    _cmp_list(ck, rule, "DBASE", dbase[:30], [b for _, _, b in dt], "distance bases")
    _cmp_list(ck, rule, "DEXT", dext[:30], [16 + e for _, e, _ in dt], "distance extra (16+bits)")
    inval = [x for x in dext[30:32] if not (x & 64 and not x & 32 and not x & 16)]
    ck.decide(len(dext) >= 32 and not inval, rule, "DEXT[30..31]", "symbols 30/31 marked invalid",
              "distance symbols 30/31 are not marked invalid: %s" % dext[30:32])
    n += 29 * 2 + 30 * 2 + 4
    # fixed tables: every 9-bit / 5-bit index decoded independently
    ltab = {s: (e, b) for s, e, b in lt}
    bad = []
    for idx in range(512):
        sym, nb = rfc.decode_fixed_litlen(idx)
        if sym < 256:
            want = {"op": 0, "bits": nb, "val": sym}
        elif sym == 256:
            want = {"op": 96, "bits": nb, "val": 0}
        elif sym <= 285:
            e, b = ltab[sym]
            want = {"op": 16 + e, "bits": nb, "val": b}
        else:
            want = None
        got = lenfix[idx]
        if want is None:
            if not (got["bits"] == nb and got["op"] & 64 and not got["op"] & 32 and not got["op"] & 16):
                bad.append("LENFIX[%d]=%s should be an invalid-code entry of %d bits" % (idx, got, nb))
        elif got != want:
            bad.append("LENFIX[%d]=%s, RFC fixed code gives %s" % (idx, got, want))
    ck.decide(len(lenfix) == 512 and not bad, rule, "LENFIX", "512 slots decode the RFC fixed literal/length code", "; ".join(bad[:3]))
    dtab = {s: (e, b) for s, e, b in dt}
    bad = []
    for idx in range(32):
        sym, nb = rfc.decode_fixed_dist(idx)
        got = distfix[idx]
        if sym < 30:
            e, b = dtab[sym]
            want = {"op": 16 + e, "bits": 5, "val": b}
            if got != want:
                bad.append("DISTFIX[%d]=%s, RFC gives %s" % (idx, got, want))
        else:
            if not (got["bits"] == 5 and got["op"] & 64 and not got["op"] & 32 and not got["op"] & 16):
                bad.append("DISTFIX[%d]=%s should be invalid" % (idx, got))
    ck.decide(len(distfix) == 32 and not bad, rule, "DISTFIX", "32 slots decode the RFC fixed distance code", "; ".join(bad[:3]))
    n += 544
    for path in (Z + "inflate::State::dispatch::ORDER", Z + "inflate::infback::back::ORDER"):
        o = _get(ck, P, path, rule)
        _cmp_list(ck, rule, path.replace(Z, ""), o, rfc.CODE_LENGTH_ORDER, "code-length order")
        n += 19
    return n


def roundtrip(ck, P, rule="CONST/roundtrip"):
    """decode(encode(x)) == x through the encoder's and the decoder's own tables (C01)"""
    n = 0
    try:
        length_code = consts.get(P, T + "LENGTH_CODE")
        base_length = consts.get(P, T + "BASE_LENGTH")
        extra_lbits = consts.get(P, SD + "EXTRA_LBITS")
        dist_code = consts.get(P, T + "DIST_CODE")
        base_dist = consts.get(P, T + "BASE_DIST")
        extra_dbits = consts.get(P, SD + "EXTRA_DBITS")
        lbase = consts.get(P, IT + "LBASE")
        lext = consts.get(P, IT + "LEXT")
        dbase = consts.get(P, IT + "DBASE")
        dext = consts.get(P, IT + "DEXT")
        bl_order = consts.get(P, SD + "BL_ORDER")
        sl = consts.get(P, T + "STATIC_LTREE")
        sdt = consts.get(P, T + "STATIC_DTREE")
        lenfix = consts.get(P, IF + "LENFIX")
        distfix = consts.get(P, IF + "DISTFIX")
    except consts.ConstError as e:
        ck.anchor("coding tables (%s)" % e, False)
        return 0
    bad = []
    for length in range(3, 259):
        lc = length - 3
        c = length_code[lc]
        ev = lc - base_length[c] if extra_lbits[c] else 0
        # decoder: symbol 257+c -> LBASE[c] + extra value, LEXT[c]&15 extra bits
        if c >= 29 or (lext[c] & 15) != extra_lbits[c] or not (lext[c] & 16) or lbase[c] + ev != length or ev >> extra_lbits[c]:
            bad.append("length %d -> code %d extra (%d bits, value %d) decodes to %s" % (
                length, c, extra_lbits[c], ev, (lbase[c] + ev) if c < 29 else "?"))
    n += 256
    ck.decide(not bad, rule, "length 3..258", "every match length survives encode->decode through both sides' tables", "; ".join(bad[:3]))
    bad = []
    for dist in range(1, 32769):
        d = dist - 1
        idx = d if d < 256 else 256 + (d >> 7)
        c = dist_code[idx]
        ev = d - base_dist[c]
        if c >= 30 or ev < 0 or ev >> extra_dbits[c] or (dext[c] & 15) != extra_dbits[c] or not (dext[c] & 16) or dbase[c] + ev != dist:
            bad.append("distance %d -> code %d extra (%d bits, value %d)" % (dist, c, extra_dbits[c], ev))
            if len(bad) > 5:
                break
    n += 32768
    ck.decide(not bad, rule, "distance 1..32768", "every distance survives encode->decode through both sides' tables", "; ".join(bad[:3]))
    for path in (Z + "inflate::State::dispatch::ORDER", Z + "inflate::infback::back::ORDER"):
        try:
            o = consts.get(P, path)
        except consts.ConstError:
            ck.anchor("const " + path, False)
            continue
        ck.decide(list(o) == list(bl_order), rule, "BL_ORDER==" + path.replace(Z, ""), "writer and reader use the same code-length order",
                  "encoder order %s, decoder order %s" % (bl_order, o))
        n += 19
    # static trees vs fixed decode tables: each slot of LENFIX / DISTFIX decodes the symbol whose static code it is
    bad = []
    for sym in range(286):
        code, nb = sl[sym]["a"], sl[sym]["b"]
        # all 9-bit indices whose low nb bits equal the (bit-reversed) code
        for hi in range(1 << (9 - nb)):
            e = lenfix[code | (hi << nb)]
            if e["bits"] != nb:
                bad.append("symbol %d: LENFIX bits %d != %d" % (sym, e["bits"], nb))
                break
            if sym < 256:
                okk = e["op"] == 0 and e["val"] == sym
            elif sym == 256:
                okk = e["op"] & 32 and e["op"] & 64
            else:
                okk = e["op"] & 16 and e["val"] == lbase[sym - 257] and (e["op"] & 15) == (lext[sym - 257] & 15)
            if not okk:
                bad.append("symbol %d: LENFIX entry %s" % (sym, e))
                break
    n += 286
    ck.decide(not bad, rule, "STATIC_LTREE<->LENFIX", "every static literal/length code decodes to its symbol", "; ".join(bad[:3]))
    bad = []
    for sym in range(30):
        code, nb = sdt[sym]["a"], sdt[sym]["b"]
        e = distfix[code & 31]
        if not (nb == 5 and e["bits"] == 5 and e["op"] & 16 and e["val"] == dbase[sym] and (e["op"] & 15) == (dext[sym] & 15)):
            bad.append("dist symbol %d: DISTFIX entry %s" % (sym, e))
    n += 30
    ck.decide(not bad, rule, "STATIC_DTREE<->DISTFIX", "every static distance code decodes to its symbol", "; ".join(bad[:3]))
    return n
