"""Decode const-evaluated items (bytes + layout shape, as dumped by zfacts) into Python values."""
import struct


class ConstError(Exception):
    pass


def _int(b, signed):
    return int.from_bytes(b, "little", signed=signed)


def decode(shape, data, off=0, ptrs=None):
    k = shape.get("kind")
    size = shape.get("size", 0)
    if k in ("uint", "bool"):
        return _int(data[off:off + size], False)
    if k == "int":
        return _int(data[off:off + size], True)
    if k == "array":
        n = shape["n"]
        el = shape["elem"]
        es = el.get("size", 0)
        return [decode(el, data, off + i * es, ptrs) for i in range(n)]
    if k == "struct":
        out = {}
        for f in shape["fields"]:
            out[f["name"]] = decode(f["shape"], data, off + f["offset"], ptrs)
        return out
    if k == "enum":
        # field-less enums: discriminant stored in the tag; size gives width
        if size:
            v = _int(data[off:off + size], False)
            for var in shape.get("variants", []):
                if var["discr"] == v or (var["discr"] & ((1 << (8 * size)) - 1)) == v:
                    return var["name"]
            return v
        return None
    if k == "ptr":
        if ptrs:
            for p in ptrs:
                if p.get("at") == off:
                    return {"ptr": {kk: vv for kk, vv in p.items() if kk != "at"}}
        return {"ptr": None, "raw": _int(data[off:off + 8], False)}
    if k == "other":
        ty = shape.get("ty", "")
        # SIMD vectors: expose the raw bytes
        return {"bytes": bytes(data[off:off + size]), "ty": ty}
    if k == "float":
        return struct.unpack("<f" if size == 4 else "<d", data[off:off + size])[0]
    return None


def value(item):
    """Python value of an item dumped by zfacts (scalar, list, dict)"""
    if item is None:
        raise ConstError("item missing")
    if "val" in item and "indirect" not in item and "hex" not in item:
        return item["val"]
    shape = item.get("shape")
    if "indirect" in item:
        ind = item["indirect"]
        data = bytes.fromhex(ind.get("hex", ""))
        if shape is None:
            raise ConstError("no shape for %s" % item["path"])
        return decode(shape, data, ind.get("off", 0), ind.get("ptrs"))
    if "hex" in item:
        data = bytes.fromhex(item["hex"])
        if shape is None:
            raise ConstError("no shape for %s" % item["path"])
        return decode(shape, data, 0, item.get("ptrs"))
    if "slice" in item:
        s = item["slice"]
        return s.get("str", bytes.fromhex(s.get("hex", "")))
    if item.get("zst"):
        return ()
    raise ConstError("cannot decode %s (%s)" % (item.get("path"), sorted(item.keys())))


def get(prog, path):
    it = prog.item(path)
    if it is None:
        raise ConstError("constant %s not found" % path)
    return value(it)


def simd_lanes(v, width):
    """split a SIMD vector value {'bytes':..} into little-endian unsigned lanes of `width` bytes"""
    b = v["bytes"]
    return [int.from_bytes(b[i:i + width], "little") for i in range(0, len(b), width)]
