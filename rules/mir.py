"""Program model over zfacts JSON: functions, pruned CFG, dominators on the edge-split graph,
expression trees, canonical branch atoms, call sites, call graph.

Everything here is static: it only reads the compiler's MIR; no library code is executed.
"""
import re
from collections import defaultdict, deque

# --------------------------------------------------------------------------------------------
# expressions are nested tuples; see module docstring of rules for the vocabulary
#   ('c', val, defname, ty)      constant (val may be None)
#   ('fn', path)                 function item constant
#   ('p', idx)                   parameter local
#   ('v', idx)                   opaque local (several definitions)
#   ('f', base, name)            field projection
#   ('*', base)                  deref
#   ('[]', base, index)          index
#   ('dc', base, variant)        downcast
#   ('call', callee, args)       call result (callee = resolved path)
#   ('bin', op, a, b) ('un', op, a) ('cast', a, ty) ('&', place) ('discr', place)
#   ('agg', adt, variant, ((field, expr), ...)) ('rep', a, n) ('?',)
# --------------------------------------------------------------------------------------------

CMP_SWAP = {"Gt": "Lt", "Ge": "Le"}
CMP_NEG = {"Lt": "Ge", "Le": "Gt", "Gt": "Le", "Ge": "Lt", "Eq": "Ne", "Ne": "Eq"}
CMP_OPS = set(CMP_NEG)


def strip_generics(path):
    """zlib_rs::inflate::writer::Writer::<'a>::push -> zlib_rs::inflate::writer::Writer::push"""
    out = []
    depth = 0
    i = 0
    n = len(path)
    while i < n:
        ch = path[i]
        if ch == '<' and depth == 0 and i >= 2 and path[i - 2:i] == '::':
            # turbofish-like segment ::<...>
            depth = 1
            out = out[:-2]
            i += 1
            while i < n and depth:
                if path[i] == '<':
                    depth += 1
                elif path[i] == '>':
                    depth -= 1
                i += 1
            continue
        out.append(ch)
        i += 1
    return ''.join(out)


class Program:
    def __init__(self, facts):
        """facts: dict crate -> json (from facts.load)"""
        self.crates = facts
        self.fns = {}
        self.items = {}
        self.adts = {}
        self.cfg = {}
        self.impls = []
        self.foreign = set()
        for cname, c in facts.items():
            self.cfg[cname] = set(c.get("cfg", []))
            for f in c["fns"]:
                fn = Fn(self, f, cname)
                self.fns[fn.path] = fn
            for it in c["items"]:
                self.items[strip_generics(it["path"])] = it
            for a in c["adts"]:
                self.adts[a["path"]] = a
            self.impls.extend(c.get("impls", []))
            self.foreign.update(c.get("foreign_fns", []))
        self._callers = None
        self.substituted = {}
        self._ret_const = {}
        self._ret_int = {}

    def fn(self, path):
        f = self.fns.get(path)
        if f is None:
            # a function of the tree the rules were written against that has been inlined into its only (former) caller:
            # the code the rule is about now lives there
            from . import inline
            if inline.is_known(path):
                present = [c for c in inline.frozen_callers(path) if c in self.fns]
                if len(present) == 1:
                    self.substituted[path] = present[0]
                    return self.fns[present[0]]
        return f

    def find_fns(self, pattern):
        rx = re.compile(pattern)
        return [f for p, f in sorted(self.fns.items()) if rx.search(p)]

    def one_fn(self, pattern):
        fs = self.find_fns(pattern)
        if len(fs) != 1:
            return None
        return fs[0]

    def item(self, path):
        return self.items.get(path)

    def adt(self, path):
        return self.adts.get(path)

    CORE_ENUMS = {
        "core::option::Option": {0: "None", 1: "Some"},
        "core::result::Result": {0: "Ok", 1: "Err"},
        "core::ops::control_flow::ControlFlow": {0: "Continue", 1: "Break"},
        "core::ops::ControlFlow": {0: "Continue", 1: "Break"},
        "core::cmp::Ordering": {-1: "Less", 255: "Less", 0: "Equal", 1: "Greater"},
    }

    def variant_name(self, adt_ty, discr):
        a = self.adts.get(strip_ty(adt_ty))
        if not a:
            ce = self.CORE_ENUMS.get(strip_ty(adt_ty))
            if ce:
                return ce.get(discr)
            return None
        for v in a["variants"]:
            if v.get("discr") == discr:
                return v["name"]
        return None

    def static_fn_targets(self, static_path):
        """function paths stored (as fn pointers) in a static's initializer"""
        it = self.items.get(strip_generics(static_path))
        out = set()
        if not it:
            return out
        for p in it.get("ptrs", []) or []:
            if "fn" in p:
                out.add(strip_generics(p["fn"]))
        return out

    def ret_const(self, path, depth=0):
        """(adt, variant) when every assignment to the return place of the local function `path`
        is the same field-less enum constant (e.g. reset_keep always returns ReturnCode::Ok)"""
        if path in self._ret_const:
            return self._ret_const[path]
        self._ret_const[path] = None
        f = self.fns.get(path)
        if f is None:
            return None
        vals = set()
        for bi, si, rv in f.defs.get(0, []):
            if rv is None:
                return None
            e = f.call_expr(rv) if si == "call" else f.rvalue_expr(rv)
            v = f.enum_const(e, depth)
            if v is None:
                return None
            vals.add(v)
        r = vals.pop() if len(vals) == 1 else None
        self._ret_const[path] = r
        return r

    def ret_int_const(self, path):
        """integer/bool value when every live assignment to the return place of a local function is
        that same literal constant (e.g. a CPU probe compiled to `false` in a no_std build)"""
        if path in self._ret_int:
            return self._ret_int[path]
        self._ret_int[path] = None
        f = self.fns.get(path)
        if f is None:
            return None
        vals = set()
        for bi, si, rv in f.defs.get(0, []):
            if bi not in f.live:
                continue
            if rv is None or si == "call":
                return None
            e = strip_casts(f.rvalue_expr(rv))
            if e[0] == "c" and isinstance(e[1], int) and e[2] is None:
                vals.add(e[1])
            else:
                return None
        r = vals.pop() if len(vals) == 1 else None
        self._ret_int[path] = r
        return r

    # ---- call graph --------------------------------------------------------------------------
    def callees(self, fn):
        return fn.callee_paths()

    def callers_of(self, path):
        if self._callers is None:
            self._callers = defaultdict(set)
            for f in self.fns.values():
                for c in f.callee_paths():
                    self._callers[c].add(f.path)
        return self._callers.get(path, set())

    def reachable_from(self, roots, extra_edges=None):
        """set of fn paths reachable through resolved calls (and fn-item references) from roots"""
        seen = set()
        work = deque(roots)
        while work:
            p = work.popleft()
            if p in seen:
                continue
            seen.add(p)
            f = self.fns.get(p)
            if not f:
                continue
            for c in f.callee_paths() | f.fn_refs():
                if c not in seen:
                    work.append(c)
            for st in f.static_refs():
                for c in self.static_fn_targets(st):
                    if c not in seen:
                        work.append(c)
            if extra_edges and p in extra_edges:
                for c in extra_edges[p]:
                    if c not in seen:
                        work.append(c)
        return seen


def strip_ty(t):
    t = t.strip()
    while t.startswith("&"):
        t = t[1:].strip()
        if t.startswith("mut "):
            t = t[4:]
        if t.startswith("'"):
            t = t.split(" ", 1)[1] if " " in t else t
    # drop generic args
    i = t.find("<")
    if i > 0:
        t = t[:i]
    return t


SIZE_OF = {
    "u8": 1, "i8": 1, "u16": 2, "i16": 2, "u32": 4, "i32": 4, "u64": 8, "i64": 8, "usize": 8, "isize": 8, "u128": 16,
    "core::core_arch::x86::__m128i": 16, "core::core_arch::x86::__m256i": 32, "core::core_arch::x86::__m512i": 64,
    "*mut core::ffi::c_void": 8, "*const core::ffi::c_void": 8, "*mut u8": 8, "*const u8": 8,
}


class CallSite:
    __slots__ = ("fn", "bb", "callee", "declared", "args", "raw", "line", "exp", "dest", "target", "gargs", "krate", "local")

    def __repr__(self):
        return "<call %s in %s bb%d line %s>" % (self.callee, self.fn.path, self.bb, self.line)


class Fn:
    def __init__(self, prog, j, crate):
        self.prog = prog
        self.j = j
        self.crate = crate
        self.path = strip_generics(j["path"])
        self.raw_path = j["path"]
        self.file = j.get("file")
        self.line = j.get("line")
        self.line_hi = j.get("line_hi")
        self.mir = j["mir"]
        self.blocks = self.mir["blocks"]
        self.locals = self.mir["locals"]
        self.arg_count = self.mir["arg_count"]
        self.abi = j.get("abi", "Rust")
        self.is_unsafe = j.get("unsafe", False)
        self.target_features = set(j.get("target_features", []))
        self.module = j.get("module")
        self._defs = None
        self.alias = {}
        self.roles = {}
        self._nb_active = set()
        self._succ = None
        self._calls = None
        self._expr_cache = {}
        self._dom = None
        self._live = None
        self.is_promoted = False
        self._promoted = {}
        self._static_refs = None
        self._debug_branches = None

    def __repr__(self):
        return "<Fn %s>" % self.path

    def promoted_expr(self, n):
        """expression of the value of promoted constant n of this function"""
        if n in self._promoted:
            return self._promoted[n]
        self._promoted[n] = None
        proms = self.j.get("promoted", [])
        if n >= len(proms):
            return None
        pj = dict(path=self.raw_path, mir=proms[n])
        pf = Fn(self.prog, pj, self.crate)
        pf.is_promoted = True
        e = pf.local_expr(0)
        if any(x[0] in ("v", "p") for x in walk(e)):
            e = None
        self._promoted[n] = e
        return e

    @property
    def is_extern_c(self):
        return self.abi.startswith("C")

    def local_name(self, idx):
        return self.alias.get(idx) or self.locals[idx].get("name")

    def param_index(self, name):
        for i in range(1, self.arg_count + 1):
            if self.locals[i].get("name") == name:
                return i
        return None

    # ---- definitions -------------------------------------------------------------------------
    @property
    def defs(self):
        """local -> list of (bb, stmt_index or 'call', rvalue-json or terminator-json)
        for assignments to the whole local (no projection)"""
        if self._defs is None:
            d = defaultdict(list)
            for bi, b in enumerate(self.blocks):
                if b.get("cleanup"):
                    continue
                for si, s in enumerate(b["s"]):
                    if s["k"] == "assign":
                        lhs = s["lhs"]
                        if "p" not in lhs:
                            d[lhs["l"]].append((bi, si, s["rv"]))
                        elif lhs["p"][0] != "*":
                            d[lhs["l"]].append((bi, si, None))  # partial write: makes it opaque
                    elif s["k"] == "setdiscr" and s["lhs"].get("p", [None])[0] != "*":
                        d[s["lhs"]["l"]].append((bi, si, None))
                t = b["t"]
                if t["k"] == "call":
                    dest = t["dest"]
                    if "p" not in dest:
                        d[dest["l"]].append((bi, "call", t))
                    elif dest["p"][0] != "*":
                        d[dest["l"]].append((bi, "call", None))
            self._defs = d
        return self._defs

    # ---- expressions -------------------------------------------------------------------------
    def place_expr(self, pl, depth=0, expand=True):
        l = pl["l"]
        base = self.local_expr(l, depth, expand)
        for pr in pl.get("p", []):
            if pr == "*":
                if base[0] == "&":
                    base = base[1]
                else:
                    base = ("*", base)
            elif isinstance(pr, str):
                pass
            elif "f" in pr:
                # tuple field of a checked arithmetic result
                if base[0] == "bin" and base[1].endswith("WithOverflow"):
                    if pr["f"] == 0:
                        base = ("bin", base[1][:-len("WithOverflow")], base[2], base[3])
                    else:
                        base = ("ovf", base)
                elif base[0] == "agg" and base[1] == "tuple":
                    fl = dict(base[3])
                    base = fl.get(pr["name"], ("f", base, pr["name"]))
                else:
                    base = ("f", base, pr["name"])
            elif "idx" in pr:
                base = ("[]", base, self.local_expr(pr["idx"], depth + 1, expand))
            elif "cidx" in pr:
                base = ("[]", base, ("c", pr["cidx"], None, "usize"))
            elif "downcast" in pr:
                base = ("dc", base, pr.get("name"))
            elif "sub" in pr:
                base = ("sub", base, tuple(pr["sub"]))
        return base

    def local_expr(self, l, depth=0, expand=True):
        if 1 <= l <= self.arg_count:
            ds = self.defs.get(l, [])
            if not ds:
                return ("p", l)
            return ("v", l)
        if not expand or depth > 40:
            return ("v", l)
        stop = getattr(self, "_stop_named", False)
        if stop and self.local_name(l):
            # named working locals stay symbolic (rules/linear.py): only compiler temporaries are opened
            return ("v", l)
        ds = self.defs.get(l, [])
        if len(ds) != 1:
            return ("v", l)
        key = (l, "named") if stop else l
        if key in self._expr_cache:
            return self._expr_cache[key]
        self._expr_cache[key] = ("v", l)  # recursion guard
        bi, si, rv = ds[0]
        if rv is None:
            e = ("v", l)
        elif si == "call":
            e = self.call_expr(rv, depth + 1)
        else:
            e = self.rvalue_expr(rv, depth + 1)
        self._expr_cache[key] = e
        return e

    def operand_expr(self, op, depth=0, expand=True):
        k = op.get("k")
        if k == "const":
            if "fn" in op:
                return ("fn", strip_generics(op.get("resolved") or op["fn"]))
            if "promoted" in op and strip_generics(op.get("def", "")) == self.path and not self.is_promoted:
                pe = self.promoted_expr(op["promoted"])
                if pe is not None:
                    return pe
            val = op.get("val")
            # a named constant byte array (`const MAGIC: [u8; 3] = [31, 139, 8]`) is the array of its bytes
            ind = op.get("indirect")
            if val is None and isinstance(ind, dict) and isinstance(ind.get("hex"), str) and re.match(r"^\[u8; \d+\]$", str(op.get("ty", ""))) \
                    and not ind.get("off") and len(ind["hex"]) <= 16:
                bs = bytes.fromhex(ind["hex"])
                return ("agg", "array", None, tuple((str(i), ("c", b, None, "u8")) for i, b in enumerate(bs)))
            if val is None and "runtime_check" in op:
                val = 0
            if val is None and "slice" in op and "str" in op["slice"]:
                return ("c", op["slice"]["str"], op.get("def"), "str")
            return ("c", val, op.get("def") or op.get("tyconst"), op.get("ty"))
        return self.place_expr(op, depth, expand)

    def call_expr(self, t, depth=0):
        func = t["func"]
        if func.get("k") == "const" and "fn" in func:
            callee = strip_generics(func.get("resolved") or func["fn"])
        else:
            callee = ("indirect", self.operand_expr(func, depth + 1))
        args = tuple(self.operand_expr(a, depth + 1) for a in t["args"])
        if isinstance(callee, str) and callee in ("core::mem::size_of", "core::mem::align_of") and not args:
            ga = func.get("gargs", [])
            if len(ga) == 1 and ga[0] in SIZE_OF and callee.endswith("size_of"):
                return ("c", SIZE_OF[ga[0]], "size_of::<%s>" % ga[0].split("::")[-1], "usize")
        return ("call", callee, args)

    def rvalue_expr(self, rv, depth=0):
        k = rv["k"]
        if k == "use":
            return self.operand_expr(rv["a"], depth)
        if k == "ref" or k == "rawptr":
            pe = self.place_expr(rv["place"], depth)
            if pe[0] == "*":
                # &*x == x (reborrow)
                return pe[1]
            return ("&", pe)
        if k == "cast":
            a = self.operand_expr(rv["a"], depth)
            return ("cast", a, rv["ty"])
        if k == "bin":
            return ("bin", rv["op"], self.operand_expr(rv["a"], depth), self.operand_expr(rv["b"], depth))
        if k == "un":
            return ("un", rv["op"], self.operand_expr(rv["a"], depth))
        if k == "discr":
            return ("discr", self.place_expr(rv["place"], depth), rv.get("ty"))
        if k == "agg":
            ops = [self.operand_expr(a, depth) for a in rv["ops"]]
            if rv["agg"] == "adt":
                return ("agg", rv["adt"], rv["variant"], tuple(zip(rv["fields"], ops)))
            if rv["agg"] == "tuple":
                return ("agg", "tuple", None, tuple((str(i), o) for i, o in enumerate(ops)))
            return ("agg", rv["agg"], None, tuple((str(i), o) for i, o in enumerate(ops)))
        if k == "repeat":
            return ("rep", self.operand_expr(rv["a"], depth), rv.get("n"))
        if k == "tlref":
            return ("tl", rv["def"])
        return ("?",)

    # ---- CFG ---------------------------------------------------------------------------------
    def switch_edges(self, bi):
        """list of (label, target) for a switch terminator; label is ('eq', v) or ('else', [vs])"""
        t = self.blocks[bi]["t"]
        vals = [v for v, _ in t["targets"]]
        out = [(("eq", v), tb) for v, tb in t["targets"]]
        out.append((("else", tuple(vals)), t["otherwise"]))
        return out

    def enum_const(self, e, depth=0):
        """(adt, variant) if the expression is a field-less enum constant, directly or as the
        constant return value of a local function"""
        e = deref_ref(e)
        if e[0] == "agg" and e[2] is not None and not e[3]:
            return (e[1], e[2])
        if e[0] == "call" and isinstance(e[1], str) and depth < 4:
            return self.prog.ret_const(e[1], depth + 1)
        return None

    def const_of(self, e):
        """evaluate an expression to an int constant if it is one"""
        e = strip_casts(e)
        if e[0] == "call" and isinstance(e[1], str) and len(e[2]) == 2:
            m = re.search(r"cmp::PartialEq(?:<[^>]*>)?>?::(eq|ne)$", e[1])
            if m:
                a = self.enum_const(e[2][0])
                b = self.enum_const(e[2][1])
                if a is not None and b is not None:
                    r = (a == b)
                    return int(r if m.group(1) == "eq" else not r)
        if e[0] == "c" and isinstance(e[1], int):
            return e[1]
        if e[0] == "discr":
            # `match f(..) { Variant => .. }` on a local function that always returns one field-less variant
            ec = self.enum_const(e[1])
            if ec is not None:
                adt = self.prog.adts.get(strip_ty(ec[0]))
                if adt:
                    for v in adt["variants"]:
                        if v["name"] == ec[1] or v.get("discr") == ec[1]:
                            return v.get("discr")
        if e[0] == "call" and isinstance(e[1], str) and e[1] in self.prog.fns:
            v = self.prog.ret_int_const(e[1])
            if v is not None:
                return v
        if e[0] == "un" and e[1] == "Not":
            v = self.const_of(e[2])
            if v in (0, 1):
                return 1 - v
        if e[0] == "bin":
            a = self.const_of(e[2])
            b = self.const_of(e[3])
            if a is not None and b is not None:
                op = e[1]
                try:
                    if op == "Eq":
                        return int(a == b)
                    if op == "Ne":
                        return int(a != b)
                    if op == "Lt":
                        return int(a < b)
                    if op == "Le":
                        return int(a <= b)
                    if op == "Gt":
                        return int(a > b)
                    if op == "Ge":
                        return int(a >= b)
                    if op in ("BitAnd",):
                        return a & b
                    if op in ("BitOr",):
                        return a | b
                except Exception:
                    return None
        return None

    @property
    def succ(self):
        """pruned successor lists: list per block of (label, target). Cleanup/unwind edges dropped,
        constant switches keep only their live edge."""
        if self._succ is None:
            res = []
            for bi, b in enumerate(self.blocks):
                t = b["t"]
                k = t["k"]
                if b.get("cleanup"):
                    res.append([])
                    continue
                if k == "goto":
                    res.append([(None, t["t"])])
                elif k == "switch":
                    d = self.operand_expr(t["discr"])
                    cv = self.const_of(d)
                    edges = self.switch_edges(bi)
                    if cv is not None:
                        live = None
                        for lab, tb in edges:
                            if lab[0] == "eq" and lab[1] == cv:
                                live = [(lab, tb)]
                        if live is None:
                            live = [edges[-1]]
                        # mark as pruned: label None so that no condition is derived
                        res.append([(("const", cv), live[0][1])])
                    else:
                        res.append(edges)
                elif k in ("call", "drop", "assert"):
                    if "t" in t:
                        res.append([(None, t["t"])])
                    else:
                        res.append([])
                elif k == "asm":
                    res.append([(None, x) for x in t.get("ts", [])])
                else:
                    res.append([])
            self._succ = res
        return self._succ

    @property
    def live(self):
        """blocks reachable from entry in the pruned CFG"""
        if self._live is None:
            self._live = self.reach_from(0)
        return self._live

    def reach_from(self, start, edge_ok=None, block_ok=None):
        seen = set()
        work = [start]
        while work:
            b = work.pop()
            if b in seen:
                continue
            if block_ok and not block_ok(b):
                continue
            seen.add(b)
            for lab, tb in self.succ[b]:
                if edge_ok and not edge_ok(b, lab, tb):
                    continue
                if tb not in seen:
                    work.append(tb)
        return seen

    def preds(self):
        p = defaultdict(list)
        for b in self.live:
            for lab, tb in self.succ[b]:
                p[tb].append((b, lab))
        return p

    def exits(self):
        """live blocks that leave the function: (bb, kind) kind in return/diverge/unreachable"""
        out = []
        for b in sorted(self.live):
            t = self.blocks[b]["t"]
            k = t["k"]
            if k == "return":
                out.append((b, "return"))
            elif k == "call" and "t" not in t:
                out.append((b, "diverge"))
            elif k == "tailcall":
                out.append((b, "return"))
            elif k == "unreachable":
                out.append((b, "unreachable"))
        return out

    # ---- dominators on the edge-split graph ----------------------------------------------------
    def _build_dom(self):
        # nodes: ('b', i) and ('e', i, k) for the k-th successor edge of block i
        succ = {}
        for b in self.live:
            outs = []
            for k, (lab, tb) in enumerate(self.succ[b]):
                en = ("e", b, k)
                outs.append(en)
                succ[en] = [("b", tb)]
            succ[("b", b)] = outs
        entry = ("b", 0)
        # reverse postorder
        order = []
        seen = set()
        stack = [(entry, iter(succ.get(entry, [])))]
        seen.add(entry)
        while stack:
            n, it = stack[-1]
            adv = False
            for m in it:
                if m not in seen:
                    seen.add(m)
                    stack.append((m, iter(succ.get(m, []))))
                    adv = True
                    break
            if not adv:
                order.append(n)
                stack.pop()
        order.reverse()
        idx = {n: i for i, n in enumerate(order)}
        preds = defaultdict(list)
        for n in order:
            for m in succ.get(n, []):
                preds[m].append(n)
        idom = {entry: entry}

        def intersect(a, b):
            while a != b:
                while idx[a] > idx[b]:
                    a = idom[a]
                while idx[b] > idx[a]:
                    b = idom[b]
            return a

        changed = True
        while changed:
            changed = False
            for n in order[1:]:
                new = None
                for p in preds[n]:
                    if p in idom:
                        new = p if new is None else intersect(p, new)
                if new is not None and idom.get(n) != new:
                    idom[n] = new
                    changed = True
        self._dom = idom

    def dominators_of(self, bb):
        """list of dominating nodes of block bb (excluding itself), nearest first; nodes are
        ('b', i) or ('e', i, k)"""
        if self._dom is None:
            self._build_dom()
        n = ("b", bb)
        out = []
        if n not in self._dom:
            return out
        while self._dom[n] != n:
            n = self._dom[n]
            out.append(n)
        return out

    def dominates(self, a, b):
        """block a dominates block b"""
        if a == b:
            return True
        return ("b", a) in self.dominators_of(b)

    def dominating_atoms(self, bb):
        """canonical atoms of all switch edges that dominate block bb"""
        atoms = []
        for n in self.dominators_of(bb):
            if n[0] == "e":
                _, b, k = n
                lab, tb = self.succ[b][k]
                if lab is None or lab[0] == "const":
                    continue
                for a in self.edge_atoms(b, lab):
                    atoms.append(a)
        return atoms

    # ---- state-machine arms -------------------------------------------------------------------
    def enum_switches(self, adt_suffix, min_targets=3):
        """live switch blocks on the discriminant of an enum whose path ends with adt_suffix"""
        out = []
        for b in sorted(self.live):
            t = self.blocks[b]["t"]
            if t["k"] != "switch" or len(t["targets"]) < min_targets:
                continue
            d = strip_casts(self.operand_expr(t["discr"]))
            if d[0] == "discr" and strip_ty(d[2] or "").endswith(adt_suffix):
                out.append(b)
        return out

    def arm_regions(self, sw):
        """variant name -> set of blocks dominated by that variant's switch target"""
        t = self.blocks[sw]["t"]
        d = strip_casts(self.operand_expr(t["discr"]))
        adt = d[2]
        by_target = {}
        for v, tb in t["targets"]:
            name = self.prog.variant_name(adt, v) or str(v)
            by_target.setdefault(tb, []).append(name)
        domsets = {}
        for b in self.live:
            ds = self.dominators_of(b)
            for n in ds + [("b", b)]:
                if n[0] == "b" and n[1] in by_target:
                    domsets.setdefault(n[1], set()).add(b)
        regions = {}
        for tb, names in by_target.items():
            for nm in names:
                regions[nm] = domsets.get(tb, set())
        return regions

    @property
    def debug_branches(self):
        """switch blocks that implement the condition of a debug_assert!: one of their edges leads
        straight to a diverging panic call expanded from debug_assert*"""
        if self._debug_branches is None:
            out = set()
            for b in self.live:
                if self.blocks[b]["t"]["k"] != "switch":
                    continue
                for lab, tb in self.succ[b]:
                    cur = tb
                    for _ in range(8):
                        t = self.blocks[cur]["t"]
                        if t["k"] == "call" and "t" not in t:
                            if any(e.startswith("debug_assert") for e in t.get("exp", [])):
                                out.add(b)
                            break
                        su = self.succ[cur]
                        if len(su) != 1 or t["k"] == "switch":
                            break
                        cur = su[0][1]
            self._debug_branches = out
        return self._debug_branches

    # ---- atoms -------------------------------------------------------------------------------
    def edge_atoms(self, bb, lab, include_debug=False, expand=True):
        """atoms that hold when leaving block bb through the switch edge labelled lab.
        Branches that belong to a debug_assert! expansion yield no atoms: they do not exist in
        builds without debug assertions and must not count as guards."""
        t = self.blocks[bb]["t"]
        if not include_debug and bb in self.debug_branches:
            return []
        d = self.operand_expr(t["discr"])
        dty = t.get("discr_ty", "")
        ats = atoms_of(self, d, dty, lab)
        return self._expand_named_bools(ats) if expand else ats

    def _expand_named_bools(self, ats, depth=0):
        """`let ok = a && b; if ok {..}`: the branch on the named boolean is a branch on a and on b.  A boolean local with
        several definitions of which exactly one is not the constant false can only be true through that definition: its
        value expression, and the conditions under which that definition is reached, hold on the true edge."""
        if depth > 3:
            return ats
        out = list(ats)
        for a in ats:
            if a[0] != "truth" or a[2] is not True or a[1][0] != "v":
                continue
            loc = a[1][1]
            key = ("nb", loc)
            if key in self._nb_active:
                continue
            srcs = []
            for bi, si, rv in self.defs.get(loc, []):
                if bi not in self.live or rv is None:
                    continue
                e = self.call_expr(rv) if si == "call" else self.rvalue_expr(rv)
                if self.const_of(e) == 0:
                    continue
                srcs.append((bi, e))
            if len(srcs) != 1 or len(self.defs.get(loc, [])) < 2:
                continue
            bi, e = srcs[0]
            self._nb_active.add(key)
            try:
                if self.const_of(e) != 1:
                    out += self._expand_named_bools(bool_atoms(self, e, True), depth + 1)
                out += self.dominating_atoms(bi)
            finally:
                self._nb_active.discard(key)
        return out

    # ---- calls -------------------------------------------------------------------------------
    @property
    def calls(self):
        if self._calls is None:
            cs = []
            for bi, b in enumerate(self.blocks):
                if b.get("cleanup"):
                    continue
                t = b["t"]
                if t["k"] not in ("call", "tailcall"):
                    continue
                c = CallSite()
                c.fn = self
                c.bb = bi
                func = t["func"]
                if func.get("k") == "const" and "fn" in func:
                    c.callee = strip_generics(func.get("resolved") or func["fn"])
                    c.declared = strip_generics(func["fn"])
                    c.gargs = func.get("gargs", [])
                    c.krate = func.get("krate")
                    c.local = func.get("local")
                else:
                    c.callee = None
                    c.declared = None
                    c.gargs = []
                    c.krate = None
                    c.local = None
                c.raw = t
                c.line = t.get("line")
                c.exp = t.get("exp", [])
                c.dest = t.get("dest")
                c.target = t.get("t")
                c.args = None
                cs.append(c)
            self._calls = cs
        return self._calls

    def call_args(self, c):
        if c.args is None:
            c.args = [self.operand_expr(a) for a in c.raw["args"]]
        return c.args

    def live_calls(self, callee_rx=None):
        rx = re.compile(callee_rx) if callee_rx else None
        out = []
        for c in self.calls:
            if c.bb not in self.live:
                continue
            if rx and not (c.callee and rx.search(c.callee)):
                continue
            out.append(c)
        return out

    def callee_paths(self):
        return {c.callee for c in self.calls if c.callee and c.bb in self.live}

    def fn_refs(self):
        """function items mentioned as values (closures passed, fn pointers) in live blocks"""
        out = set()
        for bi in self.live:
            b = self.blocks[bi]
            for s in b["s"]:
                if s["k"] == "assign":
                    _collect_fn_refs(s["rv"], out)
            t = b["t"]
            if t["k"] == "call":
                for a in t["args"]:
                    if a.get("k") == "const" and "fn" in a:
                        out.add(strip_generics(a.get("resolved") or a["fn"]))
        return out

    def static_refs(self):
        """paths of statics referenced in live code"""
        if self._static_refs is None:
            out = set()
            import json as _json
            for bi in self.live:
                txt = _json.dumps(self.blocks[bi])
                for m in re.finditer(r'"static":\s*"([^"]+)"', txt):
                    out.add(m.group(1))
            self._static_refs = out
        return self._static_refs

    # ---- statements ---------------------------------------------------------------------------
    def assignments(self, live_only=True):
        """yield (bb, si, lhs_place_json, rv_json, stmt)"""
        for bi, b in enumerate(self.blocks):
            if b.get("cleanup") or (live_only and bi not in self.live):
                continue
            for si, s in enumerate(b["s"]):
                if s["k"] == "assign":
                    yield bi, si, s["lhs"], s["rv"], s

    def field_writes(self, live_only=True):
        """yield (bb, field_path_tuple, root_expr, rv_expr, stmt) for assignments whose lhs goes
        through at least one field projection; also call destinations"""
        for bi, si, lhs, rv, s in self.assignments(live_only):
            if "p" in lhs:
                pe = self.place_expr(lhs)
                fp = field_path(pe)
                if fp[1]:
                    yield bi, fp[1], fp[0], self.rvalue_expr(rv), s
        for c in self.calls:
            if live_only and c.bb not in self.live:
                continue
            if c.dest and "p" in c.dest:
                pe = self.place_expr(c.dest)
                fp = field_path(pe)
                if fp[1]:
                    yield c.bb, fp[1], fp[0], self.call_expr(c.raw), c.raw


def _collect_fn_refs(rv, out):
    for key in ("a", "b"):
        op = rv.get(key)
        if isinstance(op, dict) and op.get("k") == "const" and "fn" in op:
            out.add(strip_generics(op.get("resolved") or op["fn"]))
    for op in rv.get("ops", []):
        if op.get("k") == "const" and "fn" in op:
            out.add(strip_generics(op.get("resolved") or op["fn"]))
    if rv.get("k") == "agg" and rv.get("agg") == "closure":
        out.add(strip_generics(rv["def"]))


# ----------------------------------------------------------------------------------------------
# expression utilities
# ----------------------------------------------------------------------------------------------

def strip_casts(e):
    while True:
        if e[0] == "cast":
            e = e[1]
        elif e[0] == "call" and isinstance(e[1], str) and is_conversion(e[1]) and len(e[2]) >= 1:
            e = e[2][0]
        else:
            return e


_CONV = (
    "core::convert::From::from", "core::convert::Into::into", "core::clone::Clone::clone",
    "core::convert::AsRef::as_ref", "core::num::<impl usize>::from", "core::borrow::Borrow::borrow",
)


def is_conversion(callee):
    if callee in _CONV:
        return True
    if callee.endswith("as core::convert::From<u8>>::from") or "as core::convert::From<" in callee and callee.endswith(">::from"):
        return True
    if callee.endswith("as core::convert::Into<") or callee.endswith("::clone") and callee.startswith("<"):
        return True
    return False


def field_path(e):
    """(root, (field names...)) following field/deref/ref/downcast/index projections"""
    names = []
    while True:
        if e[0] == "f":
            names.append(e[2])
            e = e[1]
        elif e[0] in ("*", "&", "dc"):
            e = e[1]
        elif e[0] == "[]":
            names.append("[]")
            e = e[1]
        elif e[0] == "sub":
            e = e[1]
        elif e[0] == "cast":
            e = e[1]
        else:
            break
    names.reverse()
    return e, tuple(names)


def walk(e):
    """pre-order walk over sub-expressions"""
    stack = [e]
    while stack:
        x = stack.pop()
        if not isinstance(x, tuple) or not x:
            continue
        yield x
        tag = x[0]
        if tag in ("f", "*", "&", "dc", "cast", "discr", "sub", "ovf", "rep"):
            stack.append(x[1])
        elif tag == "[]":
            stack.append(x[1])
            stack.append(x[2])
        elif tag == "un":
            stack.append(x[2])
        elif tag == "bin":
            stack.append(x[2])
            stack.append(x[3])
        elif tag == "call":
            if isinstance(x[1], tuple):
                stack.append(x[1][1])
            for a in x[2]:
                stack.append(a)
        elif tag == "agg":
            for _, a in x[3]:
                stack.append(a)


def consts_in(e):
    return [x for x in walk(e) if x[0] == "c"]


def calls_in(e, rx=None):
    out = []
    for x in walk(e):
        if x[0] == "call" and isinstance(x[1], str):
            if rx is None or re.search(rx, x[1]):
                out.append(x)
    return out


def mentions_field(e, name):
    for x in walk(e):
        if x[0] == "f" and x[2] == name:
            return True
    return False


def mentions_const(e, val=None, defname=None):
    for x in walk(e):
        if x[0] == "c":
            if val is not None and x[1] == val:
                return True
            if defname is not None and x[2] and x[2].endswith(defname):
                return True
    return False


def fmt(e, fn=None, depth=0):
    """human readable rendering of an expression"""
    if not isinstance(e, tuple) or not e:
        return str(e)
    if depth > 12:
        return "…"
    t = e[0]
    r = lambda x: fmt(x, fn, depth + 1)
    if t == "c":
        if e[2]:
            return "%s" % (e[2].split("::")[-1] if e[1] is None else "%s(=%s)" % (e[2].split("::")[-1], e[1]))
        return repr(e[1]) if isinstance(e[1], str) else str(e[1])
    if t == "fn":
        return e[1].split("::")[-1]
    if t == "p":
        n = fn.local_name(e[1]) if fn else None
        return n or "arg%d" % e[1]
    if t == "v":
        n = fn.local_name(e[1]) if fn else None
        return n or "_%d" % e[1]
    if t == "f":
        return "%s.%s" % (r(e[1]), e[2])
    if t == "*":
        return "*%s" % r(e[1])
    if t == "&":
        return "&%s" % r(e[1])
    if t == "[]":
        return "%s[%s]" % (r(e[1]), r(e[2]))
    if t == "dc":
        return "%s as %s" % (r(e[1]), e[2])
    if t == "call":
        c = e[1] if isinstance(e[1], str) else "(*%s)" % r(e[1][1])
        c = "::".join(c.split("::")[-2:]) if isinstance(e[1], str) else c
        return "%s(%s)" % (c, ", ".join(r(a) for a in e[2]))
    if t == "bin":
        return "(%s %s %s)" % (r(e[2]), e[1], r(e[3]))
    if t == "un":
        return "%s(%s)" % (e[1], r(e[2]))
    if t == "cast":
        return "%s as %s" % (r(e[1]), e[2])
    if t == "discr":
        return "discr(%s)" % r(e[1])
    if t == "agg":
        return "%s::%s{…}" % (e[1], e[2]) if e[2] else "%s{…}" % e[1]
    return str(t)


# ----------------------------------------------------------------------------------------------
# atoms
# ----------------------------------------------------------------------------------------------
# ('cmp', op, a, b)      op in Lt Le Eq Ne (Gt/Ge swapped)
# ('truth', expr, bool)  boolean-valued expression (call) is true/false
# ('is', place_expr, frozenset(variants), positive)   enum discriminant test
# ('int', expr, frozenset(values), positive)          integer switch

def norm_cmp(op, a, b):
    if op in CMP_SWAP:
        return ("cmp", CMP_SWAP[op], b, a)
    return ("cmp", op, a, b)


def atoms_of(fn, d, dty, lab):
    """atoms holding on the edge `lab` of a switch on expression d"""
    if dty == "bool":
        if lab[0] == "eq":
            truth = bool(lab[1])
        else:
            # otherwise of a bool switch whose explicit targets are lab[1]
            truth = not bool(lab[1][0]) if len(lab[1]) == 1 else True
        return bool_atoms(fn, d, truth)
    # discriminant or integer
    dd = strip_casts(d)
    if dd[0] == "discr":
        adt = dd[2]
        if lab[0] == "eq":
            name = fn.prog.variant_name(adt, lab[1]) or lab[1]
            return [("is", dd[1], frozenset([name]), True, adt)]
        names = frozenset((fn.prog.variant_name(adt, v) or v) for v in lab[1])
        return [("is", dd[1], names, False, adt)]
    # switch values are bit patterns: give signed discriminants their mathematical value (`match level { -1 => .. }`)
    bits = {"i8": 8, "i16": 16, "i32": 32, "i64": 64, "isize": 64, "core::ffi::c_int": 32, "core::ffi::c_long": 64}.get(dty)

    def sv(v):
        if bits and isinstance(v, int) and v >= (1 << (bits - 1)):
            return v - (1 << bits)
        return v
    if lab[0] == "eq":
        return [("int", d, frozenset([sv(lab[1])]), True)]
    return [("int", d, frozenset(sv(v) for v in lab[1]), False)]


def bool_atoms(fn, d, truth):
    d0 = d
    d = strip_bool_noise(d)
    if d[0] == "un" and d[1] == "Not":
        return bool_atoms(fn, d[2], not truth)
    if d[0] == "bin" and d[1] in CMP_OPS:
        op = d[1] if truth else CMP_NEG[d[1]]
        return [norm_cmp(op, d[2], d[3])]
    if d[0] == "bin" and d[1] in ("BitAnd",) and truth:
        # non-short-circuit a & b (bools): both hold
        return bool_atoms(fn, d[2], True) + bool_atoms(fn, d[3], True)
    if d[0] == "bin" and d[1] in ("BitOr",) and not truth:
        return bool_atoms(fn, d[2], False) + bool_atoms(fn, d[3], False)
    if d[0] == "call" and isinstance(d[1], str):
        c = d[1]
        m = re.search(r"ops::range::(RangeInclusive|Range)::<[^>]*>::contains$|ops::range::(RangeInclusive|Range)::contains$", c)
        if m and len(d[2]) == 2:
            r = deref_ref(d[2][0])
            x = deref_ref(d[2][1])
            lo = hi = None
            incl = "RangeInclusive" in c
            if r[0] == "call" and isinstance(r[1], str) and r[1].endswith("RangeInclusive::new") and len(r[2]) == 2:
                lo, hi = r[2]
            elif r[0] == "agg" and r[3]:
                fl = dict(r[3])
                lo, hi = fl.get("start"), fl.get("end")
            if lo is not None and hi is not None:
                return [("range", x, lo, hi, incl, truth)]
        # PartialEq / PartialOrd calls on non-primitive types
        m = re.search(r"(?:PartialEq(?:<[^>]*>)?>?::|cmp::PartialEq::)(eq|ne)$", c)
        if m and len(d[2]) == 2:
            op = "Eq" if m.group(1) == "eq" else "Ne"
            if not truth:
                op = CMP_NEG[op]
            return [norm_cmp(op, deref_ref(d[2][0]), deref_ref(d[2][1]))]
        m = re.search(r"(?:PartialOrd(?:<[^>]*>)?>?::|cmp::PartialOrd::)(lt|le|gt|ge)$", c)
        if m and len(d[2]) == 2:
            op = {"lt": "Lt", "le": "Le", "gt": "Gt", "ge": "Ge"}[m.group(1)]
            if not truth:
                op = CMP_NEG[op]
            return [norm_cmp(op, deref_ref(d[2][0]), deref_ref(d[2][1]))]
    return [("truth", d, truth)]


def deref_ref(e):
    if e[0] == "&":
        return e[1]
    return e


def strip_bool_noise(d):
    # `x as bool`-like copies and `core::intrinsics::likely(x)` style wrappers
    while True:
        if d[0] == "call" and isinstance(d[1], str) and d[1].split("::")[-1] in ("likely", "unlikely", "black_box") and len(d[2]) == 1:
            d = d[2][0]
        else:
            return d


def atom_str(a, fn=None):
    if a[0] == "cmp":
        sym = {"Lt": "<", "Le": "<=", "Eq": "==", "Ne": "!="}[a[1]]
        return "%s %s %s" % (fmt(a[2], fn), sym, fmt(a[3], fn))
    if a[0] == "truth":
        return ("" if a[2] else "!") + fmt(a[1], fn)
    if a[0] == "is":
        return "%s %s {%s}" % (fmt(a[1], fn), "is" if a[3] else "is not", ",".join(map(str, sorted(a[2], key=str))))
    if a[0] == "int":
        return "%s %s {%s}" % (fmt(a[1], fn), "in" if a[3] else "not in", ",".join(map(str, sorted(a[2]))))
    if a[0] == "range":
        return "%s %s %s..%s%s" % (fmt(a[1], fn), "in" if a[5] else "not in", fmt(a[2], fn), "=" if a[4] else "", fmt(a[3], fn))
    return str(a)
