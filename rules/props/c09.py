"""C09 — adler32/crc32 and their combine functions equal the mathematical definitions.
Decided clause (tables/constants only): CRC tables, x^(2^n) table, fold constants, BASE, NMAX equal
their definitions; every Adler kernel's deferred-modulo stride derives from NMAX and both sums are
reduced; every dispatcher falls through to the portable kernel."""
import os
import re
import sys

from .. import consts, mir, shape, atoms, sig, flow
from ..core import where
from ..ctx import prog, Z

sys.path.insert(0, os.path.join(os.path.dirname(os.path.abspath(__file__)), "..", ".."))
from oracles import crcmath, zlibng_ref  # noqa: E402

EXPLANATION = (
    "CONST (recomputed from the mathematical definitions, exhaustive): CRC32_BYTE_TABLE (256), CRC32_WORD_TABLE (8x256), "
    "Crc32BraidTable::<5>::TABLE (8x256, the instantiation crc32_braid uses), X2N_TABLE[n] = x^(2^n) mod P by repeated "
    "squaring, CRC32_LSB_POLY, the PCLMULQDQ fold constants as x^k mod P (k = 480/544, 96/160, 64, 32) and the Barrett/initial "
    "constants against zlib-ng's templates, masks; Adler BASE (largest prime < 2^16) and NMAX (largest n with "
    "255n(n+1)/2+(n+1)(BASE-1) < 2^32). ATOM: each Adler kernel in the build bounds the bytes between two reductions by NMAX "
    "(chunk size NMAX/vector width, min(len, NMAX), chunks_exact(NMAX)) and reduces both sums mod BASE; crc32() sends < 64 bytes "
    "to the braid kernel; adler32/crc dispatchers can reach the portable kernel. ABSINT: adler32_combine is abstractly interpreted "
    "(intervals + polynomial congruences modulo BASE over the MIR, branches refine, paths join): for all Adler-32 arguments and all "
    "lengths the two halves of the result are in [0, BASE) and congruent to a1+a2-1 and b1+b2+len2*(a1-1), i.e. equal to the "
    "checksum of the concatenation, and no operation wraps. The vector arithmetic itself, tail handling and crc32_combine's "
    "GF(2) loop are NOT decided. "
    "FLOW/crc-start: crc32() builds its fold state with new_with_initial(start) and passes start to fold; the fallbacks of Crc32Fold::fold continue from self.value.")

CLAIM = dict(
    text="Static: every checksum table and folding constant is recomputed from the polynomial / prime definitions and compared "
         "entry by entry with the compiler-evaluated constants (about 4400 entries, exhaustive); deferred-modulo strides are "
         "checked to derive from NMAX; adler32_combine is proved equal to its definition for all arguments by abstract "
         "interpretation (intervals and congruences modulo BASE) of its MIR. A wrong entry gives a wrong checksum for some "
         "input (necessary condition). The SIMD arithmetic and crc32_combine's loop are not decided.",
    note="Trusted: rustc const evaluation; oracles/crcmath.py (definitions); zlib-ng template constants for the two constants "
         "not re-derived (Barrett mu, initial state). Only x86_64 kernels are in the analysed build (K1; K3/K3b for AVX-512/VPCLMULQDQ).",
    technique="constant tables recomputed from mathematical definitions and compared via compiler const evaluation; abstract interpretation (interval + congruence domain) of adler32_combine",
)

ELEM_SIZE = {"core::core_arch::x86::__m256i": 32, "core::core_arch::x86::__m512i": 64, "core::core_arch::x86::__m128i": 16, "u8": 1}


def lanes64(v):
    """u64 lanes of a SIMD constant dumped as {'0': [i64, i64]} or {'bytes':..}"""
    if isinstance(v, dict) and "0" in v:
        return [x & 0xFFFFFFFFFFFFFFFF for x in v["0"]]
    if isinstance(v, dict) and "bytes" in v:
        b = v["bytes"]
        return [int.from_bytes(b[i:i + 8], "little") for i in range(0, len(b), 8)]
    raise consts.ConstError("not a SIMD constant: %r" % (v,))


def crc_consts(ck, P, cfg):
    R = "CONST/crc"
    def get(path):
        try:
            return consts.get(P, Z + path)
        except consts.ConstError as e:
            ck.anchor("const %s (%s)" % (path, cfg), False)
            return None
    n = 0
    poly = get("crc32::braid::CRC32_LSB_POLY")
    ck.decide(poly == crcmath.POLY_REFLECTED, R, "CRC32_LSB_POLY", "0xEDB88320", "polynomial constant is %s" % (hex(poly) if poly is not None else None))
    bt = get("crc32::braid::CRC32_BYTE_TABLE")
    if bt is not None:
        want = crcmath.byte_table()
        bad = [i for i in range(256) if bt[0][i] != want[i]]
        ck.decide(len(bt) == 1 and not bad, R, "CRC32_BYTE_TABLE", "256 entries = n*x^8 mod P", "byte table differs at %d entries, first index %s" % (len(bad), bad[:1]))
        n += 256
    wt = get("crc32::braid::CRC32_WORD_TABLE")
    if wt is not None:
        want = crcmath.braid_table(len(wt), 1, len(wt))
        bad = [(i, j) for i in range(len(wt)) for j in range(256) if wt[i][j] != want[i][j]]
        ck.decide(len(wt) == 8 and not bad, R, "CRC32_WORD_TABLE", "8x256 entries = j*x^(8*(8-i)) mod P", "word table differs at %d entries, first %s" % (len(bad), bad[:1]))
        n += 8 * 256
    it = P.item(Z + "crc32::braid::Crc32BraidTable::TABLE")
    if ck.anchor("generic const Crc32BraidTable::TABLE", it is not None):
        # which N does the library use?
        ns = set()
        for f in P.fns.values():
            for c in f.live_calls(r"crc32::braid::crc32_braid$"):
                for g in c.gargs:
                    if g.isdigit():
                        ns.add(int(g))
        ck.decide(ns == {5}, R, "braid:N", "crc32_braid instantiated with N=5 only", "crc32_braid is instantiated with N in %s (table checked for 5)" % sorted(ns))
        for inst in it.get("insts", []):
            if inst["n"] not in ns:
                continue
            tbl = consts.value(inst)
            want = crcmath.braid_table(len(tbl), inst["n"], len(tbl))
            bad = [(i, j) for i in range(len(tbl)) for j in range(256) if tbl[i][j] != want[i][j]]
            ck.decide(not bad, R, "Crc32BraidTable<%d>::TABLE" % inst["n"], "8x256 entries = j*x^(8*(8*N-i)) mod P",
                      "braid table N=%d differs at %d entries, first %s" % (inst["n"], len(bad), bad[:1]))
            n += 8 * 256
        ck.decide(any(i["n"] in ns for i in it.get("insts", [])), R, "braid:evaluated", "instantiation evaluated", "no evaluated instantiation of the braid table for N in %s" % sorted(ns))
    x2n = get("crc32::combine::X2N_TABLE")
    if x2n is not None:
        want = crcmath.x2n_table()
        bad = [i for i in range(32) if x2n[i] != want[i]]
        ck.decide(len(x2n) == 32 and not bad, R, "X2N_TABLE", "x^(2^n) mod P for n<32", "X2N_TABLE differs at indices %s" % bad[:4])
        n += 32
    # combine shape: gen(len2) = x2nmodp(len2, 3); op = multmodp(op, crc1) ^ crc2
    g = P.fn(Z + "crc32::combine::crc32_combine_gen")
    if ck.anchor("fn crc32_combine_gen", g):
        e = g.local_expr(0)
        ok = e[0] == "call" and e[1].endswith("x2nmodp") and atoms.cval(e[2][1]) == 3
        ck.decide(ok, R, "crc32_combine_gen", "x2nmodp(len2, 3)", "crc32_combine_gen is %s" % mir.fmt(e, g), where(g))
    # fold constants
    ref = zlibng_ref.load()
    ngset = set(ref.get("x86_fold_constants", []))
    A = "crc32::pclmulqdq::Accumulator::"
    fold = {
        A + "XMM_FOLD4": [crcmath.fold_const(480), crcmath.fold_const(544)],
        A + "finish::RK1_RK2": [crcmath.fold_const(96), crcmath.fold_const(160)],
        A + "finish::RK5_RK6": [crcmath.fold_const(96), crcmath.fold_const(64)],
        A + "finish::RK7_RK8": [None, crcmath.fold_const(32)],
        A + "finish::CRC_MASK1": [0xFFFFFFFFFFFFFFFF, 0],
        A + "finish::CRC_MASK2": [0xFFFFFFFF00000000, 0xFFFFFFFFFFFFFFFF],
    }
    for path, want in fold.items():
        v = get(path)
        if v is None:
            continue
        got = lanes64(v)
        okm = all(w is None or g_ == w for g_, w in zip(got, want))
        lanes32 = [x & 0xFFFFFFFF for x in got] + [x >> 32 for x in got]
        okn = all(l in ngset or l in (0, 0xFFFFFFFF) for l in lanes32)
        ck.decide(okm, R, path.split("::")[-1], "lanes = x^k mod P (<<1) for the documented exponents",
                  "%s is %s, definition gives %s" % (path, [hex(x) for x in got], [hex(w) if w is not None else "mu" for w in want]))
        ck.decide(okn, R, path.split("::")[-1] + "~zlib-ng", "all 32-bit lanes occur in zlib-ng's templates",
                  "%s has a lane that zlib-ng's PCLMULQDQ templates do not contain: %s" % (path, [hex(x) for x in lanes32]))
        n += 2
    ps = get(A + "partial_fold::PSHUFB_SHF_TABLE")
    if ps is not None:
        l32 = []
        for v in ps:
            for x in lanes64(v):
                l32 += [x & 0xFFFFFFFF, x >> 32]
        ck.decide(all(x in ngset for x in l32), R, "PSHUFB_SHF_TABLE~zlib-ng", "%d lanes occur in zlib-ng's table" % len(l32), "shuffle table differs from zlib-ng's")
        n += len(l32)
    # initial accumulator constant
    an = P.fn(Z + A + "new")
    if ck.anchor("fn Accumulator::new", an):
        cs = shape.fn_int_consts(an)
        ck.decide(0x9db42487 in cs and 0x9db42487 in ngset, R, "Accumulator::new:crc0", "initial fold state 0x9db42487 (zlib-ng)",
                  "initial fold state constant changed (constants %s)" % sorted(hex(c) for c in cs if c > 0xffff))
    return n


def adler_consts(ck, P):
    R = "CONST/adler"
    try:
        base = consts.get(P, Z + "adler32::BASE")
        nmax = consts.get(P, Z + "adler32::NMAX")
        cb = consts.get(P, Z + "adler32::adler32_combine::BASE")
    except consts.ConstError as e:
        ck.anchor("adler constants (%s)" % e, False)
        return
    ck.decide(base == crcmath.adler_base(), R, "BASE", "largest prime below 2^16 = %d" % crcmath.adler_base(), "BASE is %s" % base)
    ck.decide(nmax == crcmath.adler_nmax(), R, "NMAX", "largest n with 255n(n+1)/2+(n+1)(BASE-1) <= 2^32-1 = %d" % crcmath.adler_nmax(), "NMAX is %s" % nmax)
    ck.decide(cb == base, R, "adler32_combine::BASE", "same modulus", "adler32_combine uses modulus %s" % cb)


def adler_combine_proof(ck, P):
    """ABSINT: adler32_combine, for all valid arguments, returns the Adler-32 of the concatenation.
    Spec (from the definition a = 1 + sum bytes, b = sum of the running a): for A then B with |B| = len2,
      a(AB) = a1 + a2 - 1,  b(AB) = b1 + b2 + len2*(a1 - 1)   (mod BASE), each half in [0, BASE)."""
    from .. import absint
    R = "ABSINT/adler32-combine"
    fn = P.fn(Z + "adler32::adler32_combine")
    if not ck.anchor("fn adler32::adler32_combine", fn):
        return
    ck.use_fn(fn)
    B = crcmath.adler_base()
    names = [fn.locals[i].get("ty") for i in range(1, fn.arg_count + 1)]
    if not ck.anchor("adler32_combine(u32, u32, u64)", names == ["u32", "u32", "u64"], where(fn)):
        return

    def half(taint, mask):
        # precondition: both checksum arguments are Adler-32 values, i.e. each 16-bit half is < BASE
        if mask == 0xffff and taint[0] in (1, 2) and taint[1] in (0, 16):
            return ("%s%d" % ("a" if taint[1] == 0 else "b", taint[0]), B - 1)
        return None

    it = absint.Interp(fn, B, {3: "len2"}, half)
    res = it.run()
    for line, text in it.failed:
        ck.bad(R, "no-wrap", "arithmetic of adler32_combine is not proved free of wrap-around: %s" % text, where(fn, line))
    if not it.failed:
        ck.ok(R, "no-wrap", "%d arithmetic operations proved not to wrap (so the debug overflow assertions are dead)" % it.ops)
    PM = absint.Poly
    a1, a2, b1, b2, n = (PM.sym(B, x) for x in ("a1", "a2", "b1", "b2", "len2"))
    spec_lo = a1.add(a2).sub(PM.const(B, 1))
    spec_hi = b1.add(b2).add(n.mul(a1)).sub(n)
    parts = res.parts if res is not None else None
    ok_shape = bool(parts) and parts[0] is not None and parts[2] == 16
    ck.decide(ok_shape, R, "result-shape", "result = low | (high << 16)",
              "the return value of adler32_combine is not recognisably low | (high << 16): %r" % (res,), where(fn))
    if not ok_shape:
        return
    lo, hi = parts[0], parts[1]
    ck.decide(lo.poly == spec_lo, R, "low-half:congruence", "low half == a1 + a2 - 1 (mod %d)" % B,
              "low half is congruent to %r, the definition gives %r (mod %d)" % (lo.poly, spec_lo, B), where(fn))
    ck.decide(hi.poly == spec_hi, R, "high-half:congruence", "high half == b1 + b2 + len2*(a1 - 1) (mod %d)" % B,
              "high half is congruent to %r, the definition gives %r (mod %d)" % (hi.poly, spec_hi, B), where(fn))
    ck.decide(0 <= lo.lo and lo.hi < B, R, "low-half:reduced", "low half in [%d, %d]" % (lo.lo, lo.hi),
              "low half can be as large as %d >= BASE on some path: it is not fully reduced modulo %d" % (lo.hi, B), where(fn))
    ck.decide(0 <= hi.lo and hi.hi < B, R, "high-half:reduced", "high half in [%d, %d]" % (hi.lo, hi.hi),
              "high half can be as large as %d >= BASE on some path (a reduction step is skipped for part of its range): "
              "it is not fully reduced modulo %d" % (hi.hi, B), where(fn))
    ck.sample("adler32_combine: low %r, high %r" % (lo, hi))


def adler_kernels(ck, P, cfg):
    R = "ATOM/adler-stride"
    kernels = [
        (r"adler32::generic::adler32_rust$", "generic"),
        (r"adler32::avx2::adler32_avx2_help$", "avx2"),
        (r"adler32::avx512::adler32_avx512_help$", "avx512"),
        (r"adler32::avx512_vnni::adler32_avx512_vnni$", "avx512_vnni"),
    ]
    found = 0
    for rx, name in kernels:
        fn = P.one_fn(rx)
        if fn is None:
            continue
        found += 1
        ck.use_fn(fn)
        # sites that bound a run by NMAX: chunks*(NMAX..) or min(len, NMAX)
        okk = False
        detail = ""
        for c in fn.live_calls(r"slice::<impl \[T\]>::chunks(_exact)?$|core::slice::chunks(_exact)?$|::chunks(_exact)?$|cmp::Ord::min$|::min$"):
            args = fn.call_args(c)
            nmax_item = P.item(Z + "adler32::NMAX") or {}
            for a in args:
                if not mir.mentions_const(a, defname="NMAX"):
                    # the run length as a named constant of its own (`const VECTORS_PER_STEP: usize = NMAX as usize / 32`): decided
                    # on its value
                    v_ = fn.const_of(a)
                    if isinstance(v_, int) and v_ > 1 and isinstance(nmax_item.get("val"), int) and c.callee.split("::")[-1].startswith("chunks"):
                        esz_ = 1
                        for g in c.gargs:
                            if g in ELEM_SIZE:
                                esz_ = ELEM_SIZE[g]
                        if esz_ > 1 or v_ * esz_ > 64:
                            if v_ * esz_ <= nmax_item["val"]:
                                okk = True
                                detail = "%s(%d) over %d-byte elements" % (c.callee.split("::")[-1], v_, esz_)
                            else:
                                detail = "%s(%d) over %d-byte elements exceeds NMAX bytes per run" % (c.callee.split("::")[-1], v_, esz_)
                    continue
                e = mir.strip_casts(a)
                esz = 1
                for g in c.gargs:
                    if g in ELEM_SIZE:
                        esz = ELEM_SIZE[g]
                div = 1
                if e[0] == "bin" and e[1] == "Div":
                    d = atoms.cval(e[3])
                    div = d if d else 0
                elif e[0] == "bin":
                    div = 0
                # bytes per run = (NMAX / div) * esz <= NMAX  <=>  div >= esz
                if div >= esz and div > 0:
                    okk = True
                    detail = "%s(%s) over %d-byte elements" % (c.callee.split("::")[-1], mir.fmt(a, fn), esz)
                else:
                    detail = "%s(%s) over %d-byte elements exceeds NMAX bytes per run" % (c.callee.split("::")[-1], mir.fmt(a, fn), esz)
        ck.decide(okk, R, "%s@%s" % (name, cfg), "run bounded by NMAX: " + detail,
                  "Adler kernel %s does not bound the bytes between two modulo reductions by NMAX (%s): the 32-bit sums can overflow" % (fn.path, detail or "no NMAX-derived bound found"), where(fn))
        # both sums reduced mod BASE
        rems = 0
        group = [fn] + [P.fns[c] for c in fn.callee_paths() if c in P.fns and P.fns[c].module == fn.module]
        for g in group:
            for bi, si, lhs, rv, s in g.assignments():
                e = g.rvalue_expr(rv)
                if e[0] == "bin" and e[1] == "Rem" and mir.mentions_const(e[3], defname="BASE"):
                    rems += 1
        ck.decide(rems >= 2, "ATOM/adler-reduce", "%s@%s" % (name, cfg), "%d reductions mod BASE" % rems,
                  "Adler kernel %s reduces fewer than two sums modulo BASE" % fn.path, where(fn))
        # ... and at the same places: wherever one running sum is reduced (inside the loop over NMAX-sized runs, or after it),
        # the other one is reduced in the same loop as well - a sum that is carried unreduced through the runs overflows
        for g in group:
            by_loop = {}
            for bi, si, lhs, rv, s in g.assignments():
                e = g.rvalue_expr(rv)
                if e[0] == "bin" and e[1] == "Rem" and mir.mentions_const(e[3], defname="BASE") and not lhs.get("p"):
                    by_loop.setdefault(_innermost_loop(g, bi), set()).add(g.local_name(lhs["l"]) or lhs["l"])
            for lp, names in sorted(by_loop.items(), key=lambda kv: str(kv[0])):
                ck.decide(len(names) >= 2, "ATOM/adler-reduce", "%s@%s:%s:%s" % (name, cfg, g.path.split("::")[-1], "loop" if lp is not None else "tail"),
                          "both sums reduced here (%s)" % sorted(map(str, names)),
                          "%s reduces only %s modulo BASE %s: the other running sum is carried on unreduced and overflows 32 bits after a few "
                          "runs of NMAX bytes" % (g.path, sorted(map(str, names)), "inside its loop over the runs" if lp is not None else "after its loop"),
                          where(g))
    return found


def _innermost_loop(fn, bb):
    """header of the smallest natural loop containing bb, or None"""
    best = None
    for u in fn.live:
        for lab, h in fn.succ[u]:
            if h in fn.live and fn.dominates(h, u):
                # natural loop of the back edge u -> h
                body = {h}
                work = [u]
                preds = fn.preds()
                while work:
                    x = work.pop()
                    if x in body:
                        continue
                    body.add(x)
                    for p_, _l in preds.get(x, []):
                        if p_ in fn.live:
                            work.append(p_)
                if bb in body and (best is None or len(body) < best[0]):
                    best = (len(body), h)
    return best[1] if best else None


def dispatch_shape(ck, P, cfg):
    R = "CUT/portable-fallback"
    ad = P.fn(Z + "adler32::adler32")
    if ck.anchor("fn adler32::adler32", ad):
        ck.use_fn(ad)
        port = ad.live_calls(r"adler32::generic::adler32_rust$")
        simd = [c.bb for c in ad.live_calls() if c.callee and c.callee.startswith(Z + "adler32::") and "generic" not in c.callee]
        if cfg == "K3b":
            # compile-time AVX-512: the dispatcher returns the AVX-512 kernel unconditionally; portable fallback is dead by cfg!
            ck.ok(R, "adler32@" + cfg, "compile-time feature build: dispatch decided by cfg!")
        else:
            ok = bool(port) and flow.reaches_avoiding(ad, [0], [port[0].bb], cut_blocks=simd)
            ck.decide(ok, R, "adler32@" + cfg, "portable kernel reachable when every probe fails",
                      "adler32() cannot reach the portable kernel without a SIMD kernel call", where(ad))
    cr = P.fn(Z + "crc32::crc32")
    if ck.anchor("fn crc32::crc32", cr):
        ck.use_fn(cr)
        # the module's thin wrapper or, when that is folded into crc32(), the braid kernel itself
        br = cr.live_calls(r"crc32::(braid::)?crc32_braid$")
        okb = False
        for c in br:
            ss = shape.dominating_sigs(cr, c.bb)
            okb = okb or any(s.rel == "Le" and 63 in s.hi_consts and any("len" in c2 for c2 in s.lo_calls) for s in ss) or \
                any(s.rel in ("Lt", "Le") and (63 in s.consts or 64 in s.consts) for s in ss)
        ck.decide(okb, "ATOM/crc-short", "crc32@" + cfg, "buffers shorter than 64 bytes go to the braid kernel",
                  "crc32() no longer routes short (< 64 byte) buffers to the braid kernel: the fold kernel requires 64 bytes on its first call", where(cr))
    for m in ("fold", "finish"):
        f = P.fn(Z + "crc32::Crc32Fold::" + m)
        if not ck.anchor("fn Crc32Fold::" + m, f):
            continue
        ck.use_fn(f)
        if m == "fold":
            # the portable kernel, directly or through the module's thin wrapper of it
            port = f.live_calls(r"crc32::braid::crc32_braid$")
            if not port:
                port = [c for c in f.live_calls(r"crc32::crc32_braid$")
                        if c.callee in P.fns and P.fns[c.callee].live_calls(r"crc32::braid::crc32_braid$")]
            simd = [c.bb for c in f.live_calls(r"pclmulqdq::Accumulator::fold$")]
            ok = bool(port) and flow.reaches_avoiding(f, [0], [port[0].bb], cut_blocks=simd)
            ck.decide(ok, R, "Crc32Fold::fold@" + cfg, "braid kernel reachable when the probe fails", "Crc32Fold::fold cannot reach the portable kernel", where(f))


def adler_final_reduction(ck, P, R="FLOW/adler-final-reduction"):
    """The portable Adler-32 helpers return `adler | (sum2 << 16)`.  Their callers hand in running sums that are not
    reduced (adler32_len_64 calls adler32_len_16 after up to NMAX bytes), so the last definition of both halves before
    the recombination has to be a full reduction `x % BASE` - one conditional subtraction is not enough."""
    base = crcmath.adler_base()
    n = 0
    for fn in sorted(P.fns.values(), key=lambda f: f.path):
        if not fn.path.startswith(Z + "adler32::generic::") or fn.is_promoted:
            continue
        # statements of the return block and of the straight-line blocks leading to it, in execution order
        preds = fn.preds()
        for rb, kind in fn.exits():
            if kind != "return":
                continue
            chain = [rb]
            cur = rb
            for _ in range(12):
                ps = [p for p, _l in preds.get(cur, []) if p in fn.live]
                if len(ps) != 1 or len(fn.succ[ps[0]]) != 1:
                    break
                cur = ps[0]
                chain.append(cur)
            stmts = []
            for b in reversed(chain):
                for st in fn.blocks[b]["s"]:
                    if st.get("k") == "assign" and not st["lhs"].get("p"):
                        stmts.append(st)
            # the recombination
            comb = None
            for i, st in enumerate(stmts):
                rv = st["rv"]
                if rv.get("k") == "bin" and rv.get("op") == "BitOr":
                    comb = i
            if comb is None:
                continue

            def source(op, upto):
                """follow plain copies backwards to the variable that is read"""
                l = op.get("l")
                for st in reversed(stmts[:upto]):
                    if st["lhs"]["l"] == l:
                        rv = st["rv"]
                        if rv.get("k") == "use" and rv["a"].get("k") in ("copy", "move") and not rv["a"].get("p"):
                            l = rv["a"]["l"]
                            continue
                        return l, st
                return l, None

            rv = stmts[comb]["rv"]
            halves = []
            for op in (rv["a"], rv["b"]):
                l, st = source(op, comb)
                if st is not None and st["rv"].get("k") == "bin" and st["rv"].get("op") == "Shl":
                    l, st = source(st["rv"]["a"], stmts.index(st))
                halves.append((l, st))
            n += 1
            bad = []
            for l, st in halves:
                ok = st is not None and st["rv"].get("k") == "bin" and st["rv"].get("op") == "Rem" and st["rv"]["b"].get("val") == base
                if not ok:
                    bad.append(fn.local_name(l) or "_%s" % l)
            ck.decide(not bad, R, fn.path.replace(Z, ""), "both halves are `% BASE` results when recombined",
                      "%s recombines %s without a full reduction modulo %d as its last definition: callers pass unreduced running sums, so "
                      "the half can stay >= BASE and the checksum is wrong (only on the portable kernel)" % (fn.path.replace(Z, ""), bad, base),
                      where(fn))
    ck.floor(R, n, 2)


def crc_start_flow(ck, P, R="FLOW/crc-start"):
    """crc32(start, buf): the back-ends of Crc32Fold::fold do not agree on where the running value comes from - the
    PCLMULQDQ accumulator takes it from fold's argument, the portable / ACLE / LoongArch paths continue from the `value`
    field.  So `start` has to reach both: the fold state is built with new_with_initial(start) and fold is given start."""
    fn = P.fn(Z + "crc32::crc32")
    if not ck.anchor("fn crc32::crc32", fn):
        return
    ck.use_fn(fn)
    start = fn.param_index("start") or 1
    ctor = fn.live_calls(r"crc32::Crc32Fold::new\w*$")
    folds = fn.live_calls(r"crc32::Crc32Fold::fold$")
    if not (ck.anchor("Crc32Fold constructor in crc32()", len(ctor) >= 1, where(fn)) and ck.anchor("Crc32Fold::fold in crc32()", len(folds) >= 1, where(fn))):
        return

    def from_start(e):
        return any(x == ("p", start) for x in mir.walk(e))
    okc = all(c.callee.endswith("::new_with_initial") and from_start(fn.call_args(c)[0]) for c in ctor)
    ck.decide(okc, R, "crc32:state-initial", "Crc32Fold::new_with_initial(start)",
              "crc32() builds its fold state without the caller's starting value (%s): every back-end that continues from the `value` "
              "field (portable braid, aarch64 CRC, loongarch) then ignores `start` - the result depends on the selected implementation"
              % ", ".join(c.callee.split("::")[-1] for c in ctor), where(fn, ctor[0].line))
    okf = all(len(fn.call_args(c)) >= 3 and from_start(fn.call_args(c)[2]) for c in folds)
    ck.decide(okf, R, "crc32:fold-arg", "fold(buf, start)", "crc32() does not hand `start` to Crc32Fold::fold (the PCLMULQDQ back-end takes it from there)",
              where(fn, folds[0].line))
    br = fn.live_calls(r"crc32::crc32_braid$|braid::crc32_braid$")
    ck.decide(bool(br) and all(from_start(fn.call_args(c)[0]) for c in br), R, "crc32:short-path", "crc32_braid(start, buf)",
              "the short-input path of crc32() does not start from `start`", where(fn))
    fo = P.fn(Z + "crc32::Crc32Fold::fold")
    if ck.anchor("fn Crc32Fold::fold", fo):
        ck.use_fn(fo)
        wr = [rv for bi, fp, root, rv, st in fo.field_writes() if fp[-1:] == ("value",)]
        ok = bool(wr) and all(mir.mentions_field(e, "value") for e in wr)
        ck.decide(ok, R, "Crc32Fold::fold:fallback", "value = kernel(value, src)", "a fallback of Crc32Fold::fold does not continue from self.value", where(fo))


def start_value_uses(ck, P, R="FLOW/crc-start"):
    """The start value handed to the PCLMULQDQ fold is data: it is xor-ed into the first vector and compared with the identity
    (0), nothing else.  A length, a branch threshold or an index derived from the *value* of a checksum (its leading zeros, its
    byte count) makes the result depend on how many significant bytes the running CRC happens to have."""
    fs = [f for f in P.fns.values() if f.path.endswith("crc32::pclmulqdq::Accumulator::fold_help")]
    if not ck.anchor("fn Accumulator::fold_help", len(fs) == 1):
        return
    f = fs[0]
    ck.use_fn(f)
    nargs = f.j.get("arg_count") or 6
    roots = [i for i, l in enumerate(f.locals) if l.get("name") == "init_crc" and 1 <= i <= nargs][:1]
    if not ck.anchor("parameter init_crc of fold_help", len(roots) == 1):
        return
    tainted, work = set(roots), list(roots)
    bad = []

    def mentions(node, loc):
        if isinstance(node, dict):
            if node.get("l") == loc and "k" in node and node["k"] in ("copy", "move"):
                return True
            if node.get("l") == loc and "p" not in node and set(node) <= {"l", "k"}:
                return True
            return any(mentions(v, loc) for v in node.values())
        if isinstance(node, list):
            return any(mentions(v, loc) for v in node)
        return False
    while work:
        loc = work.pop()
        for b in sorted(f.live):
            for st in f.blocks[b]["s"]:
                if st.get("k") != "assign" or not mentions(st.get("rv"), loc):
                    continue
                rv, lhs = st["rv"], st["lhs"]
                k = rv.get("k")
                if k in ("use", "cast") and set(lhs) == {"l"}:
                    if lhs["l"] not in tainted:
                        tainted.add(lhs["l"]); work.append(lhs["l"])
                elif k == "bin" and rv.get("op") in ("Eq", "Ne"):
                    pass                        # compared with the identity
                elif k == "agg":
                    pass                        # becomes a lane of the vector that is xor-ed in
                elif k == "ref":
                    pass                        # handed on by reference to the fold steps of this module
                else:
                    bad.append((st.get("line"), "%s %s" % (k, rv.get("op", ""))))
            t = f.blocks[b]["t"]
            if t.get("k") == "call" and mentions(t.get("args"), loc):
                callee = (t.get("func") or {}).get("fn") or ""
                if not (callee.startswith(Z + "crc32::") or callee.endswith("::reg")):
                    bad.append((t.get("line"), "call " + callee.split("::")[-1]))
    ck.decide(not bad, R, "fold_help:start-is-data", "init_crc is only xor-ed in, compared with 0 and handed on",
              "fold_help derives something else from the start value (%s): a decision that depends on how many significant bytes the "
              "running CRC has gives different results for different start values" % ", ".join(sorted({x[1].strip() for x in bad})),
              where(f, bad[0][0] if bad else None))


def run(ck):
    P = prog("K1")
    ck.configs.add("K1")
    n = crc_consts(ck, P, "K1")
    adler_consts(ck, P)
    adler_combine_proof(ck, P)
    combine_branch_free(ck, P)
    crc_start_flow(ck, P)
    start_value_uses(ck, P)
    adler_final_reduction(ck, P)
    k = adler_kernels(ck, P, "K1")
    ck.floor("ATOM/adler-stride:K1", k, 2)
    dispatch_shape(ck, P, "K1")
    P3 = prog("K3b")
    ck.configs.add("K3b")
    k3 = adler_kernels(ck, P3, "K3b")
    ck.floor("ATOM/adler-stride:K3b", k3, 4)
    ck.floor("FLOW/crc-start:vpclmulqdq", start_consumed_once(ck, P3, "K3b"), 1)
    # VPCLMULQDQ fold16 constant against zlib-ng
    ref = zlibng_ref.load()
    ngset = set(ref.get("x86_fold_constants", []))
    fh = P3.one_fn(r"crc32::vpclmulqdq::fold_help_vpclmulqdq$")
    if ck.anchor("fn fold_help_vpclmulqdq (K3b)", fh):
        cs = {c for c in shape.fn_int_consts(fh) if c > 0xffff}
        cs = {c & 0xFFFFFFFF for c in cs}
        need = {0x54442bd4, 0xc6e41596, 0x1542778a, 0x322d1430}
        ck.decide(need <= cs and need <= ngset, "CONST/crc", "vpclmulqdq fold constants", "fold4/fold16 constants equal zlib-ng's",
                  "VPCLMULQDQ fold constants differ from zlib-ng's (found %s)" % sorted(hex(c) for c in cs), where(fh))
        w16 = [crcmath.fold_const(k_) for k_ in (16 * 128 - 32, 16 * 128 + 32)]
        ck.decide({w & 0xFFFFFFFF for w in w16} <= cs, "CONST/crc", "vpclmulqdq fold16 exponents", "x^(2048∓32) mod P",
                  "fold16 constants are not x^(16*128∓32) mod P (want %s)" % [hex(w) for w in w16], where(fh))
    ck.extra["table_entries_compared"] = n
    ck.extra["exhaustive"] = True
    ck.assumptions += ["rustc const evaluation", "oracles/crcmath.py transcribes the polynomial and prime definitions",
                       "only the x86_64 kernels are compiled in the analysed configurations (aarch64/wasm/loongarch kernels not analysed)"]

# session 5 (round 10)
EXPLANATION = EXPLANATION + " " + (
    'ATOM/adler-reduce is evaluated per loop: wherever one running sum is reduced modulo BASE (inside the loop over NMAX-sized runs, or after it) the other is reduced in the same loop.')


def start_consumed_once(ck, P, cfg, R="FLOW/crc-start"):
    """The wide (VPCLMULQDQ) fold consumes the start value - it xors it into its first vector - and the 128-bit steps that follow in
    the caller would consume it again.  So every helper that reads the start value through a parameter and xors it into data
    takes it by `&mut` and stores the identity (0) back where it consumed it; a helper that takes it by value leaves the
    caller's copy live and the start value is folded in twice."""
    fs = [f for f in P.fns.values() if re.search(r"crc32::.*fold_help_vpclmulqdq$", f.path)]
    if not fs:
        ck.note("no VPCLMULQDQ fold in configuration %s" % cfg)
        return 0
    n = 0
    for f in fs:
        ck.use_fn(f)
        idx = f.param_index("init_crc")
        if not ck.anchor("parameter init_crc of %s" % f.path, bool(idx)):
            continue
        n += 1
        ty = str(f.locals[idx]["ty"])
        byref = ty.startswith("&mut ")
        stored = False
        for bi, si, lhs, rv, st in f.assignments():
            if lhs.get("l") == idx and lhs.get("p") == ["*"]:
                if f.const_of(f.rvalue_expr(rv)) == 0:
                    stored = True
        ck.decide(byref and stored, R, "fold_help_vpclmulqdq:consumed@%s" % cfg, "start value taken by &mut and reset to 0 where it is xor-ed in",
                  "%s takes the start value as `%s`%s: the caller's copy stays non-zero after the wide fold has xor-ed it into the data, "
                  "and the 128-bit steps that follow xor it in a second time (crc32(start != 0, ..) is wrong for aligned buffers of 256+ "
                  "bytes on AVX-512 builds)" % (f.path, ty, "" if stored else " and never stores 0 back"), where(f))
    return n

# session 5 (round 11)
EXPLANATION = EXPLANATION + " " + (
    'FLOW/crc-start:consumed (round 11, AVX-512 configuration K3b): the VPCLMULQDQ fold takes the start value by &mut and stores 0 where it xors it into the data, so the 128-bit steps that follow do not fold it in again.')


def combine_branch_free(ck, P, R="ATOM/combine-branch-free"):
    """crc32_combine(crc1, crc2, len2) = multmodp(x^(8 len2), crc1) ^ crc2, and the _gen/_op forms: pure arithmetic.  None of the
    three decides on the value of a checksum argument - a non-empty block can have any CRC, 0 included, so a shortcut for a
    special value of crc1/crc2 breaks combine(ck(A), ck(B), |B|) == ck(A || B) for exactly the blocks that hit it."""
    n = 0
    for name in ("crc32_combine", "crc32_combine_op"):
        f = P.fn(Z + "crc32::combine::" + name)
        if not ck.anchor("fn crc32::combine::" + name, f):
            continue
        ck.use_fn(f)
        n += 1
        crcs = {i for i in range(1, (f.arg_count or 0) + 1) if (f.local_name(i) or "").startswith("crc")}
        bad = []
        for b in sorted(f.live):
            t = f.blocks[b]["t"]
            if t["k"] != "switch" or b in f.debug_branches:
                continue
            d = f.operand_expr(t["discr"])
            if any(x[0] in ("p", "v") and x[1] in crcs for x in mir.walk(d)):
                bad.append(t.get("line"))
        ck.decide(not bad, R, name, "no branch on a checksum argument",
                  "%s branches on the value of a checksum argument: the combination is linear arithmetic for every value, and a "
                  "shortcut for one value (e.g. crc2 == 0 taken for an empty block) is wrong for non-empty blocks with that CRC" % f.path,
                  where(f, bad[0] if bad else None))
    ck.floor(R, n, 2)

# session 5 (round 12)
EXPLANATION = EXPLANATION + " " + (
    'ATOM/combine-branch-free (round 12): crc32_combine and crc32_combine_op do not branch on a checksum argument.')
