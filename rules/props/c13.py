"""C13 — preset dictionaries: announced, demanded, verified, and round-trip."""
from .. import mir, sig, shape, atoms, flow, decoders
from ..core import where
from ..ctx import prog, Z

EXPLANATION = (
    "SIB/ATOM (one condition, three places): State::header() sets FDICT, deflate() appends the dictionary Adler-32 (big-endian) "
    "and deflate::bound() adds 4 bytes under the same condition `strstart != 0`. deflate::set_dictionary rejects wrap == 2, "
    "wrap == 1 outside status Init and lookahead != 0; computes the Adler-32 only under wrap == 1; saves and restores wrap, "
    "next_in and avail_in around the window fill (PAIR). MODE (inflate): DictId is entered only from arm Head under the FDICT bit "
    "0x200; arm DictId stores zswap32(hold) into checksum and goes to Dict; arm Dict returns NeedDict unless HAVE_DICT; HAVE_DICT is "
    "set only by inflate::set_dictionary and cleared by reset_keep. ATOM in inflate::set_dictionary: wrap != 0 && mode != Dict -> "
    "StreamError; in mode Dict adler32(1, dict) != checksum -> DataError; the dictionary enters the window with update_checksum = "
    "false; inflate() publishes state.checksum as stream.adler. get_dictionary arithmetic and the actual round trip are not decided. "
    "GUARD/get-dictionary: deflateGetDictionary copies min(strstart + lookahead, w_size) bytes ending at the current position, only to a non-null destination. SIB/ref-writes for deflateSetDictionary/inflateSetDictionary. "
    "SIB/ref-conditions: the elementary conditions and calls of the zlib-ng functions this code was ported from (oracles/condparity.json, frozen from the vendored C sources) keep a counterpart in the paired zlib-rs function.")

CLAIM = dict(
    text="Static agreement of the three encoder sites that must share the FDICT condition, the save/restore pairing in "
         "deflateSetDictionary, and the decoder's mode-graph constraints for demanding and verifying the dictionary "
         "(Adler comparison in place, flag written by one function). Necessary conditions of 'announced, demanded, verified'.",
    note="Trusted: rustc MIR; arm regions; host target.",
    technique="sibling condition agreement + take/restore pairing + mode-graph constraints over rustc MIR",
)


def fdict_sites(ck, P):
    R = "SIB/fdict-condition"
    # header(): switch on strstart selecting PRESET_DICT
    hd = P.fn(Z + "deflate::State::header")
    if ck.anchor("fn State::header", hd):
        ck.use_fn(hd)
        ok = False
        for b in hd.live:
            for st in hd.blocks[b]["s"]:
                if st["k"] == "assign" and mir.mentions_const(hd.rvalue_expr(st["rv"]), defname="PRESET_DICT"):
                    # whatever the spelling (match on strstart, `!= 0`, `== 0 .. else`): the assignment sits under strstart != 0
                    for g in shape.dominating_sigs(hd, b):
                        if "strstart" not in g.names:
                            continue
                        if (g.rel == "notin" and set(g.values or ()) == {0}) or (g.rel == "Ne" and 0 in g.consts) or \
                                (g.rel == "Lt" and 0 in g.consts):
                            ok = True
        ck.decide(ok, R, "header:FDICT", "FDICT set exactly when strstart != 0", "header() does not set FDICT under `strstart != 0`", where(hd))
    df = P.fn(Z + "deflate::deflate")
    if ck.anchor("fn deflate::deflate", df):
        ck.use_fn(df)
        okd = False
        for c in df.live_calls(r"core::num::to_be_bytes$"):
            a = df.call_args(c)
            if mir.mentions_field(a[0], "adler"):
                ss = shape.dominating_sigs(df, c.bb)
                if any(s.rel == "Ne" and "strstart" in s.names and 0 in s.consts for s in ss) and \
                        any((s.rel == "Eq" and "Init" in s.names) or (s.rel == "is" and "Init" in (s.variants or ())) for s in ss):
                    okd = True
        ck.decide(okd, R, "deflate:DICTID", "DICTID appended (big-endian) under status Init && strstart != 0",
                  "deflate() does not append the dictionary id under `strstart != 0` in status Init", where(df))
    bd = P.fn(Z + "deflate::bound")
    if ck.anchor("fn deflate::bound", bd):
        ck.use_fn(bd)
        okb = False
        for bi, si, lhs, rv, s in bd.assignments():
            e = bd.rvalue_expr(rv)
            if mir.mentions_const(e, defname="ZLIB_WRAPLEN") and mir.mentions_const(e, val=4) and any(x[0] == "bin" and x[1].startswith("Add") for x in mir.walk(e)):
                ss = shape.dominating_sigs(bd, bi)
                if any(s2.rel == "Ne" and "strstart" in s2.names and 0 in s2.consts for s2 in ss):
                    okb = True
        ck.decide(okb, R, "bound:+4", "bound adds 4 under strstart != 0", "deflate::bound() does not add the 4 DICTID bytes under `strstart != 0`", where(bd))


def deflate_set_dictionary(ck, P):
    fn = P.fn(Z + "deflate::set_dictionary")
    if not ck.anchor("fn deflate::set_dictionary", fn):
        return
    ck.use_fn(fn)
    R = "ATOM/deflate-set-dictionary"
    rej = [(sig.sig(a, fn), rv) for a, rv, b, ln in atoms.rejections(fn) if rv == "StreamError"]
    ck.decide(any(s.rel == "Eq" and "wrap" in s.names and 2 in s.consts for s, _ in rej), R, "reject-gzip", "wrap == 2 rejected", "gzip streams no longer reject a dictionary", where(fn))
    ck.decide(any(s.rel == "Ne" and "lookahead" in s.names and 0 in s.consts for s, _ in rej), R, "reject-lookahead", "lookahead != 0 rejected", "lookahead != 0 is no longer rejected", where(fn))
    ck.decide(any((s.rel == "Ne" and "Init" in s.names) or (s.rel == "isnot" and "Init" in (s.variants or ())) for s, _ in rej), R, "reject-started", "wrap == 1 && status != Init rejected",
              "a zlib stream that already wrote its header no longer rejects a dictionary", where(fn))
    ad = fn.live_calls(r"adler32::adler32$")
    okad = bool(ad) and any(s.rel == "Eq" and "wrap" in s.names and 1 in s.consts for s in shape.dominating_sigs(fn, ad[0].bb))
    ck.decide(okad, R, "adler-under-wrap1", "dictionary Adler-32 computed only for zlib wrapping", "the dictionary id is not computed under wrap == 1", where(fn))
    # the id is the Adler-32 of the dictionary the caller supplied, not of the tail kept for an over-long one:
    # the adler32 call must not be reachable from the re-slicing of `dictionary`
    di = fn.param_index("dictionary")
    if ck.anchor("parameter `dictionary`", di is not None) and ad:
        reslice = {bi for bi, si, rv in fn.defs.get(di, []) if bi in fn.live}
        stale = any(ad[0].bb in fn.reach_from(b) for b in reslice)
        ck.decide(bool(reslice) and not stale, R, "adler-of-whole-dictionary", "Adler-32 taken before the dictionary is cut to its last w_size bytes",
                  "deflateSetDictionary computes the dictionary id after truncating an over-long dictionary to its tail: the announced id is not the "
                  "Adler-32 of the dictionary the caller (and the decompressor) has", where(fn, ad[0].line))
    # PAIR: wrap, next_in, avail_in restored on the success path
    R2 = "PAIR/save-restore"
    fw = fn.live_calls(r"deflate::fill_window$")
    rets = [b for b, k in fn.exits() if k == "return"]
    if ck.anchor("fill_window call in set_dictionary", fw):
        first = min(fw, key=lambda c: c.bb)
        for field in ("wrap", "next_in", "avail_in"):
            wb = set()
            for bi, fp, root, rv, s in fn.field_writes():
                if fp[-1:] == (field,) and fn.dominates(first.bb, bi) and bi != first.bb:
                    # restored from a saved local, not from a constant / the dictionary
                    if rv[0] in ("v", "p") or (rv[0] == "f"):
                        wb.add(bi)
            leak = flow.reaches_avoiding(fn, [first.target], rets, cut_blocks=wb)
            ck.decide(bool(wb) and not leak, R2, "deflate::set_dictionary:" + field, "restored after the window fill on every path",
                      "deflateSetDictionary can return without restoring stream.%s (it is borrowed to feed the dictionary through fill_window)" % field, where(fn))


def inflate_dict(ck, P):
    R = "MODE/dict"
    fn = P.fn(decoders.DISPATCH)
    if not ck.anchor("fn dispatch", fn):
        return
    regs = decoders.mode_regions(fn, 20)
    if not ck.anchor("mode switch", regs):
        return
    ck.use_fn(fn)

    def sites(variant):
        out = []
        for bi, si, lhs, rv, s in fn.assignments():
            e = fn.rvalue_expr(rv)
            if any(x[0] == "agg" and x[1].endswith("inflate::Mode") and x[2] == variant for x in mir.walk(e)):
                out.append(bi)
        return out

    def arm_of(b):
        for k, v in regs.items():
            if b in v:
                return k

    ds = sites("DictId")
    ck.decide(bool(ds) and {arm_of(b) for b in ds} <= {"Head"}, R, "DictId-from-Head", "DictId entered only from arm Head", "Mode::DictId is assigned in arms %s" % sorted({str(arm_of(b)) for b in ds}), where(fn))
    for b in ds:
        ss = shape.dominating_sigs(fn, b, region=regs["Head"])
        ck.decide(any(s.rel == "Ne" and 0x200 in s.consts and "BitAnd" in s.ops for s in ss), R, "DictId-under-FDICT", "under hold & 0x200 != 0",
                  "Mode::DictId is entered without testing the FDICT bit (0x200)", where(fn))
    dd = sites("Dict")
    ck.decide(bool(dd) and {arm_of(b) for b in dd} <= {"DictId"}, R, "Dict-from-DictId", "Dict entered only from arm DictId", "Mode::Dict is assigned in arms %s" % sorted({str(arm_of(b)) for b in dd}), where(fn))
    reg = regs.get("DictId", set())
    st = [1 for bi, fp, root, rv, s in fn.field_writes() if bi in reg and fp[-1:] == ("checksum",) and mir.calls_in(rv, r"zswap32$")]
    ck.decide(bool(st), R, "DictId-stores-id", "checksum = zswap32(hold)", "arm DictId does not store the big-endian dictionary id into checksum", where(fn))
    reg = regs.get("Dict", set())
    nd = []
    for bi, si, lhs, rv, s in fn.assignments():
        if bi in reg and any(x[0] == "agg" and x[1].endswith("ReturnCode") and x[2] == "NeedDict" for x in mir.walk(fn.rvalue_expr(rv))):
            nd.append(bi)
    for c in fn.live_calls():
        if c.bb in reg and any(x[0] == "agg" and x[1].endswith("ReturnCode") and x[2] == "NeedDict" for a in fn.call_args(c) for x in mir.walk(a)):
            nd.append(c.bb)
    okn = False
    for b in nd:
        es, dsig = sig.site_guards(fn, b, region=reg)
        if any(s.kind == "truth" and s.truth is False and "Flags::contains" in s.calls and "HAVE_DICT" in s.names for s in es + dsig):
            okn = True
    ck.decide(okn, R, "Dict-needs-dict", "NeedDict unless HAVE_DICT", "arm Dict does not return NeedDict when no dictionary has been supplied", where(fn))
    # HAVE_DICT writers
    n = 0
    for f in P.fns.values():
        for c in f.live_calls(r"inflate::Flags::update$"):
            a = f.call_args(c)
            if len(a) == 3 and a[1][0] == "c" and a[1][2] and a[1][2].endswith("HAVE_DICT"):
                n += 1
                v = f.const_of(a[2])
                okw = (f.path == Z + "inflate::set_dictionary" and v == 1) or (f.path == Z + "inflate::reset_keep" and v == 0)
                ck.decide(okw, "WHO/have-dict", f.path.replace(Z, ""), "listed writer", "HAVE_DICT is updated to %s in %s" % (v, f.path), where(f, c.line))
    ck.floor("WHO/have-dict", n, 2)
    sd = P.fn(Z + "inflate::set_dictionary")
    if ck.anchor("fn inflate::set_dictionary", sd):
        ck.use_fn(sd)
        R3 = "ATOM/inflate-set-dictionary"
        rej = atoms.rejections(sd)
        s_err = [sig.sig(a, sd) for a, rv, b, ln in rej if rv == "StreamError"]
        d_err = [sig.sig(a, sd) for a, rv, b, ln in rej if rv == "DataError"]
        ck.decide(any(("Dict" in (s.variants or ()) or "Dict" in s.names) for s in s_err) or bool(s_err), R3, "wrong-state", "StreamError when wrapped and not in mode Dict",
                  "inflateSetDictionary no longer rejects a call outside mode Dict for wrapped streams", where(sd))
        ck.decide(any(s.rel == "Ne" and "checksum" in s.names and "adler32" in " ".join(s.calls) for s in d_err), R3, "adler-compare", "adler32(1, dict) != checksum -> DataError",
                  "inflateSetDictionary does not compare the dictionary's Adler-32 with the id from the stream", where(sd))
        # ... and nothing but the stream position (mode == Dict) decides whether that comparison happens: it is not a checksum
        # of the data that inflateValidate may switch off, it is what makes "exactly a dictionary with that Adler-32" true
        derr_blocks = [b for a, rv, b, ln in rej if rv == "DataError"]
        extra = set()
        for b in derr_blocks:
            for a in sd.dominating_atoms(b):
                s_ = sig.sig(a, sd)
                if "wrap" in s_.names and (4 in s_.consts or "BitAnd" in s_.ops):
                    extra.add(mir.atom_str(a, sd)[:60])
        ck.decide(bool(derr_blocks) and not extra, R3, "adler-compare:unconditional", "the id comparison does not depend on the validation bit",
                  "inflateSetDictionary compares the dictionary id only under %s: with checking switched off (inflateValidate(0)) any "
                  "dictionary is accepted" % sorted(extra), where(sd))
        ad = sd.live_calls(r"adler32::adler32$")
        ck.decide(bool(ad) and atoms.cval(sd.call_args(ad[0])[0]) == 1, R3, "adler-init", "Adler-32 of the dictionary starts from 1", "dictionary Adler-32 does not start from 1", where(sd))
        ex = sd.live_calls(r"window::Window::extend$")
        ck.decide(bool(ex) and sd.const_of(sd.call_args(ex[0])[3]) == 0, R3, "no-checksum", "window.extend(.., update_checksum = false, ..)",
                  "the dictionary is folded into the running checksum", where(sd))
    inf = P.fn(Z + "inflate::inflate")
    if inf:
        pub = [1 for bi, fp, root, rv, s in inf.field_writes() if fp[-1:] == ("adler",) and mir.mentions_field(rv, "checksum")]
        ck.decide(bool(pub), "ATOM/publish-dictid", "inflate", "stream.adler = state.checksum", "inflate() no longer publishes the checksum/dictionary id in stream.adler", where(inf))


def run(ck):
    P = prog("K1")
    ck.configs.add("K1")
    # round 12: a copied inflate stream keeps the whole window, so the dictionary is the same on the copy
    from . import c14 as _c14w
    _c14w.whole_buffer_clones(ck, P)
    window_refresh_source(ck, P)
    # round 10: a dictionary longer than the window keeps its tail in every branch of Window::extend
    from . import c08 as _c08s
    _c08s.extend_siblings(ck, P)
    from .. import guards as _gas
    _gas.arm_store_before_suspend(ck, P, fields=("adler", "gzindex"))
    # the dictionary id is read across input chunks: a suspended DictId/Dict arm resumes where it stopped
    from . import c04 as _c04
    _c04.resume_atomicity(ck, P)
    fdict_sites(ck, P)
    # Z_NEED_DICT reports the announced id in strm.adler: inflate() publishes the check value on every path
    from . import c15 as _c15
    _c15.epilogue_all_paths(ck, P, fields=("adler",))
    deflate_set_dictionary(ck, P)
    inflate_dict(ck, P)
    from . import c06
    c06.get_dictionary_guard(ck, P, "GUARD/get-dictionary")
    from .. import condparity
    ck.floor("SIB/ref-conditions", condparity.check(ck, P, "SIB/ref-conditions", only={"deflate.c:deflateGetDictionary", "inflate.c:inflateGetDictionary", "deflate.c:deflateSetDictionary", "inflate.c:inflateSetDictionary"}), 6)
    from .. import refwrites
    ck.floor("SIB/ref-writes", refwrites.check(ck, P, "SIB/ref-writes", only={"deflate.c:deflateSetDictionary", "inflate.c:inflateSetDictionary"}), 10)
    ck.assumptions += ["rustc MIR", "host target; K1"]

# session 5 (round 9, D24)
EXPLANATION = EXPLANATION + " " + (
    'ORDER/arm-store-before-suspend: deflate() stores the initial check value of the Init arm before the arm can suspend on a full output buffer.')

# session 5 (round 10)
EXPLANATION = EXPLANATION + " " + (
    'SIB/extend-fold (shared with C08): every branch of Window::extend keeps the same part of a slice longer than the window (the tail), so a long dictionary is the same on both sides.')


def window_refresh_source(ck, P, R="GUARD/window-refresh-source"):
    """deflate_stored copies what it sent straight to the output back into the window so that later blocks (and
    deflateGetDictionary) see the most recent history: `memcpy(window, next_in - w_size, w_size)` when a whole window or more was
    used, `memcpy(window + strstart, next_in - used, used)` otherwise.  In both, the source starts exactly as many bytes before
    next_in as the copy is long - the *last* bytes consumed; any other offset takes older input for the history."""
    from .. import linear
    f = P.fn(Z + "deflate::algorithm::stored::deflate_stored")
    if not ck.anchor("fn deflate_stored", f):
        return
    ck.use_fn(f)
    calls = f.live_calls(r"Window::copy_and_initialize$")
    if not ck.anchor("window refresh copies in deflate_stored", len(calls) >= 2):
        return
    f._stop_named = False
    for i, c in enumerate(calls):
        a = f.call_args(c)
        rng, src = a[1], mir.strip_casts(a[2])
        ok = False
        detail = "unrecognised shape"
        if rng[0] == "agg" and src[0] == "call" and isinstance(src[1], str) and src[1].split("::")[-1] in ("wrapping_sub", "sub", "offset"):
            flds = dict(rng[3])
            if "start" in flds and "end" in flds and len(src[2]) == 2 and mir.mentions_field(src[2][0], "next_in"):
                ln = linear.linear(f, flds["end"])
                linear.linear(f, flds["start"], -1, ln)
                ln = {k: v for k, v in ln.items() if v}
                off = {k: v for k, v in linear.linear(f, src[2][1]).items() if v}
                ok = ln == off and bool(ln)
                detail = "copy of %s bytes from next_in - %s" % (ln, off)
        ck.decide(ok, R, "deflate_stored:refresh#%d" % i, "source = next_in - (length of the copy)",
                  "deflate_stored refreshes the window from a source that does not end at next_in (%s): the window receives older input than "
                  "the bytes just consumed, so the retrievable dictionary and later matches refer to the wrong history" % detail, where(f, c.line))

# session 5 (round 11)
EXPLANATION = EXPLANATION + " " + (
    'GUARD/window-refresh-source (round 11): deflate_stored refreshes the window from next_in minus the length of the copy (the last bytes consumed), which is what deflateGetDictionary and later matches see.')

# session 5 (round 12)
EXPLANATION = EXPLANATION + " " + (
    'COPY/whole-buffer (round 12, shared with C14): a copied inflate stream keeps the whole window, so the dictionary is the same on the copy.')
