"""C19 — inflateBack equals inflate on in-window streams and is memory-safe on all input.
Decided clause: back() and inflate_fast_back() carry the same validations as inflate's copies; every
raw read/write in back() is reached only through its bound check; the unpadded user window is never
handed to the chunked copy routines; no unjustified abort construct reachable from inflateBack*."""
from .. import mir, sig, shape, atoms, flow, decoders, abort, abort_table, consts
from ..core import where
from ..ctx import prog, Z, SYS

EXPLANATION = (
    "SIB: the rejection table of RFC 1951 (block type, stored lengths, HLIT/HDIST, code-length sets, repeat codes, missing "
    "EOB, literal/length and distance table errors, invalid symbols, distance too far back) is present and live with the same "
    "constants in back() and inflate_fast_back() as in inflate's copies; HLIT/HDIST/HCLEN extraction and inflate_table root "
    "bits agree; ORDER tables agree. GUARD: in back(), every `*next` read is reached only after a `have != 0` edge since the "
    "last change of `have`; every `*put` store only after `left != 0` (or the window hand-off) since the last change of `left`; "
    "the stored-block ptr::copy count is min(length, have, left); inflate_fast_back is entered, and its loop continues, only under "
    "`have >= 15 && left >= 260` (one iteration can store two literals and a 258-byte match into the unpadded window). WHO: back/fast_back use only buffer_size() and the *_back copy "
    "variants. CONST: inflateBackInit_ builds a window of exactly 1 << windowBits after the [8,15] test. ABORT: inventory from "
    "inflateBack*. Exit codes: BufError on input exhaustion/output failure, StreamEnd in Done, DataError in Bad. Byte equality with "
    "inflate is not decided. "
    "GUARD/fast-bit-budget for inflate_fast_back (refill threshold 28 before the distance decode). WHO/overlap-safe-copy: copy_match_back uses no block copy (copy_within, ptr::copy, copy_from_slice) outside a length <= distance guard - overlapping matches are replicated byte by byte. "
    "CUT/back-entry-reset: Window::clear, mode = Type and the last-flag update lie on every path into back()'s mode loop. SIB/ref-writes for inflateBack.")

CLAIM = dict(
    text="Static sibling agreement of back()/inflate_fast_back() with inflate's decoder copies over a common rejection "
         "specification (guarding atoms with RFC constants), path-based guards (cut-set over the pruned MIR CFG) on every raw "
         "read/write of back(), who-may-call rules for the padded-window copy routines, and the abort inventory. Necessary "
         "conditions of memory safety and of agreement with inflate's verdict; output byte equality is not decided. "
         "Also: the fast path's margins and bit budget, and the overlap rule of copy_match_back.",
    note="Trusted: rustc MIR; the rejection table (rules/decoders.py), justified-abort table; host target.",
    technique="sibling validation-set and decision-set comparison (inflate vs inflateBack) + cut-set / must-pass-through guard analysis over rustc MIR",
)

BACK = decoders.BACK
FAST_BACK = decoders.FAST_BACK
P_ = decoders.P


def back_roots(P):
    return sorted(f.path for f in P.fns.values() if f.crate == "libz_rs_sys" and f.is_extern_c and f.path.split("::")[-1].startswith("inflateBack"))


def _local_by_name(fn, name):
    for i, l in enumerate(fn.locals):
        if l.get("name") == name:
            return i
    return None


def _blocks_assigning(fn, loc):
    return {bi for bi, si, rv in fn.defs.get(loc, []) if bi in fn.live}


def raw_guards(ck, P):
    fn = P.fn(BACK)
    if not ck.anchor("fn back", fn):
        return
    ck.use_fn(fn)
    R = "GUARD/back-raw"
    # by role (what initialises the local), falling back to the spelling
    nxt, have, put, left = (fn.roles.get(n, _local_by_name(fn, n)) for n in ("next", "have", "put", "left"))
    if not ck.anchor("locals next/have/put/left of back()", None not in (nxt, have, put, left), where(fn)):
        return
    # (a) reads through `next`
    reads = []
    for bi, si, lhs, rv, s in fn.assignments():
        e = fn.rvalue_expr(rv)
        for x in mir.walk(e):
            if x[0] == "*" and x[1] == ("v", nxt):
                reads.append((bi, s))
                break
    ck.floor(R + ":next-reads", len(reads), 10)
    kills = _blocks_assigning(fn, have)

    def have_nonzero(b, lab, ats):
        for a in ats:
            s = sig.sig(a, fn)
            if "have" in s.names and ((s.rel == "Ne" and 0 in s.consts) or (s.rel == "Le" and 1 in s.lo_consts and "have" in s.hi_names)
                                      or (s.rel == "notin" and s.values == frozenset([0])) or (s.rel == "Le" and s.lo_ge_ok)):
                return True
        return False

    def have_pred(b, lab, ats):
        for a in ats:
            s = sig.sig(a, fn)
            if "have" not in s.names:
                continue
            if s.rel == "Ne" and 0 in s.consts:
                return True
            if s.rel == "Le" and "have" in s.hi_names and s.lo_consts and max(c for c in s.lo_consts if isinstance(c, int)) >= 1:
                return True
            if s.rel == "notin" and 0 in (s.values or ()):
                return True
        return False

    bad = 0
    for bi, s in reads:
        ok = flow.guarded_since(fn, bi, kills - {bi}, have_pred)
        if not ok:
            bad += 1
            ck.bad(R, "back:*next@%s" % _arm_of(fn, bi), "a read through `next` is reachable without a `have != 0` test since `have` last changed: "
                   "the input callback's slice can be over-read", where(fn, s.get("line")))
    if not bad:
        ck.ok(R, "back:*next", "%d reads, each reached only through have != 0 since the last change of have" % len(reads))
    # (b) stores through `put`
    writes = []
    for bi, si, lhs, rv, s in fn.assignments():
        pe = fn.place_expr(lhs)
        if pe == ("*", ("v", put)):
            writes.append((bi, s))
    ck.floor(R + ":put-writes", len(writes), 2)
    refill = set()
    for bi, si, rv in fn.defs.get(left, []):
        if bi in fn.live and rv is not None and si == "call":
            e = fn.call_expr(rv)
            if isinstance(e[1], str) and e[1].endswith("Window::buffer_size"):
                refill.add(bi)
        elif bi in fn.live and rv is not None:
            e = fn.rvalue_expr(rv)
            if mir.calls_in(e, r"Window::buffer_size$") and not any(x[0] == "bin" for x in mir.walk(e)):
                refill.add(bi)
    lkills = _blocks_assigning(fn, left) - refill

    def left_pred(b, lab, ats):
        for a in ats:
            s = sig.sig(a, fn)
            if "left" not in s.names:
                continue
            if s.rel == "Ne" and 0 in s.consts:
                return True
            if s.rel == "notin" and 0 in (s.values or ()):
                return True
        return False

    bad = 0
    for bi, s in writes:
        ok = flow.guarded_since(fn, bi, lkills - {bi}, left_pred, pass_blocks=refill)
        if not ok and _match_copy_ok(ck, fn, bi, left_pred, refill, lkills):
            continue
        if not ok:
            bad += 1
            ck.bad(R, "back:*put@%s" % _arm_of(fn, bi), "a store through `put` is reachable without the room!() test (`left != 0` or window hand-off) since "
                   "`left` last changed: the caller's window can be overrun", where(fn, s.get("line")))
    if not bad:
        ck.ok(R, "back:*put", "%d stores, each reached only through left != 0 / window hand-off" % len(writes))
    ck.decide(bool(refill), R, "back:room-refill", "room!() resets left to buffer_size()", "room!() no longer resets `left` from Window::buffer_size()", where(fn))
    # (c) stored-block copy
    cps = [c for c in fn.live_calls(r"core::ptr::copy$|intrinsics::copy$") if True]
    if ck.anchor("ptr::copy in back (stored block)", len(cps) == 1, where(fn)):
        c = cps[0]
        cnt = fn.call_args(c)[2]
        loc = cnt[1] if cnt[0] == "v" else None
        mins = set()
        cands = []
        if loc is not None:
            for bi, si, rv in fn.defs.get(loc, []):
                if rv is None:
                    continue
                cands.append((bi, fn.call_expr(rv) if si == "call" else fn.rvalue_expr(rv)))
        else:
            cands.append((c.bb, mir.strip_casts(cnt)))     # a single-definition count is already expanded
        if True:
            for bi, e in cands:
                if e[0] == "call" and isinstance(e[1], str) and e[1].endswith("::min") and (fn.dominates(bi, c.bb) or bi == c.bb):
                    # min(a, b), a.min(b).min(c): every operand of the (possibly nested) minimum bounds the count
                    work = list(e[2])
                    while work:
                        a = mir.strip_casts(work.pop())
                        if a[0] == "call" and isinstance(a[1], str) and a[1].endswith("::min"):
                            work += list(a[2])
                            continue
                        n = atoms.leaf_name(a, fn)
                        if n:
                            mins.add(n)
                        for x in mir.walk(a):
                            if x[0] == "v" and fn.local_name(x[1]):
                                mins.add(fn.local_name(x[1]))
        ck.decide({"have", "left"} <= mins, R, "back:stored-copy", "count = min(length, have, left)",
                  "stored-block copy count is not bounded by both `have` and `left` (min over %s)" % sorted(mins), where(fn, c.line))
        ck.call_sites += 1


def _match_copy_ok(ck, fn, site, left_pred, refill, lkills):
    """the byte-wise match copy of back(): `room!(); copy = ...; left -= copy; for _ in 0..copy { *put = *from }`.
    The store follows a decrement of `left` by `copy`; it is in bounds when the loop count is one of the
    forms that are <= left at the room!() test.  Accept exactly that shape."""
    R = "GUARD/back-raw"
    # the loop count: a Range { start: 0, end: <local copy> } built in a block from which the site is reachable
    cand = None
    for bi, si, lhs, rv, s in fn.assignments():
        if rv["k"] == "agg" and rv.get("adt", "").endswith("ops::range::Range") and fn.dominates(bi, site):
            e = fn.rvalue_expr(rv)
            fl = dict(e[3])
            end = fl.get("end")
            if end is not None and end[0] == "v":
                cand = (bi, end[1])
    if cand is None:
        return False
    rb, loc = cand
    forms = []
    okforms = True
    for bi, si, rv in fn.defs.get(loc, []):
        if bi not in fn.live or rv is None:
            continue
        e = fn.call_expr(rv) if si == "call" else fn.rvalue_expr(rv)
        e = mir.strip_casts(e)
        names = atoms.names_in(e, fn)
        if e[0] == "bin" and e[1] == "Sub" and mir.calls_in(e[2], r"Window::buffer_size$") and "offset" in names:
            forms.append("wsize-offset")
        elif e[0] == "bin" and e[1] == "Sub" and atoms.leaf_name(e[2], fn) == "left":
            forms.append("left-copy")
        elif e[0] == "v" and fn.local_name(e[1]) == "left":
            forms.append("left")
        elif e[0] == "call" and isinstance(e[1], str) and e[1].endswith("::min") and "length" in names:
            forms.append("min(copy,length)")
        else:
            okforms = False
            forms.append("?" + mir.fmt(e, fn)[:60])
    # and the range construction itself is reached only through room!()
    guarded = flow.guarded_since(fn, rb, (lkills - {rb}) - _blocks_between(fn, rb), left_pred, pass_blocks=refill)
    ok = okforms and "min(copy,length)" in forms and ("left" in forms or "left-copy" in forms) and guarded
    ck.decide(ok, R, "back:match-copy", "loop count in {left, left-copy, wsize-offset} then min(copy,length); entered through room!()",
              "byte-wise match copy of back(): loop count forms %s, room!() before: %s" % (forms, guarded), where(fn))
    return True


def _blocks_between(fn, bb):
    """kill blocks on the straight chain between the last room!() and the range construction are the
    `left -= copy` of this very copy"""
    out = set()
    preds = fn.preds()
    cur = bb
    for _ in range(30):
        ps = [p for p, lab in preds.get(cur, []) if p in fn.live]
        if len(ps) != 1:
            break
        cur = ps[0]
        out.add(cur)
    return out


def _arm_of(fn, bb):
    regs = decoders.mode_regions(fn, 20)
    if regs:
        for k, v in regs.items():
            if bb in v:
                return k
    return "?"


def back_decisions(ck, P, R="SIB/back~dispatch"):
    """back() is a second copy of the block-header arms of State::dispatch (with its own bit handling).  The decisions that are
    about the decoder's state alone - counts, table sizes, loop bounds over `have`, `nlen`, `ndist`, `ncode`, `lens` - are the same
    in both: every such comparison of a dispatch arm has a counterpart in the corresponding arm of back()."""
    from . import c04 as _c04
    d = P.fn(decoders.DISPATCH)
    b = P.fn(Z + "inflate::infback::back")
    if not (ck.anchor("fn dispatch", d) and ck.anchor("fn infback::back", b)):
        return
    rd = decoders.mode_regions(d, 20)
    sw = b.enum_switches("inflate::Mode", 4)
    if not (ck.anchor("mode switch of dispatch", rd) and ck.anchor("mode switch of back", len(sw) == 1)):
        return
    rb = b.arm_regions(sw[0])

    def state_only(cmps, lens_ok=False):
        out = set()
        for cls, calls, names, consts, variants in cmps:
            names = tuple(n for n in names if n != "state")
            # the length of a constant table (`ORDER.len()` for 19) stands for a constant
            wild = lens_ok and bool(calls) and all(c.split("::")[-1] == "len" for c in calls)
            if (calls and not wild) or not names or variants:
                continue
            out.add((cls, names, frozenset(consts), wild))
        return out
    n = 0
    for arms_d, arm_b in ((("Table", "LenLens", "CodeLens"), "Table"), (("Stored", "CopyBlock"), "Stored"), (("Type", "TypeDo"), "Type")):
        if not ck.anchor("arm %s of back" % arm_b, arm_b in rb):
            continue
        ca = state_only(set().union(*[_c04._arm_cmps(d, rd[a]) for a in arms_d if a in rd]))
        cb = state_only(_c04._arm_cmps(b, rb[arm_b]), lens_ok=True)
        missing = sorted((cls, names, sorted(consts)) for cls, names, consts, _w in ca
                         if not any(c2 == cls and n2 == names and (consts <= k2 or w2) for c2, n2, k2, w2 in cb))
        n += len(ca)
        ck.decide(not missing, R, "%s:decisions" % arm_b, "every state-only decision of dispatch has a counterpart (%d)" % len(ca),
                  "arm %s of back() no longer makes the decisions %s that the corresponding arms of State::dispatch make: inflateBack "
                  "decodes (or rejects) a block header differently from inflate" % (arm_b, missing), where(b))
    ck.floor(R + ":decisions", n, 6)


def fast_distance(ck, P, R="GUARD/back-fast-distance"):
    """In inflateBack the output buffer is the window.  A match may reach behind the bytes produced since the last flush only
    if the window has been flushed at least once (it then holds a full window of older data), and never by more than the window
    size.  Both copies from the window in the fast loop sit behind exactly these two tests - `have` against the window size
    and the distance against the window size - and back() does not give `have` another meaning before it enters the fast loop."""
    f = P.fn(FAST_BACK)
    b = P.fn(BACK)
    if not (ck.anchor("fn inflate_fast_back", f) and ck.anchor("fn back", b)):
        return
    ck.use_fn(f)
    calls = f.live_calls(r"Writer::extend_from_window_back$")
    if not ck.anchor("window copy in inflate_fast_back", bool(calls)):
        return
    for i, c in enumerate(calls):
        gs = shape.dominating_sigs(f, c.bb)
        wrapped = any(g.rel in ("Le", "Lt") and any(x.endswith("Window::have") for x in g.calls) and
                      (any(x.endswith("Window::buffer_size") or x.endswith("Window::size") for x in g.calls) or "window_size" in g.names) for g in gs)
        bounded = any(g.rel in ("Le", "Lt") and ("dist" in g.names or any(x.endswith("BitReader::bits") for x in g.calls)) and
                      (any(x.endswith("Window::buffer_size") or x.endswith("Window::size") for x in g.calls) or "window_size" in g.names) for g in gs)
        ck.decide(wrapped and bounded, R, "fast_back:window-copy#%d" % i, "copy from older window data only after a flush and within one window",
                  "inflate_fast_back copies from the window without requiring that it has been flushed (have == window size) and that the "
                  "distance is at most the window size: a distance reaching before the first output byte is accepted and stale bytes of the "
                  "caller's buffer are delivered", where(f, c.line))
    sets = b.live_calls(r"Window::set_have$")
    fast = b.live_calls(r"infback::inflate_fast_back$")
    pre = [c for c in sets if fast and any(flow.reaches_avoiding(b, [c.bb], [k.bb], cut_blocks=[]) and b.dominates(c.bb, k.bb) for k in fast)]
    ck.decide(not pre, R, "back:have-before-fast", "`have` keeps its meaning (0, or the window size once flushed) on entry to the fast loop",
              "back() stores another value in window.have right before the fast loop: the fast loop then takes bytes of the current pass for "
              "older history", where(b, pre[0].line if pre else None))


def who(ck, P):
    R = "WHO/unpadded-window"
    for path in (BACK, FAST_BACK):
        fn = P.fn(path)
        if not ck.anchor("fn " + path, fn):
            continue
        callees = fn.callee_paths()
        badc = [c for c in callees if c.endswith("Writer::extend_from_window") or c.endswith("Writer::extend_from_window_with_features")
                or c.endswith("Writer::copy_match") or c.endswith("Writer::copy_match_with_features") or c.endswith("Window::size")
                or c.endswith("copy_chunk_unchecked") or c.endswith("extend_from_window_help") or c.endswith("copy_match_help")]
        ck.decide(not badc, R, path.replace(Z, ""), "uses only the *_back copy variants and buffer_size()",
                  "%s calls %s: the chunked copy routines / Window::size assume a padded window, inflateBack's user window has no padding"
                  % (path, badc), where(fn))
    fb = P.fn(FAST_BACK)
    if fb:
        need = {Z + "inflate::writer::Writer::extend_from_window_back", Z + "inflate::writer::Writer::copy_match_back"}
        ck.decide(need <= fb.callee_paths(), R, "inflate_fast_back:variants", "calls extend_from_window_back and copy_match_back",
                  "inflate_fast_back no longer uses both *_back copy variants", where(fb))


def init_const(ck, P):
    R = "CONST/back-window"
    fn = P.fn(SYS + "inflateBackInit_")
    if not ck.anchor("fn inflateBackInit_", fn):
        return
    ck.use_fn(fn)
    calls = fn.live_calls(r"inflate::window::Window::from_raw_parts$")
    if ck.anchor("Window::from_raw_parts in inflateBackInit_", len(calls) == 1):
        c = calls[0]
        a = fn.call_args(c)
        e = mir.strip_casts(a[1])
        ok = e[0] == "bin" and e[1] == "Shl" and atoms.cval(e[2]) == 1 and atoms.leaf_name(e[3], fn) == "windowBits"
        ck.decide(ok, R, "length", "1 << windowBits", "window length is %s, not 1 << windowBits" % mir.fmt(a[1], fn), where(fn, c.line))
        # dominated by the range test failing edge... (the call is on the in-range side)
        ss = shape.dominating_sigs(fn, c.bb)
        rng = [s for s in ss if s.rel == "range" and "windowBits" in s.names]
        ck.decide(any(s.lo == 8 and s.hi == 15 for s in rng), R, "range", "windowBits in 8..=15",
                  "window is built without the windowBits in [8,15] test on the path (%s)" % [(s.lo, s.hi) for s in rng], where(fn, c.line))
        nn = any(s.kind == "truth" and s.truth is False and "window" in s.names and any("is_null" in x for x in s.calls) for s in ss)
        ck.decide(nn, R, "null", "window != NULL", "window pointer is not tested for NULL", where(fn, c.line))


def exits(ck, P):
    R = "ATOM/back-exit"
    fn = P.fn(BACK)
    if not fn:
        return
    regs = decoders.mode_regions(fn, 20) or {}
    ret = _local_by_name(fn, "ret")
    if not ck.anchor("local ret in back()", ret is not None):
        return
    vals = {}
    for bi, si, rv in fn.defs.get(ret, []):
        if bi not in fn.live or rv is None or si == "call":
            continue
        v = fn.enum_const(fn.rvalue_expr(rv))
        if v:
            vals.setdefault(v[1], []).append(bi)
    ck.decide(any(b in regs.get("Done", ()) for b in vals.get("StreamEnd", [])) and all(b in regs.get("Done", ()) for b in vals.get("StreamEnd", [])),
              R, "StreamEnd", "only in arm Done", "StreamEnd is produced outside arm Done (%s)" % [_arm_of(fn, b) for b in vals.get("StreamEnd", [])], where(fn))
    ck.decide(any(b in regs.get("Bad", ()) for b in vals.get("DataError", [])), R, "DataError", "in arm Bad", "arm Bad no longer yields DataError", where(fn))
    ck.decide(len(vals.get("BufError", [])) >= 3, R, "BufError", "on input exhaustion and output failure",
              "fewer BufError exits than the input-exhaustion and output-failure sites", where(fn))


def final_flush(ck, P, R="CUT/back-final-flush"):
    """When back() leaves its loop - for whatever reason - the bytes that sit in the window but were not yet handed to the
    output callback are handed over (zlib: `if (left < state->wsize) out(...)`): the call is conditional on `left` alone,
    never on the return code, otherwise output decoded before a data error or before input ran out is lost."""
    fn = P.fn(BACK)
    if not ck.anchor("fn back", fn):
        return
    ck.use_fn(fn)
    sws = fn.enum_switches("inflate::Mode", 10)
    if not ck.anchor("mode switch of back()", len(sws) == 1, where(fn)):
        return
    sw = sws[0]
    rets = [b for b, k in fn.exits() if k == "return"]
    # indirect calls (the out callback) from which the loop head is no longer reachable: the final flush
    finals = [c for c in fn.live_calls() if c.callee is None and sw not in fn.reach_from(c.bb)]
    if not ck.anchor("output callback after the loop of back()", len(finals) >= 1, where(fn)):
        return
    bad = []
    for c in finals:
        for a in fn.dominating_atoms(c.bb):
            s_ = sig.sig(a, fn)
            if {"StreamEnd", "DataError", "BufError", "ret"} & set(map(str, s_.names)) or (s_.variants and {"StreamEnd"} & set(s_.variants)):
                bad.append(mir.atom_str(a, fn)[:60])
    ok_left = any("left" in sig.sig(a, fn).names for c in finals for a in fn.dominating_atoms(c.bb))
    ck.decide(ok_left and not bad, R, "back:final-out", "conditional on `left < window size` only",
              "the final hand-over of decoded bytes in back() depends on %s: bytes decoded before an error / before the input ran out "
              "never reach the output callback" % (sorted(set(bad)) or "no `left` test"), where(fn, finals[0].line))


def entry_reset(ck, P, R="CUT/back-entry-reset"):
    """inflateBack starts every call from a clean decoder: before the mode loop is entered the mode is set to Type, the
    last-block flag is cleared and the window is declared empty (zlib: `state->mode = TYPE; state->last = 0;
    state->whave = 0;`).  History surviving from an earlier call on the same stream makes a too-far distance of the new
    stream resolve to bytes of the old one."""
    fn = P.fn(BACK)
    if not ck.anchor("fn back", fn):
        return
    ck.use_fn(fn)
    sws = fn.enum_switches("inflate::Mode", 10)
    if not ck.anchor("mode switch of back()", len(sws) == 1, where(fn)):
        return
    sw = sws[0]
    clear = {c.bb for c in fn.live_calls(r"window::Window::clear$")}
    leak = not clear or flow.reaches_avoiding(fn, [0], [sw], cut_blocks=clear)
    ck.decide(not leak, R, "back:window-clear", "Window::clear on every path into the mode loop",
              "back() can enter its mode loop without having emptied the window (Window::clear): history of a previous inflateBack call on "
              "the same stream stays addressable, so a distance reaching before the new stream's first byte copies old bytes instead of "
              "being rejected", where(fn))
    modes = {bi for bi, fp, root, rv, st in fn.field_writes() if fp[-1:] == ("mode",) and fn.enum_const(rv) and "Type" in str(P.variant_name(*fn.enum_const(rv)) if not isinstance(fn.enum_const(rv)[1], str) else fn.enum_const(rv)[1])}
    leak2 = not modes or flow.reaches_avoiding(fn, [0], [sw], cut_blocks=modes)
    ck.decide(not leak2, R, "back:mode-type", "mode = Type on every path into the mode loop",
              "back() can enter its mode loop without resetting the mode to Type", where(fn))
    lasts = {c.bb for c in fn.live_calls(r"Flags::update$")}
    leak3 = not lasts or flow.reaches_avoiding(fn, [0], [sw], cut_blocks=lasts)
    ck.decide(not leak3, R, "back:last-clear", "last-block flag cleared on every path into the mode loop",
              "back() can enter its mode loop without clearing the last-block flag", where(fn))


def run(ck):
    P = prog("K1")
    ck.configs.add("K1")
    from .. import guards as _gfe
    _gfe.fast_loop_epilogue(ck, P)
    fast_decisions(ck, P)
    from .. import linear as _lin
    ck.floor("SIB/same-terms-same-threshold", _lin.same_threshold(ck, P, [f for f in sorted(P.fns.values(), key=lambda f: f.path) if f.path.startswith(Z + "inflate::")]), 1)
    ck.floor("PAIR/second-level-bits", _lin.second_level_bits(ck, P, [f for f in sorted(P.fns.values(), key=lambda f: f.path) if f.path.startswith(Z + "inflate::")]), 3)
    n = decoders.check_rejections(ck, P, "ATOM/rejection", only_impls={BACK, FAST_BACK})
    ck.floor("ATOM/rejection", n, 17)
    decoders.check_table_fields(ck, P, "ATOM/header-fields", impls=(BACK,))
    back_decisions(ck, P)
    fast_distance(ck, P)
    try:
        a = consts.get(P, Z + "inflate::State::dispatch::ORDER")
        b = consts.get(P, Z + "inflate::infback::back::ORDER")
        ck.decide(list(a) == list(b), "SIB/order", "ORDER", "same code-length order in both decoders", "dispatch ORDER %s != back ORDER %s" % (a, b))
    except consts.ConstError as e:
        ck.anchor("ORDER tables (%s)" % e, False)
    # inflate_table arguments agree between the two block decoders
    def tabs(path):
        fn = P.fn(path)
        out = []
        if fn:
            for c in fn.live_calls(r"inftrees::inflate_table$"):
                a = fn.call_args(c)
                out.append((a[0][2] if a[0][0] == "agg" else None, atoms.cval(a[3])))
        return sorted(out, key=str)
    ck.decide(tabs(BACK) == tabs(decoders.DISPATCH) and len(tabs(BACK)) == 3, "SIB/inflate-table-args", "back~dispatch", "same (type, root bits) triples",
              "back() builds tables with %s, dispatch with %s" % (tabs(BACK), tabs(decoders.DISPATCH)))
    raw_guards(ck, P)
    entry_reset(ck, P)
    final_flush(ck, P)
    # the window has no padding: the fast loop of inflateBack may only run (and continue) with the full margins
    from . import c02
    c02.guard_calls(ck, P, only={"fast-entry@back"})
    c02.loop_backedge_guard(ck, P, only={c02.FAST_BACK})
    c02.fast_refill(ck, P, "GUARD/fast-bit-budget", fns=(c02.FAST_BACK,))
    from .. import refwrites, condparity
    ck.floor("SIB/ref-writes", refwrites.check(ck, P, "SIB/ref-writes", only={"infback.c:inflateBack"}), 14)
    ck.floor("SIB/ref-conditions", condparity.check(ck, P, "SIB/ref-conditions", only={"infback.c:inflateBack"}), 30)
    ck.floor("WHO/overlap-safe-copy", decoders.overlap_safe(ck, P, "WHO/overlap-safe-copy", r"inflate::writer::Writer::copy_match_back$"), 1)
    who(ck, P)
    init_const(ck, P)
    exits(ck, P)
    roots = back_roots(P)
    ck.floor("ABORT:roots", len(roots), 3)
    abort.check(ck, P, roots, "ABORT/back", abort_table.JUSTIFIED, api_fns=None, label="inflateBack")
    ck.assumptions += ["rustc MIR", "rejection table and justified-abort table confirmed by reading", "host target x86_64; K1"]

# session 5 (round 9, D24)
EXPLANATION = EXPLANATION + " " + (
    "SIB/same-terms-same-threshold, PAIR/second-level-bits and CUT/fast-loop-epilogue are evaluated over inflateBack's decoder copies as well.")


def fast_decisions(ck, P, R="SIB/fast~fast_back"):
    """inflate_fast_back is a copy of the fast loop of inflate with the window replaced by the caller's output buffer.  The
    decisions that are not about the window or about how much input is left - code classes, length and distance tests, the
    comparison of a distance with the bytes written - are the same in both: every such comparison of the fast loop has a
    counterpart in the copy."""
    from . import c04 as _c04
    a = P.fn(decoders.FAST)
    b = P.fn(FAST_BACK)
    if not (ck.anchor("fn inflate_fast_help_impl", a) and ck.anchor("fn inflate_fast_back", b)):
        return
    ck.use_fn(a)
    ck.use_fn(b)
    ca = _c04._arm_cmps(a, a.live)
    cb = _c04._arm_cmps(b, b.live)

    def windowish(x):
        return any(c.startswith("Window::") or "bytes_remaining" in c for c in x[1])
    # compared without the names of working locals: one of the two loops may have its locals renamed or a block extracted
    # (neutral patches A_C02_r3, A_C19_r2, F_F4_r3); what has to agree is the kind of comparison, the accessors it reads and its
    # constants
    def key(x):
        # lossless conversions (`usize::from(dist)` for `dist as usize`) are not part of a decision
        return (x[0], tuple(c for c in x[1] if c.split("::")[-1] not in ("from", "into", "try_from", "unwrap")), x[3], x[4])
    kb = {key(x) for x in cb}
    # (a comparison of which nothing but a conversion remains carries no information of its own)
    want = sorted((x for x in ca if not windowish(x) and (key(x)[1] or key(x)[2])), key=str)
    missing = [x for x in want if key(x) not in kb]
    ck.decide(not missing, R, "decisions", "every window-independent decision of the fast loop has a counterpart (%d)" % len(want),
              "inflate_fast_back no longer makes the decision(s) %s of inflate's fast loop: inflateBack decodes a match or a code class "
              "differently from inflate for the same bits" % [(m[0], m[1], m[2], m[3]) for m in missing][:3], where(b))
    ck.floor(R, len(want), 8)

# session 5 (round 10)
EXPLANATION = EXPLANATION + " " + (
    "SIB/fast~fast_back: every comparison of inflate's fast loop that is not about the window or the input left has a counterpart in inflate_fast_back.")
