"""C12 — compressed bytes identical to zlib-ng.  Decided clause (parameters only): level table,
match-finder thresholds, hash constants and static tables equal those parsed from the vendored
zlib-ng C sources."""
import os
import sys

from .. import consts, shape, mir
from ..core import where
from ..ctx import prog, Z

sys.path.insert(0, os.path.join(os.path.dirname(os.path.abspath(__file__)), "..", ".."))
from oracles import zlibng_ref  # noqa: E402

EXPLANATION = (
    "CONST (cross-language): the ten (good, lazy, nice, chain, function) rows of CONFIGURATION_TABLE, STD_MIN/MAX_MATCH, "
    "WANT_MIN_MATCH, MIN_LOOKAHEAD, HASH_BITS/SIZE, MAX/DEF_MEM_LEVEL, MAX_WBITS, LIT_BUFS, EARLY_EXIT_TRIGGER_LEVEL, "
    "hash multiplier/shift of both hash variants, the roll-hash switch threshold, tree-size constants, and all static "
    "trees/code tables equal the values parsed from zlib-ng's deflate.c, deflate.h, zutil.h, trees_tbl.h, "
    "insert_string*.c, match_tpl.h (frozen extract with file hashes). Equal parameters are necessary, far from "
    "sufficient, for byte identity: match selection and block splitting are algorithmic and not decided. "
    "SIB/ref-writes: write-set parity of the compressor core with zlib-ng's functions (see C01). "
    "SIB/ref-conditions: the elementary conditions and calls of the zlib-ng functions this code was ported from (oracles/condparity.json, frozen from the vendored C sources) keep a counterpart in the paired zlib-rs function.")

CLAIM = dict(
    text="Static cross-language constant comparison: every tuning parameter and static table the compressed bytes depend "
         "on is compared with the value parsed from the vendored zlib-ng C sources. Any difference changes the bytes for "
         "some input (necessary condition); the algorithms themselves are not compared.",
    note="Trusted: the frozen extract oracles/zlibng_ref.json (parsed from libz-sys-1.1.29's zlib-ng; file hashes "
         "recorded; re-parsed and compared in the thorough tier when the registry copy is present), rustc const evaluation.",
    technique="const-evaluated tuning parameters compared with values parsed from the reference C sources",
)

FUNC_MAP = {"deflate_stored": "stored::deflate_stored", "deflate_quick": "quick::deflate_quick", "deflate_fast": "fast::deflate_fast",
            "deflate_medium": "medium::deflate_medium", "deflate_slow": "slow::deflate_slow"}


def run(ck):
    P = prog("K1")
    ck.configs.add("K1")
    hash_seed_position(ck, P)
    ref = zlibng_ref.load()
    R = "CONST/zlib-ng"
    n = 0
    try:
        ct = consts.get(P, Z + "deflate::algorithm::CONFIGURATION_TABLE")
    except consts.ConstError:
        ct = None
        ck.anchor("static CONFIGURATION_TABLE", False)
    if ct is not None:
        ck.decide(len(ct) == len(ref["configuration_table"]), R, "CONFIGURATION_TABLE:len", "10 rows", "table has %d rows, zlib-ng has %d" % (len(ct), len(ref["configuration_table"])))
        for i, (row, want) in enumerate(zip(ct, ref["configuration_table"])):
            fnp = row["func"].get("ptr", {}).get("fn", "") if isinstance(row["func"], dict) and row["func"].get("ptr") else ""
            got = [row["good_length"], row["max_lazy"], row["nice_length"], row["max_chain"]]
            okf = fnp.endswith(FUNC_MAP.get(want[4], "?"))
            ck.decide(got == want[:4] and okf, R, "CONFIGURATION_TABLE[%d]" % i, "%s %s" % (want[:4], want[4]),
                      "level %d is (good,lazy,nice,chain)=%s func=%s; zlib-ng has %s %s" % (i, got, fnp.split("::")[-1], want[:4], want[4]))
            n += 5
    M = ref["macros"]
    pairs = [
        ("deflate::STD_MIN_MATCH", "STD_MIN_MATCH"), ("deflate::STD_MAX_MATCH", "STD_MAX_MATCH"), ("deflate::WANT_MIN_MATCH", "WANT_MIN_MATCH"),
        ("deflate::MIN_LOOKAHEAD", "MIN_LOOKAHEAD"), ("deflate::HASH_BITS", "HASH_BITS"), ("deflate::HASH_SIZE", "HASH_SIZE"),
        ("deflate::MAX_MEM_LEVEL", "MAX_MEM_LEVEL"), ("deflate::DEF_MEM_LEVEL", "DEF_MEM_LEVEL"), ("MAX_WBITS", "MAX_WBITS"), ("MIN_WBITS", "MIN_WBITS"),
        ("deflate::LENGTH_CODES", "LENGTH_CODES"), ("deflate::LITERALS", "LITERALS"), ("deflate::L_CODES", "L_CODES"), ("deflate::D_CODES", "D_CODES"),
        ("deflate::BL_CODES", "BL_CODES"), ("deflate::HEAP_SIZE", "HEAP_SIZE"), ("deflate::MAX_BITS", "MAX_BITS"), ("deflate::MAX_BL_BITS", "MAX_BL_BITS"),
        ("deflate::REP_3_6", "REP_3_6"), ("deflate::REPZ_3_10", "REPZ_3_10"), ("deflate::REPZ_11_138", "REPZ_11_138"),
        ("deflate::DIST_CODE_LEN", "DIST_CODE_LEN"), ("deflate::BitWriter::BIT_BUF_SIZE", "BIT_BUF_SIZE"),
        ("deflate::longest_match::EARLY_EXIT_TRIGGER_LEVEL", "EARLY_EXIT_TRIGGER_LEVEL"),
        ("deflate::hash_calc::StandardHashCalc::hash_calc::HASH_SLIDE", "HASH_SLIDE_STD"),
        ("deflate::hash_calc::RollHashCalc::hash_calc::HASH_SLIDE", "HASH_SLIDE_ROLL"),
        ("deflate::DeflateAllocOffsets::new::LIT_BUFS", "LIT_BUFS_NO_LIT_MEM"),
    ]
    for rs, cn in pairs:
        try:
            g = consts.get(P, Z + rs)
        except consts.ConstError:
            ck.anchor("const " + rs, False)
            continue
        ck.decide(g == M[cn], R, rs, "= %s" % M[cn], "%s is %s; zlib-ng's %s is %s" % (rs, g, cn, M[cn]))
        n += 1
    # hash multiplier
    hc = P.fn(Z + "deflate::hash_calc::StandardHashCalc::hash_calc") or P.one_fn(r"hash_calc::StandardHashCalc::hash_calc$")
    if ck.anchor("fn StandardHashCalc::hash_calc", hc):
        ck.use_fn(hc)
        cs = shape.fn_int_consts(hc)
        ck.decide(M["HASH_MULT_STD"] in cs, R, "hash multiplier", "= %d" % M["HASH_MULT_STD"],
                  "standard hash does not multiply by zlib-ng's %d (constants %s)" % (M["HASH_MULT_STD"], sorted(cs)), where(hc))
    fv = P.one_fn(r"hash_calc::HashCalcVariant::for_max_chain_length$")
    if ck.anchor("fn HashCalcVariant::for_max_chain_length", fv):
        ck.use_fn(fv)
        cs = shape.fn_int_consts(fv)
        ck.decide(1024 in cs, R, "roll-hash threshold", "max_chain_length > 1024", "roll hash switch threshold is not 1024 (constants %s)" % sorted(cs), where(fv))
    # static tables
    def cmp(name, got, want, conv=lambda x: x):
        got = [conv(x) for x in got]
        bad = [(i, g, w) for i, (g, w) in enumerate(zip(got, want)) if g != w]
        ck.decide(len(got) >= len(want) and not bad, R, name, "%d entries equal" % len(want),
                  "%s differs from zlib-ng at %d entries, first %s" % (name, len(bad), bad[:1]))
        return len(want)
    T = Z + "deflate::trees_tbl::"
    SD = Z + "deflate::StaticTreeDesc::"
    try:
        n += cmp("STATIC_LTREE", consts.get(P, T + "STATIC_LTREE"), ref["static_ltree"], lambda v: [v["a"], v["b"]])
        n += cmp("STATIC_DTREE", consts.get(P, T + "STATIC_DTREE"), ref["static_dtree"], lambda v: [v["a"], v["b"]])
        n += cmp("DIST_CODE", consts.get(P, T + "DIST_CODE"), ref["dist_code"])
        n += cmp("LENGTH_CODE", consts.get(P, T + "LENGTH_CODE"), ref["length_code"])
        n += cmp("BASE_LENGTH", consts.get(P, T + "BASE_LENGTH"), ref["base_length"])
        n += cmp("BASE_DIST", consts.get(P, T + "BASE_DIST"), ref["base_dist"])
        n += cmp("EXTRA_LBITS", consts.get(P, SD + "EXTRA_LBITS"), ref["extra_lbits"])
        n += cmp("EXTRA_DBITS", consts.get(P, SD + "EXTRA_DBITS"), ref["extra_dbits"])
        n += cmp("EXTRA_BLBITS", consts.get(P, SD + "EXTRA_BLBITS"), ref["extra_blbits"])
        n += cmp("BL_ORDER", consts.get(P, SD + "BL_ORDER"), ref["bl_order"])
    except consts.ConstError as e:
        ck.anchor("static tables (%s)" % e, False)
    # lit_bufsize = 1 << (memLevel + 6)
    ini = P.fn(Z + "deflate::init")
    if ck.anchor("fn deflate::init", ini):
        ck.use_fn(ini)
        ok = False
        for bi, si, lhs, rv, s in ini.assignments():
            e = ini.rvalue_expr(rv)
            if e[0] == "bin" and e[1] == "Shl" and mir.mentions_field(e, "mem_level") and mir.mentions_const(e, val=6):
                ok = True
        ck.decide(ok, R, "lit_bufsize", "1 << (mem_level + 6)", "lit_bufsize is not 1 << (memLevel + 6)", where(ini))
    heuristics(ck, P, ref)
    # a copied stream has to keep every tuning field, or its bytes differ from the reference's copy
    from . import c14 as _c14
    _c14.copy_identity(ck, P)
    from .. import condparity
    ck.floor("SIB/ref-conditions", condparity.check(ck, P, "SIB/ref-conditions", only={"trees.c:send_all_trees", "trees.c:compress_block", "trees.c:init_block", "trees.c:zng_tr_stored_block", "trees.c:gen_codes", "trees.c:pqdownheap", "match_tpl.h:LONGEST_MATCH", "deflate.c:lm_init", "deflate_stored.c:deflate_stored", "deflate.c:fill_window", "deflate_fast.c:deflate_fast", "deflate_slow.c:deflate_slow", "deflate_medium.c:deflate_medium", "deflate_medium.c:emit_match", "deflate_medium.c:insert_match", "deflate_medium.c:fizzle_matches", "deflate_quick.c:deflate_quick", "deflate_rle.c:deflate_rle", "deflate_huff.c:deflate_huff", "trees.c:zng_tr_flush_block", "trees.c:gen_bitlen", "trees.c:build_tree", "trees.c:scan_tree", "trees.c:build_bl_tree", "deflate.c:deflate"}), 130)
    from .. import refwrites
    ck.floor("SIB/ref-writes", refwrites.check(ck, P, "SIB/ref-writes", only={"deflate.c:deflateTune", "deflate.c:deflateParams", "deflate.c:fill_window", "deflate.c:lm_init", "deflate.c:lm_set_level", "deflate_fast.c:deflate_fast", "deflate_slow.c:deflate_slow", "deflate_medium.c:deflate_medium", "deflate_quick.c:deflate_quick", "deflate_rle.c:deflate_rle", "deflate_huff.c:deflate_huff", "deflate_stored.c:deflate_stored"}), 40)
    ck.extra["values_compared"] = n
    ck.extra["exhaustive"] = True
    ck.extra["reference_files"] = ref["files"]
    ck.assumptions += ["oracles/zlibng_ref.json is a faithful extract of libz-sys-1.1.29/src/zlib-ng (hashes recorded)",
                       "rustc const evaluation"]


# id -> (rust function regex, [atom patterns that must all occur among the function's branch atoms])
LOCAL_SPELLINGS = {"match_len", "best_len"}

HEURISTICS_RS = {
    "slow:filtered-short-match": (r"algorithm::slow::deflate_slow$", [dict(rel="Le", lo_names={"match_len"}, hi_consts={5}), dict(rel="Eq", names={"strategy", "Filtered"})]),
    "slow:lazy-prev-better": (r"algorithm::slow::deflate_slow$", [dict(rel="Le", lo_names={"STD_MIN_MATCH"}, hi_names={"prev_length"}), dict(rel="Le", lo_names={"match_len"}, hi_names={"prev_length"})]),
    "slow:lazy-limit": (r"algorithm::slow::deflate_slow$", [dict(rel="Lt", lo_names={"prev_length"}, hi_names={"max_lazy_match"})]),
    "slow:long-chain-matcher": (r"algorithm::slow::deflate_slow$", [dict(rel="Le", lo_names={"max_chain_length"}, hi_consts={1024})]),
    "fast:min-match": (r"algorithm::fast::deflate_fast$", [dict(rel="Le", lo_names={"WANT_MIN_MATCH"}, hi_names={"match_len"})]),
    "fast:insert-limit": (r"algorithm::fast::deflate_fast$", [dict(rel="Le", lo_names={"match_len"}, calls={"State::max_insert_length"}), dict(rel="Le", lo_names={"WANT_MIN_MATCH"}, hi_names={"lookahead"})]),
    "quick:min-match": (r"algorithm::quick::deflate_quick$", [dict(rel="Le", lo_names={"WANT_MIN_MATCH"}, hi_names={"match_len"})]),
    "quick:pending-room": (r"algorithm::quick::deflate_quick$", [dict(rel="Le", lo_calls={"State::pending_buf_size"}, hi_names={"BIT_BUF_SIZE", "pending"}, hi_consts={8})]),
    "rle:min-match": (r"algorithm::rle::deflate_rle$", [dict(rel="Le", lo_names={"STD_MIN_MATCH"}, hi_names={"match_len"})]),
    "medium:insert-limit": (r"algorithm::medium::insert_match$", [dict(rel="Le", lo_names={"match_length"}, hi_consts={16}, calls={"State::max_insert_length"}), dict(rel="Le", lo_names={"WANT_MIN_MATCH"}, hi_names={"lookahead"})]),
    "medium:fizzle-256": (r"algorithm::medium::fizzle_matches$", [dict(rel="Le", lo_consts={256}, hi_names={"match_length"})]),
    "medium:lookahead-next": (r"algorithm::medium::deflate_medium$", [dict(rel="Le", lo_consts={263}, hi_names={"lookahead"})]),
    "match:good-match-quarter": (r"longest_match::longest_match_help$", [dict(rel="Le", lo_names={"good_match"}, hi_names={"best_len"})]),
    "match:nice-match": (r"longest_match::longest_match_help$", [dict(rel="Le", lo_names={"nice_match"}, hi_names={"best_len"})]),
    "match:early-exit": (r"longest_match::longest_match_help$", [dict(rel="Lt", lo_names={"level"}, hi_names={"EARLY_EXIT_TRIGGER_LEVEL"})]),
}


def heuristics(ck, P, ref, only=None):
    """tuning conditions inside the compress functions: the condition text exists in zlib-ng's C source (frozen
    extract) and the corresponding branch atom exists in the Rust function"""
    from .. import atoms as _atoms, sig as _sig
    R = "ATOM/heuristic"
    cref = ref.get("heuristics", {})
    for hid, (rx, pats) in HEURISTICS_RS.items():
        if only is not None and hid not in only:
            continue
        fn = P.one_fn(rx)
        if not ck.anchor("fn %s (heuristic %s)" % (rx, hid), fn):
            continue
        ck.use_fn(fn)
        ck.decide(cref.get(hid) is True, R, hid + ":reference", "condition present in zlib-ng's source", "the reference condition for %s was not found in the zlib-ng extract" % hid)
        ss = [_sig.sig(a, fn) for a, b, tb in _atoms.all_atoms(fn)]
        # names of working locals are required only while a local of that spelling exists (a renamed local weakens the
        # pattern to its fields/constants instead of failing it)
        have_locals = {str(l.get("name")) for l in fn.locals if l.get("name")}

        def relax(p):
            q = dict(p)
            for k in ("names", "lo_names", "hi_names"):
                if k in q:
                    q[k] = {n for n in q[k] if n not in LOCAL_SPELLINGS or n in have_locals}
                    if not q[k]:
                        del q[k]
            return q
        pats = [relax(p) for p in pats]
        missing = [p for p in pats if not any(_sig.match(s_, p) for s_ in ss)]
        if hid == "match:early-exit" and missing:
            # `early_exit = level < EARLY_EXIT_TRIGGER_LEVEL` is a stored comparison, not a branch
            for bi, si, lhs, rv, st in fn.assignments():
                e = fn.rvalue_expr(rv)
                if e[0] == "bin" and e[1] == "Lt" and mir.mentions_field(e[2], "level") and mir.mentions_const(e[3], defname="EARLY_EXIT_TRIGGER_LEVEL"):
                    missing = []
        ck.decide(not missing, R, hid, "branch atom(s) present in %s" % fn.path.split("::")[-1],
                  "%s no longer tests %s: zlib-ng decides with this condition which bytes are emitted, so outputs diverge for inputs that "
                  "reach it" % (fn.path, missing), where(fn))
    if only is None:
        ck.floor(R, len(HEURISTICS_RS), 15)


def run_thorough(ck):
    d = zlibng_ref.verify_against_registry()
    if d is None:
        ck.note("registry copy of zlib-ng not present; frozen extract used as is")
    elif d:
        ck.note("CHECKER WARNING: frozen zlib-ng extract differs from the registry copy in %s" % d)
    else:
        ck.note("frozen zlib-ng extract re-parsed from the registry copy: identical")


def hash_seed_position(ck, P, R="GUARD/hash-seed-position"):
    """fill_window re-seeds the rolling hash before it inserts the `insert` positions that were waiting for more lookahead: the two
    seed bytes are the window bytes at `strstart - insert` and the one after (zlib-ng: `str = s->strstart - s->insert`).  Seeded
    from anywhere else the waiting positions enter the table under a wrong hash and matches that start there are not found
    (level 9 after a dictionary or a flush) - the stream stays valid, the bytes differ from zlib-ng's."""
    from .. import linear
    f = P.fn(Z + "deflate::fill_window")
    if not ck.anchor("fn deflate::fill_window", f):
        return
    ck.use_fn(f)
    calls = f.live_calls(r"State::update_hash$")
    if not ck.anchor("update_hash call in fill_window", bool(calls)):
        return
    for i, c in enumerate(calls):
        args = f.call_args(c)[1:]
        offs = []
        for x in args:
            idx = [n for n in mir.walk(x) if n[0] == "[]"]
            lf = [linear.linear(f, n[2]) for n in idx]
            good = [l for l in lf if l.get(".strstart") == 1 and l.get(".insert") == -1]
            offs.append(good[0].get("#", 0) if good else None)
        ok = len(offs) == 2 and None not in offs and sorted(offs) == [0, 1]
        ck.decide(ok, R, "fill_window:update_hash#%d" % i, "seed bytes at strstart - insert and the next",
                  "fill_window seeds the rolling hash from window positions %s instead of `strstart - insert` and `strstart - insert + 1`"
                  % [mir.fmt(x, f)[:60] for x in args], where(f, c.line))

# session 5 (round 10)
EXPLANATION = EXPLANATION + " " + (
    'GUARD/hash-seed-position: fill_window seeds the rolling hash from the window bytes at strstart - insert and the next (linear form of the index expressions).')
