"""C18 — allocator discipline: balanced alloc/free; clean failure when allocation fails."""
import re

from .. import mir, sig, shape, atoms, flow
from ..core import where
from ..ctx import prog, Z, SYS

EXPLANATION = (
    "WHO: Allocator::allocate_* is called only from {deflate,inflate}::{init,copy}, back_init and, through the gz layer's "
    "ALLOCATOR, gzopen_help, gz_look, gz_init, gz_strdup, gz_strcat; deallocate only from {deflate,inflate}::end, free_state, "
    "free_buffers, deallocate_cstr; indirect calls through zalloc/zfree occur only inside allocate.rs. REL: on every failure exit "
    "that is dominated by a successful allocation the allocation is released first (inflate::init -> end on reset failure; "
    "gzopen_help -> free_state on each of its later failures; gz_look / gz_init -> free_buffers); the one-shot drivers pass end() on "
    "every exit after a successful init; infeasible exits (from_stream_mut returning None right after the state was stored) are "
    "listed. COUP: end() frees the stored allocation_start with the stored total_allocation_size; init stores the pointer returned and "
    "the size requested; gz buffers are freed with the capacity expressions they were allocated with. A failed deflateCopy/"
    "inflateCopy overwrites dest.state before returning MemError. SIB: in both alternatives of allocate_layout and "
    "allocate_layout_zeroed the usize size reaches the c_uint parameter of zalloc through a fallible conversion. Error discipline: "
    "the Result of gz_look/gz_init/gz_comp/... is discarded only in listed places. Balance over arbitrary run-time histories is not decided. "
    "REL/end-frees: deflate::end and inflate::end reach Allocator::deallocate and null strm.state on every path to return; gzclose_r/gzclose_w call free_state on every path once the handle is admitted. "
    "REL/gz-stream-pairing: gzclose_r/gzclose_w skip inflateEnd/deflateEnd only under the conditions that guard inflateInit2_/deflateInit2_ in gz_look/gz_init.")

CLAIM = dict(
    text="Static release-on-failure (cut-set from each successful allocation to every failure exit it dominates), who-may-allocate/"
         "free, stored-pointer/size agreement between allocation and free, no-alias-after-failed-copy, and size-conversion "
         "integrity of the allocator front end. Covers the k-th allocation failing for every k without injecting faults. "
         "Necessary conditions of balanced allocation and clean failure. "
         "Also: deflateEnd/inflateEnd/gzclose release the state on every path to return.",
    note="Trusted: rustc MIR; listed infeasible exits (one reason each); K1 (Rust allocator) and K2 (C allocator) builds.",
    technique="release-on-failure cut-set analysis + who-may-call + stored-size agreement over rustc MIR",
)

ALLOC_CALLERS = {
    Z + "deflate::init", Z + "deflate::copy", Z + "inflate::init", Z + "inflate::copy", Z + "inflate::infback::back_init",
    SYS + "gz::gzopen_help", SYS + "gz::gz_look", SYS + "gz::gz_init", SYS + "gz::gz_strdup", SYS + "gz::gz_strcat",
}
FREE_CALLERS = {Z + "deflate::end", Z + "inflate::end", SYS + "gz::free_state", SYS + "gz::free_buffers", SYS + "gz::deallocate_cstr"}
DISCARD_OK = {
    (SYS + "gz::gzdirect", "gz_look"): "gzdirect only reads state.direct afterwards; no buffer is touched",
    (SYS + "gz::gzflush", "gz_comp"): "gzflush returns state.err, which gz_comp set on failure",
}
RESULT_HELPERS = r"gz::gz_(look|init|comp|fetch|decomp|load|avail|skip|zero)$"


def who(ck, P, cfg):
    R = "WHO/allocator"
    n = 0
    for f in P.fns.values():
        for c in f.live_calls(r"allocate::Allocator::(allocate_\w+|deallocate)$"):
            if f.path.startswith(Z + "allocate::"):
                continue
            n += 1
            last = c.callee.split("::")[-1]
            allowed = FREE_CALLERS if last == "deallocate" else ALLOC_CALLERS
            ck.decide(f.path in allowed, R, "%s<-%s@%s" % (last, f.path.replace(Z, "").replace(SYS, ""), cfg), "listed owner function",
                      "%s calls Allocator::%s: only the owner functions may allocate/free (a second owner makes double frees and leaks possible)" % (f.path, last), where(f, c.line))
        # indirect calls through stream.zalloc/zfree outside allocate.rs
        if not f.path.startswith(Z + "allocate::"):
            for c in f.live_calls():
                if c.callee is None:
                    fe = f.operand_expr(c.raw["func"])
                    r, fp = mir.field_path(fe)
                    if fp[-1:] in (("zalloc",), ("zfree",)):
                        ck.bad(R, "indirect@%s@%s" % (f.path.replace(Z, ""), cfg), "%s calls through %s directly, bypassing Allocator" % (f.path, fp[-1]), where(f, c.line))
    ck.floor(R + ":" + cfg, n, 18)
    al = P.fn(Z + "allocate::Allocator::allocate_layout")
    de = P.fn(Z + "allocate::Allocator::deallocate")
    for f in (al, de):
        if not ck.anchor("allocate.rs front end", f):
            continue
        for c in f.live_calls():
            if c.callee is None:
                a = f.call_args(c)
                r, fp = mir.field_path(a[0]) if a else (None, ())
                fe = f.operand_expr(c.raw["func"])
                r2, fp2 = mir.field_path(fe)
                if fp2[-1:] in (("zalloc",), ("zfree",)) and r2 == ("p", 1):
                    ck.decide(fp[-1:] == ("opaque",), R, "opaque@%s@%s" % (f.path.split("::")[-1], cfg), "callback receives self.opaque",
                              "the user's %s is called with %s instead of self.opaque" % (fp2[-1], mir.fmt(a[0], f)[:60]), where(f, c.line))


def size_integrity(ck, P, cfg):
    R = "SIB/alloc-size"
    n = 0
    for name in ("allocate_layout", "allocate_layout_zeroed"):
        f = P.fn(Z + "allocate::Allocator::" + name)
        if not ck.anchor("fn Allocator::" + name, f):
            continue
        ck.use_fn(f)
        for c in f.live_calls():
            a = f.call_args(c) if c.raw.get("args") else []
            is_alloc = False
            if c.callee is None and len(a) == 3:
                is_alloc = True
            elif c.callee and re.search(r"allocate::zalloc_\w+$", c.callee) and len(a) == 3:
                is_alloc = True
            if not is_alloc:
                continue
            n += 1
            sz = a[1]
            fallible = bool(mir.calls_in(sz, r"TryFrom|try_from|try_into"))
            ck.decide(fallible, R, "%s#%d@%s" % (name, n, cfg), "size converted with try_from (failure returns null)",
                      "allocation size reaches the c_uint parameter as `%s` without a fallible conversion: a request above 4 GiB is "
                      "silently truncated and later written at full size" % mir.fmt(sz, f)[:80], where(f, c.line))
            ck.call_sites += 1
    ck.floor(R + ":" + cfg, n, 2)


def _release_cut(fn, start, failure_blocks, release_blocks, extra_cut_edges=None):
    """True if a failure block reachable from start (without release) exists"""
    return flow.reaches_avoiding(fn, [start], failure_blocks, cut_blocks=release_blocks, cut_edges=extra_cut_edges)


def _null_return_blocks(fn):
    """blocks that give the return place a null pointer (directly, or through a temporary as after `return helper(..)`)"""
    out = set()
    for c in fn.live_calls(r"core::ptr::null_mut$|core::ptr::null$"):
        if c.dest and c.dest["l"] == 0 and "p" not in c.dest:
            out.add(c.bb)
    for bi, si, rv in fn.defs.get(0, []):
        if bi not in fn.live or rv is None or si == "call":
            continue
        e = mir.strip_casts(fn.rvalue_expr(rv))
        if e[0] == "call" and isinstance(e[1], str) and re.search(r"core::ptr::null(_mut)?$", e[1]):
            out.add(bi)
    return out


def _err_blocks(fn):
    out = set(flow.failure_blocks(fn))
    # an Err built for a local that the function then propagates (`helper()?` after the helper was folded in)
    for bi, si, lhs, rv, st in fn.assignments():
        if bi in fn.live and isinstance(rv, dict) and rv.get("k") == "agg" and str(rv.get("adt", "")).endswith("result::Result") and rv.get("variant") == "Err":
            out.add(bi)
    return out


def release_on_failure(ck, P, cfg):
    R = "REL/failure-exit"
    # (function, acquire regex, release regex, failure-block selector, label)
    sites = [
        (SYS + "gz::gzopen_help", r"Allocator::allocate_zeroed_raw$", r"gz::free_state$", _null_return_blocks, 4),
        (SYS + "gz::gz_look", r"Allocator::allocate_slice_raw$", r"gz::free_buffers$", _err_blocks, 2),
        (SYS + "gz::gz_init", r"Allocator::allocate_slice_raw$", r"gz::free_buffers$", _err_blocks, 2),
    ]
    for path, acq, rel, sel, floor in sites:
        fn = P.fn(path)
        if path.startswith(SYS) and fn is None and cfg == "K4":
            continue
        if not ck.anchor("fn %s (%s)" % (path, cfg), fn):
            continue
        ck.use_fn(fn)
        acqs = fn.live_calls(acq)
        if not ck.anchor("allocation in " + path, acqs):
            continue
        first = min(acqs, key=lambda c: c.bb)
        # success successor: the Some edge of the Option returned
        succ_blocks = _success_successors(fn, first)
        rels = [c.bb for c in fn.live_calls(rel)]
        fails = {b for b in sel(fn) if any(fn.dominates(s, b) for s in succ_blocks)}
        ck.floor("%s:%s@%s" % (R, path.split("::")[-1], cfg), len(fails), floor)
        leak = any(_release_cut(fn, s, fails, rels) for s in succ_blocks)
        ck.decide(not leak and bool(rels), R, "%s@%s" % (path.replace(SYS, ""), cfg), "%d failure exits after the allocation, each behind %s" % (len(fails), rel.split("::")[-1].rstrip("$")),
                  "%s can take a failure exit after its first allocation succeeded without calling %s: the allocation leaks when a later step fails"
                  % (path, rel.split("::")[-1].rstrip("$")), where(fn))
    # inflate::init: reset failure -> end
    fn = P.fn(Z + "inflate::init")
    if ck.anchor("fn inflate::init", fn):
        ck.use_fn(fn)
        ends = [c.bb for c in fn.live_calls(r"zlib_rs::inflate::end$")]
        rst = fn.live_calls(r"inflate::reset_with_config$")
        okk = False
        if rst and ends:
            for b, lab, tb, ats in atoms.edges(fn):
                for a in ats:
                    s = sig.sig(a, fn)
                    if s.rel == "Ne" and "Ok" in s.names and "reset_with_config" in " ".join(s.calls):
                        # the failing edge leads to end() before return
                        rets = [x for x, k in fn.exits() if k == "return"]
                        if not flow.reaches_avoiding(fn, [tb], rets, cut_blocks=ends):
                            okk = True
        ck.decide(okk, R, "inflate::init@" + cfg, "reset failure releases through end()",
                  "inflate::init returns a reset failure without ending the stream: the state allocated a few lines earlier leaks", where(fn))
    # one-shot drivers
    for path, initrx, endrx in ((Z + "inflate::uncompress2", r"zlib_rs::inflate::init$", r"zlib_rs::inflate::end$"),
                                (Z + "deflate::compress_with_flush", r"zlib_rs::deflate::init$", r"zlib_rs::deflate::end$")):
        fn = P.fn(path)
        if not ck.anchor("fn " + path, fn):
            continue
        ck.use_fn(fn)
        ini = fn.live_calls(initrx)
        ends = [c.bb for c in fn.live_calls(endrx)]
        rets = [x for x, k in fn.exits() if k == "return"]
        if not ck.anchor("init/end calls in " + path, ini and ends):
            continue

        def cut_edges(b, lab, tb, fn=fn):
            if lab is None or lab[0] == "const":
                return False
            for a in fn.edge_atoms(b, lab):
                s = sig.sig(a, fn)
                # init failed: nothing to release
                if s.rel == "Ne" and "Ok" in s.names and "init" in " ".join(s.calls):
                    return True
                # listed infeasible exit: from_stream_mut is None right after a successful init
                if s.kind in ("is", "isnot") and any("from_stream_mut" in c for c in s.calls) and (("None" in (s.variants or ())) == (s.rel == "is")):
                    return True
            return False

        leak = flow.reaches_avoiding(fn, [ini[0].target], rets, cut_blocks=ends, cut_edges=cut_edges)
        ck.decide(not leak, R, path.replace(Z, "") + "@" + cfg, "every exit after a successful init passes end()",
                  "%s can return after a successful init without ending the stream (leak)" % path, where(fn))


def _success_successors(fn, call):
    """blocks entered on the success (Some / non-null) edge of the Option returned by `call`"""
    t = call.target
    out = []
    cur = t
    for _ in range(6):
        term = fn.blocks[cur]["t"]
        if term["k"] == "switch":
            for lab, tb in fn.succ[cur]:
                if lab is None or lab[0] == "const":
                    continue
                for a in fn.edge_atoms(cur, lab):
                    if a[0] == "is" and ((a[3] and "Some" in a[2]) or (not a[3] and "None" in a[2])):
                        out.append(tb)
                    if a[0] == "int" and ((a[3] and 1 in a[2]) or (not a[3] and 0 in a[2])):
                        out.append(tb)
            break
        su = fn.succ[cur]
        if len(su) != 1:
            break
        cur = su[0][1]
    return out or [t]


def stored_size(ck, P, cfg):
    R = "COUP/free-what-was-allocated"
    # the fields that record the allocation are found by what init stores in them (the pointer returned by the allocator,
    # the size that was requested) - not by their names, so renaming or regrouping them does not matter
    roles = {}
    for path in (Z + "deflate::init", Z + "inflate::init", Z + "inflate::infback::back_init"):
        fn = P.fn(path)
        if not ck.anchor("fn " + path, fn):
            continue
        ck.use_fn(fn)
        ac = fn.live_calls(r"Allocator::allocate_slice_raw$")
        if not ck.anchor("allocation in " + path, len(ac) == 1):
            continue
        req = fn.call_args(ac[0])[1]
        size_fields, stored = set(), None
        cand = []
        for bi, fp, root, rv, s_ in fn.field_writes():
            cand.append((fp[-1], rv))
        for bi, si, lhs, rv, s_ in fn.assignments():
            if rv["k"] == "agg" and rv.get("agg") == "adt":
                e = fn.rvalue_expr(rv)
                for fname, val in e[3]:
                    cand.append((fname, val))
        for fname, val in cand:
            if coup_strip(val) == coup_strip(req):
                size_fields.add(fname)
                stored = val
        mod = "deflate" if "deflate" in path else "inflate"
        roles.setdefault(mod, set()).update(size_fields)
        ck.decide(bool(size_fields), R, path.replace(Z, "") + ":size@" + cfg, "a state field records the requested size (%s) in %s" % (mir.fmt(req, fn)[:40], sorted(size_fields)),
                  "%s requests %s bytes but no state field records that size: the free will pass a wrong size" % (path, mir.fmt(req, fn)[:50]), where(fn))
    for mod in ("deflate", "inflate"):
        fn = P.fn(Z + mod + "::end")
        if not ck.anchor("fn %s::end" % mod, fn):
            continue
        ck.use_fn(fn)
        de = fn.live_calls(r"Allocator::deallocate$")
        if not ck.anchor("deallocate in %s::end" % mod, len(de) == 1):
            continue
        a = fn.call_args(de[0])
        sizes = roles.get(mod, set()) or {"total_allocation_size"}
        ok = any(mir.mentions_field(a[2], f) for f in sizes) and any(x[0] == "f" for x in mir.walk(a[1]))
        ck.decide(ok, R, "%s::end@%s" % (mod, cfg), "deallocate(stored pointer, stored size %s)" % sorted(sizes),
                  "%s::end frees (%s, %s): not the allocation pointer and size that init recorded (%s)" % (mod, mir.fmt(a[1], fn)[:60], mir.fmt(a[2], fn)[:60], sorted(sizes)), where(fn, de[0].line))
        # state pointer cleared before/after freeing
        wr = [1 for bi, fp, root, rv, s in fn.field_writes() if fp[-1:] == ("state",)]
        rp = fn.live_calls(r"core::mem::replace$")
        ck.decide(bool(wr) or any(mir.field_path(fn.call_args(c)[0])[1][-1:] == ("state",) for c in rp), R, "%s::end:null-state@%s" % (mod, cfg), "stream.state cleared",
                  "%s::end does not clear stream.state: a second End would free again" % mod, where(fn))
    fb = P.fn(SYS + "gz::free_buffers")
    if fb is not None:
        ck.use_fn(fb)
        caps = []
        for c in fb.live_calls(r"Allocator::deallocate$"):
            a = fb.call_args(c)
            caps.append((mir.fmt(a[1], fb), mir.fmt(a[2], fb)))
        ok = any("input" in p and "in_capacity" in n for p, n in caps) and any("output" in p and "out_capacity" in n for p, n in caps)
        ck.decide(ok, R, "gz::free_buffers@" + cfg, "input freed with in_capacity(), output with out_capacity()",
                  "free_buffers frees %s" % caps, where(fb))
        for path in (SYS + "gz::gz_look", SYS + "gz::gz_init"):
            f = P.fn(path)
            if not f:
                continue
            got = [mir.fmt(f.call_args(c)[1], f) for c in f.live_calls(r"Allocator::allocate_slice_raw$")]
            ok = any("in_capacity" in g for g in got) and any("out_capacity" in g for g in got)
            ck.decide(ok, R, path.replace(SYS, "") + ":capacity@" + cfg, "buffers allocated with in_capacity()/out_capacity()", "%s allocates %s" % (path, got), where(f))
        # `want` (the input of both capacities) may change only before the first allocation
        gb = P.fn(SYS + "gz::gzbuffer")
        if gb is not None:
            ws = [bi for bi, fp, root, rv, s in gb.field_writes() if fp[-1:] == ("want",)]
            ok = bool(ws) and all(any(s.rel == "Eq" and "in_size" in s.names and 0 in s.consts for s in shape.dominating_sigs(gb, b)) for b in ws)
            ck.decide(ok, R, "gz::gzbuffer:want@" + cfg, "want changes only while in_size == 0", "gzbuffer can change `want` after buffers were allocated: they would be freed with a different size", where(gb))
        writers = sorted({f.path for f in P.fns.values() if f.crate == "libz_rs_sys" for bi, fp, root, rv, s in f.field_writes() if fp[-1:] == ("want",)})
        ck.decide(set(writers) <= {SYS + "gz::gzbuffer", SYS + "gz::gzopen_help", SYS + "gz::GzState::configure"}, R, "gz:want-writers@" + cfg, "want written only by %s" % [w.split("::")[-1] for w in writers],
                  "`want` is written by %s" % writers)


def coup_strip(e):
    from ..coup import strip_all_casts
    return strip_all_casts(e)


def failed_copy(ck, P, cfg):
    R = "REL/failed-copy-aliases"
    for mod in ("deflate", "inflate"):
        fn = P.fn(Z + mod + "::copy")
        if not ck.anchor("fn %s::copy" % mod, fn):
            continue
        ck.use_fn(fn)
        ac = fn.live_calls(r"Allocator::allocate_slice_raw$")
        if not ck.anchor("allocation in %s::copy" % mod, len(ac) == 1):
            continue
        mem = [bi for bi, si, lhs, rv, s in fn.assignments() if lhs["l"] == 0 and "p" not in lhs and fn.enum_const(fn.rvalue_expr(rv)) == (Z + "ReturnCode", "MemError")]
        clears = []
        for c in fn.live_calls(r"core::ptr::write$"):
            a = fn.call_args(c)
            r, fp = mir.field_path(mir.strip_casts(a[0]))
            if fp[-1:] == ("state",):
                clears.append(c.bb)
        leak = flow.reaches_avoiding(fn, [ac[0].target], mem, cut_blocks=clears)
        ck.decide(bool(mem) and not leak, R, "%s::copy@%s" % (mod, cfg), "dest.state overwritten before MemError is returned",
                  "%s::copy returns MemError after copying the whole stream struct into dest without clearing dest.state: End(dest) would free "
                  "the source's state" % mod, where(fn))


def error_discipline(ck, P, cfg):
    R = "ERR/discarded-result"
    n = 0
    for f in P.fns.values():
        if f.crate != "libz_rs_sys" or "::gz::" not in f.path:
            continue
        used = _local_reads(f)
        for c in f.live_calls(RESULT_HELPERS):
            n += 1
            d = c.dest
            if d and "p" not in d and d["l"] != 0 and d["l"] not in used:
                key = (f.path, c.callee.split("::")[-1])
                ck.decide(key in DISCARD_OK, R, "%s:%s@%s" % (f.path.replace(SYS, ""), key[1], cfg), DISCARD_OK.get(key, ""),
                          "%s discards the Result of %s and carries on: after an allocation failure it uses buffers that do not exist" % key, where(f, c.line))
    ck.floor(R + ":" + cfg, n, 30)


def _local_reads(fn):
    used = set()

    def walk(o):
        if isinstance(o, dict):
            if "l" in o and o.get("k") in ("copy", "move"):
                used.add(o["l"])
            if "place" in o and isinstance(o["place"], dict):
                used.add(o["place"]["l"])
            for k, v in o.items():
                if k in ("lhs", "dest"):
                    if isinstance(v, dict):
                        for pr in v.get("p", []):
                            if isinstance(pr, dict) and "idx" in pr:
                                used.add(pr["idx"])
                        if v.get("p"):
                            used.add(v["l"]) if v["p"][0] == "*" else None
                    continue
                walk(v)
        elif isinstance(o, list):
            for x in o:
                walk(x)

    for b in fn.blocks:
        walk(b)
    return used


END_FUNCS = [Z + "deflate::end", Z + "inflate::end"]


def end_releases(ck, P, cfg):
    """deflateEnd / inflateEnd release the state block and null the state pointer on every path - whatever the status
    they report.  (A Busy stream ended early is an error *code*, not a reason to keep the memory: nothing else frees it.)"""
    R = "REL/end-frees"
    n = 0
    for path in END_FUNCS:
        fn = P.fn(path)
        if not ck.anchor("fn %s (%s)" % (path, cfg), fn):
            continue
        ck.use_fn(fn)
        n += 1
        rets = [b for b, k in fn.exits() if k == "return"]
        frees = {c.bb for c in fn.live_calls(r"Allocator::deallocate$")}
        nulls = set()
        for c in fn.live_calls(r"mem::replace$|mem::take$|ptr::write$"):
            a = fn.call_args(c)
            if a and mir.mentions_field(a[0], "state"):
                nulls.add(c.bb)
        for bi, fp, root, rv, st in fn.field_writes():
            if fp[-1:] == ("state",):
                nulls.add(bi)
        short = path.replace(Z, "")
        leak = not frees or flow.reaches_avoiding(fn, [0], rets, cut_blocks=frees)
        ck.decide(not leak, R, "%s:free@%s" % (short, cfg), "deallocate on every path to return",
                  "%s can return without releasing the state allocation (an early return before Allocator::deallocate): the block "
                  "is never freed, and the state pointer stays set so a second End does not free it either" % short, where(fn))
        stale = not nulls or flow.reaches_avoiding(fn, [0], rets, cut_blocks=nulls)
        ck.decide(not stale, R, "%s:null@%s" % (short, cfg), "strm.state nulled on every path to return",
                  "%s can return with strm.state still pointing at the (released) state" % short, where(fn))
    ck.floor(R + ":" + cfg, n, 2)



def gzclose_releases(ck, P, cfg):
    """gzclose_r / gzclose_w: once the handle passed the admission tests, every path to return releases the state"""
    R = "REL/end-frees"
    for name in ("gzclose_r", "gzclose_w"):
        fn = P.fn(SYS + "gz::" + name)
        if not ck.anchor("fn gz::%s (%s)" % (name, cfg), fn):
            continue
        ck.use_fn(fn)
        admitted = set()
        for b in fn.live:
            for a in fn.dominating_atoms(b):
                s_ = sig.sig(a, fn)
                if s_.rel == "Eq" and "mode" in s_.names and ({"GZ_WRITE", "GZ_READ"} & set(s_.names)):
                    admitted.add(b)
        preds = fn.preds()
        entries = [b for b in admitted if any(p not in admitted for p, _ in preds.get(b, []))]
        rets = [b for b, k in fn.exits() if k == "return"]
        frees = {c.bb for c in fn.live_calls(r"gz::free_state$")}
        ok = bool(entries) and bool(frees) and not flow.reaches_avoiding(fn, entries, rets, cut_blocks=frees)
        ck.decide(ok, R, "gz::%s:free@%s" % (name, cfg), "free_state on every path after admission",
                  "gz::%s can return, after accepting the handle, without calling free_state: the gz state (and its path/message "
                  "strings) leak, and the caller must not use the handle again" % name, where(fn))



def gz_stream_pairing(ck, P, cfg):
    """The gz layer creates its z_stream lazily (inflateInit2_ in gz_look, deflateInit2_ in gz_init) and ends it in
    gzclose_r / gzclose_w.  The end call may be skipped only under conditions under which the init call was skipped:
    the state fields tested around the End call are `in_size` (buffers were never set up) plus whatever guards the Init
    call.  An extra condition (e.g. `!direct` on the read side, where inflateInit2_ runs regardless of the format) leaks
    the inflate state of every transparently read file."""
    R = "REL/gz-stream-pairing"
    for close_name, end_rx, init_name, init_rx in (("gzclose_r", r"::inflateEnd$", "gz_look", r"::inflateInit2_$"),
                                                   ("gzclose_w", r"::deflateEnd$", "gz_init", r"::deflateInit2_$")):
        cf, inf = P.fn(SYS + "gz::" + close_name), P.fn(SYS + "gz::" + init_name)
        if not (ck.anchor("fn gz::%s (%s)" % (close_name, cfg), cf) and ck.anchor("fn gz::%s (%s)" % (init_name, cfg), inf)):
            continue
        ck.use_fn(cf)
        ck.use_fn(inf)
        ends, inits = cf.live_calls(end_rx), inf.live_calls(init_rx)
        if not (ck.anchor("End call in gz::%s (%s)" % (close_name, cfg), len(ends) == 1, where(cf)) and
                ck.anchor("Init call in gz::%s (%s)" % (init_name, cfg), len(inits) == 1, where(inf))):
            continue

        def guard_fields(fn, bb):
            out = set()
            for a in fn.dominating_atoms(bb):
                s_ = sig.sig(a, fn)
                out |= {n for n in s_.names if n in ("direct", "in_size", "out_size", "how", "input", "output", "size", "want", "level", "strategy", "eof", "past", "seek", "have", "err")}
            return out
        g_end = guard_fields(cf, ends[0].bb) - {"in_size"}
        g_init = guard_fields(inf, inits[0].bb)
        extra = sorted(g_end - g_init)
        ck.decide(not extra, R, "%s~%s@%s" % (close_name, init_name, cfg), "End is skipped only where Init was (guards %s)" % sorted(g_end),
                  "gz::%s ends the stream only under a condition on %s that does not guard the Init call in gz::%s: for the handles on which "
                  "that condition fails the z_stream's state is never released" % (close_name, extra, init_name), where(cf, ends[0].line))


def allocator_triple(ck, P, cfg):
    """zalloc, zfree and opaque belong together: a block obtained through one zalloc is released through the zfree that was
    configured with it (the two sides agree on the layout of the block and on opaque).  Every function that stores one of the
    three into a z_stream stores all three under the same conditions."""
    R = "COUP/allocator-triple"
    n = 0
    for f in sorted(P.fns.values(), key=lambda f: f.path):
        if not (f.path.startswith(Z) or f.path.startswith("libz_rs_sys::")):
            continue
        w = {}
        for bi, fp, root, rv, st in f.field_writes():
            if fp and str(fp[-1]) in ("zalloc", "zfree", "opaque") and bi in f.live:
                w.setdefault(str(fp[-1]), set()).add(bi)
        if not w:
            continue
        n += 1
        ck.use_fn(f)

        def conds(blocks):
            return {frozenset(repr((g.rel, sorted(g.names), sorted(map(str, g.consts)))) for g in shape.dominating_sigs(f, b)) for b in blocks}
        ok = set(w) == {"zalloc", "zfree", "opaque"} and conds(w["zalloc"]) == conds(w["zfree"]) == conds(w["opaque"])
        ck.decide(ok, R, "%s@%s" % (f.path.replace(Z, "").replace("libz_rs_sys::", ""), cfg), "zalloc, zfree and opaque stored together",
                  "%s stores %s of a z_stream but not all three under the same conditions: a stream can end up allocating through one "
                  "allocator and releasing through another (different block layout, different opaque)" % (f.path, "/".join(sorted(w))), where(f))
    ck.floor(R + "@" + cfg, n, 3)


def run_cfg(ck, cfg):
    P = prog(cfg)
    ck.configs.add(cfg)
    who(ck, P, cfg)
    size_integrity(ck, P, cfg)
    release_on_failure(ck, P, cfg)
    stored_size(ck, P, cfg)
    failed_copy(ck, P, cfg)
    error_discipline(ck, P, cfg)
    end_releases(ck, P, cfg)
    gzclose_releases(ck, P, cfg)
    gz_stream_pairing(ck, P, cfg)
    allocator_triple(ck, P, cfg)


def path_owned_before_exit(ck, P, cfg, R="REL/path-owned-before-exit"):
    """gzopen: the copy of the path name (gz_strdup) is released by free_state / gzclose through `state.source`.  Once the copy
    exists, no way out of gzopen_help avoids the store that hands it to the state - otherwise the failure paths (open(2) failing)
    free the state without the string."""
    G_ = SYS + "gz::"
    f = P.fn(G_ + "gzopen_help")
    if not ck.anchor("fn gz::gzopen_help", f):
        return
    ck.use_fn(f)
    dups = f.live_calls(r"gz::gz_strdup$")
    if not ck.anchor("gz_strdup call in gzopen_help", bool(dups)):
        return
    for i, c in enumerate(dups):
        res = c.dest.get("l") if c.dest and not c.dest.get("p") else None
        stores = set()
        for bb, fp, root, rv, st in f.field_writes():
            if fp and str(fp[-1]) == "source":
                e = rv if not isinstance(rv, dict) else f.rvalue_expr(rv)
                if any(x[0] == "call" and isinstance(x[1], str) and x[1].endswith("gz_strdup") for x in mir.walk(e)) or \
                        (res is not None and any(x[0] in ("v", "p") and x[1] == res for x in mir.walk(e))):
                    stores.add(bb)
        if not ck.anchor("store of the copied path into state.source", bool(stores)):
            continue
        leaks = []
        for b, kind in f.exits():
            if kind != "return" or not flow.reaches_avoiding(f, [c.target if c.target is not None else c.bb], [b], cut_blocks=stores):
                continue
            # the exit taken because the copy could not be made has nothing to hand over
            nullexit = False
            for a in f.dominating_atoms(b):
                s_ = sig.sig(a, f)
                if s_.kind == "truth" and s_.truth is True and any(k.endswith("is_null") for k in s_.calls) and \
                        any(k.endswith("gz_strdup") for k in s_.calls):
                    nullexit = True
            # which path reaches it: only flag exits reachable without the store even when the null test failed
            if nullexit:
                continue
            leaks.append(b)
        # exits that are only reachable through the null branch were skipped; the rest must not exist
        real = []
        for b in leaks:
            def not_null_edge(bb_, lab, tb):
                if lab is None or lab[0] == "const":
                    return False
                for a in f.edge_atoms(bb_, lab):
                    s_ = sig.sig(a, f)
                    if s_.kind == "truth" and s_.truth is True and any(k.endswith("is_null") for k in s_.calls) and \
                            any(k.endswith("gz_strdup") for k in s_.calls):
                        return True
                return False
            if flow.reaches_avoiding(f, [c.target if c.target is not None else c.bb], [b], cut_blocks=stores, cut_edges=not_null_edge):
                real.append(b)
        ck.decide(not real, R, "gzopen_help:path#%d@%s" % (i, cfg), "every exit after the copy passes the store into state.source",
                  "gzopen_help can return after gz_strdup succeeded without having stored the copy in state.source: free_state on the "
                  "failure path does not see the string and it is never freed", where(f, f.blocks[real[0]]["t"].get("line") if real else c.line))


def run(ck):
    run_cfg(ck, "K1")
    run_cfg(ck, "K2")
    for cfg_ in ("K1", "K2"):
        path_owned_before_exit(ck, prog(cfg_), cfg_)
    # allocation, failure and release decisions are those of the reference
    from .. import condparity as _cp
    ck.floor("SIB/ref-conditions", _cp.check(ck, prog("K1"), "SIB/ref-conditions", only={"inflate.c:inflateEnd", "deflate.c:deflateEnd", "inflate.c:inflateInit2",
             "deflate.c:deflateInit2", "inflate.c:inflateCopy", "deflate.c:deflateCopy", "gzread.c:gzclose_r", "gzwrite.c:gzclose_w"}), 20)
    ck.assumptions += ["rustc MIR", "listed infeasible exits and discard exceptions (one reason each)", "K1 = Rust allocator, K2 = C allocator"]

# session 5 (round 10)
EXPLANATION = EXPLANATION + " " + (
    'REL/path-owned-before-exit: once gz_strdup has succeeded, no return of gzopen_help avoids the store of the copy into state.source (free_state releases it from there).')
