"""C10 — results depend only on the calls made, not on CPU path, stale memory or threads.
Decided clause: every #[target_feature] callee is called only under the probe that implies its
features; no mutable global state other than one idempotent cache; no ambient-input calls reachable
from the (de)compression entry points; dispatchers select among kernels consistently."""
import re

from .. import mir, feat, flow, shape, sig
from ..core import where
from ..ctx import prog, writes, Z, SYS

EXPLANATION = (
    "FEAT: for every call to a function carrying #[target_feature(..)] (all such call sites in K1, K3 and the AVX-512 "
    "compile-time build K3b) the required features are implied by a dominating CPU probe (feature sets read from the "
    "detection calls inside cpu_features.rs), by the caller's own attribute, by the build's global target features, or — for "
    "unsafe/private callers — by every one of their call sites. WHO: every static of both crates is immutable and Freeze "
    "except the listed idempotent probe cache; no thread_local, no static mut. Ambient input: functions reachable from the "
    "non-gz C entry points call nothing outside core except the allocator and CPU detection. Crc32Fold's fold/fold_copy/finish "
    "branch on the same probe. Equality of SIMD and scalar results and independence from stale buffer contents are not decided. "
    "GUARD/hash-read: every hash insertion at `strstart` in the block functions (7 sites) is dominated by lookahead >= WANT_MIN_MATCH = 4, so the hash never covers a stale byte behind the valid data. "
    "ATOM/adler-stride and FLOW/crc-start are evaluated here too (kernels agree with the portable code only within NMAX and from the same starting value).")

CLAIM = dict(
    text="Static feature-gating proof over the call graph (dominating probes imply each kernel's target features, including the "
         "AVX-512/VPCLMULQDQ builds that the test machine may not run), plus who-may-hold-state and ambient-call rules. "
         "A mis-gated kernel executes an illegal instruction or a different code path on other CPUs — exactly what one test "
         "machine cannot show. Result equality across kernels is not decided. "
         "Also: hash insertions at strstart only with four bytes of lookahead (no stale window byte decides a match).",
    note="Trusted: rustc's codegen_fn_attrs (implied features), MIR; the x86 feature implication table; host target only "
         "(aarch64/wasm/loongarch dispatch arms are not compiled).",
    technique="dominating-probe feature gating over the resolved call graph + global-state and ambient-call inventory",
)

ALLOWED_MUTABLE_STATICS = {
    Z + "cpu_features::is_enabled_avx2_and_bmi2::CACHE":
        "idempotent tri-state cache of a pure CPU probe: racing writers store the same value (Relaxed suffices)",
}
AMBIENT_ALLOW = [
    (r"^alloc::alloc::(alloc|dealloc|alloc_zeroed|realloc)$", "Rust global allocator behind zalloc/zfree"),
    (r"^std_detect::detect::", "CPU feature detection (pure function of the CPU)"),
    (r"^zlib_rs::allocate::zalloc_c::posix_memalign$|^zlib_rs::allocate::zalloc_c_calloc::calloc$|^zlib_rs::allocate::zfree_c::free$|::(malloc|free|calloc|posix_memalign)$",
     "C allocator behind zalloc/zfree"),
    (r"^std::alloc::", "Rust global allocator"),
    (r"^<.* as core::", "trait method of a core trait on a generic type (resolved at monomorphisation; core only)"),
    (r"^<&mut I as core::|^<I as core::|^<T as core::", "blanket core impl"),
]


def _moved_listed_static(P, path, it):
    """the listed cache static, same name and module, now owned by a function that did not exist on the reference tree
    (the probe's body was extracted into a helper) while the listed path itself is gone"""
    from .. import inline
    if it.get("mutable") or it.get("thread_local"):
        return False
    owner = path.rsplit("::", 1)[0]
    for lp in ALLOWED_MUTABLE_STATICS:
        if lp in P.items:
            continue
        if lp.rsplit("::", 1)[1] == path.rsplit("::", 1)[1] and lp.rsplit("::", 2)[0] == path.rsplit("::", 2)[0] and not inline.is_known(owner):
            return True
    return False


def statics(ck, P, cfg):
    R = "WHO/statics"
    n = 0
    for it in P.items.values():
        if it["kind"] != "Static":
            continue
        n += 1
        path = it["path"]
        bad = it.get("mutable") or it.get("thread_local") or not it.get("freeze", True)
        if not bad:
            ck.ok(R, path.replace(Z, "") + "@" + cfg, "immutable, Freeze")
        elif path in ALLOWED_MUTABLE_STATICS and not it.get("mutable") and not it.get("thread_local"):
            ck.ok(R, path.replace(Z, "") + "@" + cfg, "listed: " + ALLOWED_MUTABLE_STATICS[path])
        elif _moved_listed_static(P, path, it):
            ck.ok(R, path.replace(Z, "") + "@" + cfg, "the listed probe cache, moved with its code into a helper of the same module")
        else:
            ck.bad(R, path.replace(Z, "") + "@" + cfg,
                   "static with mutable/interior-mutable/thread-local state (mutable=%s freeze=%s thread_local=%s): results can depend on "
                   "other streams or threads" % (it.get("mutable"), it.get("freeze"), it.get("thread_local")),
                   "%s:%s" % (it.get("file"), it.get("line")))
    ck.floor(R + ":" + cfg, n, 4)
    # the listed cache is written only by its probe, with the value it computed
    for path in ALLOWED_MUTABLE_STATICS:
        if path not in P.items:
            continue
        users = [f for f in P.fns.values() if path in f.static_refs()]
        okk = all(f.path == path.rsplit("::", 1)[0] for f in users)
        if users:
            ck.decide(okk, R, path.replace(Z, "") + ":users@" + cfg, "touched only by its probe function",
                      "the probe cache is accessed from %s" % [f.path for f in users])


def ambient(ck, P, cfg):
    R = "WHO/ambient"
    roots = [f.path for f in P.fns.values() if f.is_extern_c and f.crate == "libz_rs_sys" and "::gz::" not in f.path]
    roots += [f.path for f in P.fns.values() if f.crate == "zlib_rs" and f.j.get("vis") == "Public" and f.path.startswith(Z + "stable::")]
    reach = P.reachable_from(roots)
    seen = {}
    for p in reach:
        f = P.fns.get(p)
        if not f:
            continue
        for c in f.live_calls():
            if not c.callee or c.callee in P.fns:
                continue
            if c.callee.startswith("core::") or c.callee.startswith("<core::"):
                continue
            seen.setdefault(c.callee, f)
    for callee, f in sorted(seen.items()):
        why = None
        for rx, reason in AMBIENT_ALLOW:
            if re.search(rx, callee):
                why = reason
                break
        ck.decide(why is not None, R, callee + "@" + cfg, why or "",
                  "function %s, reachable from the (de)compression entry points, calls %s: outside core, the allocator and CPU "
                  "detection — a source of ambient input (time, environment, files, threads)" % (f.path, callee), where(f))
    ck.rule_counts[R + ":" + cfg] = {"matched": len(seen), "floor": 0, "reachable_fns": len(reach)}
    # indirect calls: only through the allocator callbacks, CONFIGURATION_TABLE and the inflateBack callbacks
    ind_ok = {Z + "allocate::Allocator::allocate_layout", Z + "allocate::Allocator::allocate_layout_zeroed", Z + "allocate::Allocator::deallocate",
              Z + "deflate::algorithm::run", Z + "inflate::infback::back", Z + "allocate::Allocator::allocate_zeroed_buffer"}
    for p in sorted(reach):
        f = P.fns.get(p)
        if not f:
            continue
        for c in f.live_calls():
            if c.callee is None:
                ck.decide(f.path in ind_ok or f.path.startswith(Z + "allocate::"), R, "indirect@%s@%s" % (f.path.replace(Z, ""), cfg),
                          "listed indirect call (allocator callback / compress function table / inflateBack callbacks)",
                          "indirect call in %s: control can leave the analysed program" % f.path, where(f, c.line))


def fold_probe_consistency(ck, P, cfg):
    R = "SIB/dispatch-probe"
    probes = {}
    for m in ("fold", "fold_copy", "finish"):
        f = P.fn(Z + "crc32::Crc32Fold::" + m)
        if not ck.anchor("fn Crc32Fold::" + m, f):
            return
        ck.use_fn(f)
        probes[m] = {c.callee for c in f.live_calls(r"cpu_features::is_enabled_")}
    ck.decide(len({frozenset(v) for v in probes.values()}) == 1, R, "Crc32Fold@" + cfg, "fold/fold_copy/finish branch on %s" % sorted(next(iter(probes.values()))),
              "Crc32Fold's methods branch on different probes (%s): a stream folded by one kernel could be finished by another" % {k: sorted(v) for k, v in probes.items()})
    # paired dispatchers: copy_match / extend_from_window use the same probe ladder
    a = P.fn(Z + "inflate::writer::Writer::copy_match_runtime_dispatch")
    b = P.fn(Z + "inflate::writer::Writer::extend_from_window_runtime_dispatch")
    if a and b:
        pa = [c.callee for c in a.live_calls(r"cpu_features::is_enabled_")]
        pb = [c.callee for c in b.live_calls(r"cpu_features::is_enabled_")]
        ck.decide(pa == pb, R, "Writer dispatch@" + cfg, "same probe ladder %s" % [p.split("::")[-1] for p in pa], "copy_match and extend_from_window dispatch on different probes: %s vs %s" % (pa, pb))


def exclusive_access(ck, P):
    """a stream cannot be driven from two threads at once through the safe API: every method that advances
    or reconfigures a stream takes `&mut self` (the borrow checker then rejects concurrent use)"""
    R = "TYPE/exclusive-access"
    n = 0
    for f in P.fns.values():
        if not (f.path.startswith(Z + "stable::Deflate::") or f.path.startswith(Z + "stable::Inflate::")) or f.j.get("vis") != "Public":
            continue
        name = f.path.split("::")[-1]
        ins = f.j.get("inputs", [])
        if name in ("new", "new_with_config") or not ins:
            continue
        W = writes("K1")
        mutates = any(q == 1 for q, p in W.may(f))
        if name in ("total_in", "total_out", "error_message"):
            ck.decide(not mutates, R, f.path.replace(Z, ""), "read-only accessor", "accessor %s writes through &self" % f.path, where(f))
            continue
        n += 1
        ck.decide(ins[0].startswith("&mut "), R, f.path.replace(Z, ""), "takes &mut self",
                  "%s advances the stream but takes `%s`: two threads could drive one stream concurrently through shared references" % (f.path, ins[0]), where(f))
    ck.floor(R, n, 8)
    for ty in (Z + "stable::Deflate", Z + "stable::Inflate"):
        bad = [i for i in P.impls if i["trait"] in ("core::clone::Clone", "core::marker::Copy") and mir.strip_ty(i["for"]) == ty]
        ck.decide(not bad, R, ty.replace(Z, "") + ":no-clone", "not Clone", "%s is Clone/Copy" % ty)


def stale_state(ck, P):
    """'prior contents of internal memory reused after a reset': the field-coverage rule of C14 is the static
    form of this clause — a state field that survives reset makes the next stream depend on the previous one"""
    from . import c14
    W = writes("K1")
    c14.reset_cover(ck, P, W, Z + "deflate::reset", Z + "deflate::State", c14.DEFLATE_CONFIG, c14.DEFLATE_DEAD, {}, "deflate::reset", floor_written=28)
    fnr = P.fn(Z + "deflate::reset")
    if fnr is not None:
        must = W.must(fnr)
        wr = {p[1:] for q, p in must if q == 1 and p[:1] == ("state",)}
        for c_ in c14.DEFLATE_CONTENTS:
            ck.decide(c_ in wr, "FIELD/reset-contents", "deflate::State." + ".".join(c_), "buffer contents cleared on every reset path",
                      "buffer contents are no longer cleared on every path of deflate::reset (stale hash heads / symbol bytes survive and "
                      "steer what the next stream emits)", __import__("rules.core", fromlist=["where"]).where(fnr))
    c14.reset_cover(ck, P, W, Z + "inflate::reset_with_config", Z + "inflate::State", c14.INFLATE_CONFIG, c14.INFLATE_DEAD, c14.INFLATE_PERCALL,
                    "inflate::reset_with_config", floor_written=18)


def hash_reads(ck, P):
    """The hash of the string at `strstart` is taken over WANT_MIN_MATCH = 4 bytes.  Hashing at strstart with fewer than
    four bytes of lookahead reads window bytes behind the valid data - whatever an earlier use of the stream left there -
    and lets that stale byte pick the hash bucket, i.e. decide between a match and literals."""
    R = "GUARD/hash-read"
    n = 0
    for fn in sorted(P.fns.values(), key=lambda f: f.path):
        if not fn.path.startswith(Z + "deflate::algorithm::") or fn.is_promoted:
            continue
        for c in fn.live_calls(r"State::(quick_insert_string|insert_string)$|::quick_insert_value$"):
            a = fn.call_args(c)
            if len(a) < 2:
                continue
            pos = mir.strip_casts(a[1])
            root, fp = mir.field_path(pos)
            if not fp or fp[-1] != "strstart":
                continue
            n += 1
            ck.use_fn(fn)
            ok = False
            for at in fn.dominating_atoms(c.bb):
                s_ = sig.sig(at, fn)
                if s_.rel in ("Le", "Lt") and "lookahead" in s_.hi_names:
                    lo = s_.lo_val if s_.lo_val is not None else max([x for x in s_.lo_consts if isinstance(x, int)] or [0])
                    if lo >= 4:
                        ok = True
            ck.decide(ok, R, "%s:%s" % (fn.path.replace(Z, ""), c.callee.split("::")[-1]), "under lookahead >= WANT_MIN_MATCH",
                      "%s hashes the %d bytes at strstart without a dominating `lookahead >= 4` test: with 3 bytes of lookahead the "
                      "fourth byte is stale window memory (the output then depends on what the stream processed before a reset)"
                      % (fn.path.replace(Z, ""), 4), where(fn, c.line))
    ck.floor(R, n, 6)


def run(ck):
    exclusive_access(ck, prog("K1"))
    # round 10: a reset stream has the flags of a fresh one
    from . import c14 as _c14f
    _c14f.reset_flags(ck, prog("K1"))
    # a header write suspended before a reset must not leave its offset behind (round 9)
    from . import c20 as _c20s
    _c20s.resume_from_gzindex(ck, prog("K1"))
    stale_state(ck, prog("K1"))
    hash_reads(ck, prog("K1"))
    # kernels agree with the portable code only if the deferred-modulo stride stays within NMAX and every CRC back-end starts from `start`
    from . import c09
    ck.floor("ATOM/adler-stride:K1", c09.adler_kernels(ck, prog("K1"), "K1"), 2)
    c09.crc_start_flow(ck, prog("K1"))
    # what a reset clears is what the reference clears
    from .. import condparity as _cp
    ck.floor("SIB/ref-conditions", _cp.check(ck, prog("K1"), "SIB/ref-conditions", only={"deflate_rle.c:deflate_rle", "inflate.c:inflateResetKeep", "inflate.c:inflateReset", "deflate.c:deflateReset", "deflate.c:lm_init", "deflate.c:deflateResetKeep"}), 1)
    # a copy made by deflateCopy must not depend on what the allocator left in its buffers
    from . import c14 as _c14
    _c14.whole_buffer_clones(ck, prog("K1"))
    for cfg, floor in (("K1", 9), ("K3", 12), ("K3b", 14)):
        P = prog(cfg)
        ck.configs.add(cfg)
        n, kernels, pc = feat.check(ck, P, "FEAT/gated-call", cfg)
        ck.floor("FEAT/gated-call:" + cfg, n, floor)
        ck.rule_counts["FEAT/kernels:" + cfg] = {"matched": len(kernels), "floor": 0}
        if cfg == "K1":
            ck.sample("probe feature sets: %s" % {k.split("::")[-1]: sorted(v) for k, v in pc.items()})
        statics(ck, P, cfg)
    P = prog("K1")
    ambient(ck, P, "K1")
    fold_probe_consistency(ck, P, "K1")
    ck.assumptions += ["rustc codegen_fn_attrs target-feature sets (implied features included)", "x86 feature implication table in rules/feat.py",
                       "host target x86_64 only; other architectures' dispatch arms are not compiled"]


def run_thorough(ck):
    for cfg in ("K2", "K4"):
        P = prog(cfg)
        ck.configs.add(cfg)
        feat.check(ck, P, "FEAT/gated-call", cfg)
        statics(ck, P, cfg)
        ambient(ck, P, cfg)

# session 5 (round 9, D24)
EXPLANATION = EXPLANATION + " " + (
    'SIB/resume-gzindex (shared with C20): the offset into a gzip header field is set to 0 when the fixed header part has been written, so an offset left by a suspended header write does not reach the member after a reset.')

# session 5 (round 10)
EXPLANATION = EXPLANATION + " " + (
    'FIELD/reset-flags (shared with C14): reset_keep sets every defined flag bit, so a reset stream asks for its dictionary like a fresh one.')

# session 5 (round 11)
EXPLANATION = EXPLANATION + " " + (
    'The pins of deflate_rle (round 11, shared): the run length is clamped to the lookahead, so stale window bytes of an earlier stream cannot influence it.')
