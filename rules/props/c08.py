"""C08 — stream end is reported only after the checksum and length trailer verified."""
from .. import mir, sig, shape, atoms, flow, decoders
from ..core import where
from ..ctx import prog, Z

EXPLANATION = (
    "MODE: in inflate's dispatch the constant StreamEnd is produced only in arms Length and Done; Mode::Done is assigned only "
    "in arm Length, Mode::Length only in arm Check, Mode::Check only in arm TypeDo under IS_LAST_BLOCK; no other function of the "
    "inflate module assigns Check/Length/Done. CUT: in arm Check, on the wrap != 0 side, every path to the arm's exit crosses "
    "either the `wrap & 4 == 0` edge (checking disabled by the caller) or the `given == checksum` edge; same for arm Length with "
    "`hold == total` under gzip; the running checksum is finalised in the arm (crc_fold.fold + finish / adler32 over "
    "writer.filled()) and the stored value is byte-swapped for zlib. SIB in Window::extend: every source sub-slice that is copied "
    "into the window on the no-checksum branch is folded (CRC) and summed (Adler) on the checksum branch, and the non-window "
    "prefix is folded too; inflate() passes the call's whole output and update_checksum = wrap & 4. WHO: wrap's bit 2 is cleared "
    "only by validate(false), sync and reset_with_config. That the checksum functions compute the right value is C09's; the "
    "arithmetic of out_written is not decided. "
    "PAIR/handover-after-suspension (arms Check and Length): the trailer arms name Done/Length only after their last input request, so a trailer split across calls is still compared. "
    "GUARD/checksum-update: the flag that requests Window::extend (which advances the check value) is set from `window.size() != 0`, never from the window's fill.")

CLAIM = dict(
    text="Static: mode-graph reachability (StreamEnd only through Check then Length), cut-set proofs that the trailer "
         "comparisons cannot be bypassed while checking is enabled, and a sibling rule that no output byte range escapes the "
         "running check in the fused copy+checksum routine. Necessary conditions of 'stream end only after verified trailer' "
         "for all inputs and schedules. "
         "Also: the trailer arms hand over to the next mode only after their last input request.",
    note="Trusted: rustc MIR; arm regions by dominance of the mode switch targets; host target.",
    technique="mode-graph constraints + cut-set analysis + sibling (copied vs folded slices) comparison over rustc MIR",
)

D = decoders.DISPATCH


def _const_sites(fn, adt_suffix, variant):
    """blocks where the enum constant adt::variant is materialised (assignment rvalue or call argument)"""
    out = []
    for bi, si, lhs, rv, s in fn.assignments():
        e = fn.rvalue_expr(rv)
        for x in mir.walk(e):
            if x[0] == "agg" and x[1].endswith(adt_suffix) and x[2] == variant:
                out.append((bi, s.get("line")))
                break
    return out


def mode_graph(ck, P):
    R = "MODE/stream-end"
    fn = P.fn(D)
    if not ck.anchor("fn dispatch", fn):
        return None, None
    ck.use_fn(fn)
    regs = decoders.mode_regions(fn, 20)
    if not ck.anchor("mode switch of dispatch", regs):
        return None, None

    def arm_of(b):
        for k, v in regs.items():
            if b in v:
                return k
        return None

    se = _const_sites(fn, "ReturnCode", "StreamEnd")
    arms = sorted({arm_of(b) for b, _ in se}, key=str)
    ck.decide(bool(se) and set(arms) <= {"Length", "Done"}, R, "StreamEnd-sites", "StreamEnd produced only in arms %s" % arms,
              "ReturnCode::StreamEnd is produced in arm(s) %s of dispatch; it may only come from Length and Done" % arms, where(fn))
    for variant, only in (("Done", {"Length"}), ("Length", {"Check"}), ("Check", {"TypeDo"})):
        sites = _const_sites(fn, "inflate::Mode", variant)
        arms = sorted({arm_of(b) for b, _ in sites}, key=str)
        ck.decide(bool(sites) and set(arms) <= only, R, "Mode::%s-sites" % variant, "assigned only in arm %s" % sorted(only),
                  "Mode::%s is assigned in arm(s) %s of dispatch; it may only be entered from %s" % (variant, arms, sorted(only)), where(fn))
        if variant == "Check":
            for b, ln in sites:
                ss = shape.dominating_sigs(fn, b, region=regs.get("TypeDo"))
                okk = any(s.kind == "truth" and s.truth is True and "Flags::contains" in s.calls and "IS_LAST_BLOCK" in s.names for s in ss)
                ck.decide(okk, R, "Mode::Check:last-block", "entered only when IS_LAST_BLOCK is set",
                          "Mode::Check is entered without the IS_LAST_BLOCK test", where(fn, ln))
    # other functions must not assign these modes
    allowed = {D: {"Done", "Length", "Check"}, decoders.BACK: {"Done"}}
    for f in P.fns.values():
        if not f.path.startswith(Z + "inflate") or f.path == D:
            continue
        for variant in ("Done", "Length", "Check"):
            sites = _const_sites(f, "inflate::Mode", variant)
            # comparisons (matches!) also materialise constants only as switch values, not aggregates; assignments are aggregates
            real = []
            for b, ln in sites:
                real.append((b, ln))
            if real and variant not in allowed.get(f.path, set()):
                # is it written to a mode place?
                wr = [1 for bi, fp, root, rv, s in f.field_writes() if fp[-1:] == ("mode",) and f.enum_const(rv) == (Z + "inflate::Mode", variant)]
                loc = [1 for bi, si, lhs, rv, s in f.assignments() if "p" not in lhs and f.enum_const(f.rvalue_expr(rv)) == (Z + "inflate::Mode", variant)
                       and "Mode" in f.locals[lhs["l"]]["ty"]]
                if wr or loc:
                    ck.bad(R, "%s:assigns-%s" % (f.path.replace(Z, ""), variant),
                           "function %s assigns Mode::%s: the trailer states must only be entered through dispatch's Check -> Length chain" % (f.path, variant),
                           where(f, real[0][1]))
    return fn, regs


def trailer_cut(ck, P, fn, regs):
    R = "CUT/trailer-compare"

    def edge_pred(names_cmp):
        def pred(b, lab, tb):
            if lab is None or lab[0] == "const":
                return False
            for a in fn.edge_atoms(b, lab):
                s = sig.sig(a, fn)
                if s.rel == "Eq" and "wrap" in s.names and 4 in s.consts and 0 in s.consts:
                    return True       # checking disabled by the caller (wrap & 4 == 0)
                if s.rel == "Eq" and names_cmp <= set(s.names):
                    return True       # the comparison succeeded
            return False
        return pred

    for arm, nxt, cmpnames in (("Check", "Length", {"checksum"}), ("Length", "Done", {"total"})):
        reg = regs.get(arm, set())
        # entry edges of the checked side
        starts = []
        for b in reg:
            for lab, tb in fn.succ[b]:
                if lab is None or lab[0] == "const":
                    continue
                for a in fn.edge_atoms(b, lab):
                    s = sig.sig(a, fn)
                    if arm == "Check" and s.rel == "Ne" and s.names == {"wrap"} and 0 in s.consts and "BitAnd" not in s.ops:
                        starts.append(tb)
                    if arm == "Length" and s.rel == "Ne" and "gzip_flags" in s.names and 0 in s.consts and "BitAnd" not in s.ops:
                        starts.append(tb)
        exits = [b for b, _ in _const_sites(fn, "inflate::Mode", nxt) if b in reg]
        if arm == "Length":
            exits += [b for b, _ in _const_sites(fn, "ReturnCode", "StreamEnd") if b in reg]
        if not ck.anchor("checked side / exit of arm %s" % arm, starts and exits, where(fn)):
            continue
        leak = flow.reaches_avoiding(fn, starts, exits, cut_edges=edge_pred(cmpnames), cut_blocks={b for b in fn.live if b not in reg})
        ck.decide(not leak, R, arm, "every path from the checked side to the arm exit crosses `wrap&4 == 0` or the successful comparison",
                  "arm %s can reach its exit (Mode::%s) on the checked side without comparing the stored %s with the running value"
                  % (arm, nxt, "checksum" if arm == "Check" else "length"), where(fn))
    # finalisation of the running checksum inside arm Check
    reg = regs.get("Check", set())
    fin = [c for c in fn.live_calls(r"crc32::Crc32Fold::finish$") if c.bb in reg]
    fold = [c for c in fn.live_calls(r"crc32::Crc32Fold::fold$") if c.bb in reg]
    adl = [c for c in fn.live_calls(r"adler32::adler32$") if c.bb in reg]
    okf = bool(fin and fold) and fn.dominates(fold[0].bb, fin[0].bb) and any(mir.calls_in(a, r"Writer::filled$") for a in fn.call_args(fold[0]))
    ck.decide(okf, "ATOM/check-finalise", "crc", "crc_fold.fold(writer.filled(), ..) then finish()",
              "arm Check does not fold the pending output into the CRC before finishing it", where(fn))
    oka = bool(adl) and any(mir.calls_in(a, r"Writer::filled$") for a in fn.call_args(adl[0]))
    ck.decide(oka, "ATOM/check-finalise", "adler", "adler32(checksum, writer.filled())",
              "arm Check does not add the pending output to the Adler-32 before comparing", where(fn))
    cw = [1 for bi, fp, root, rv, s in fn.field_writes() if bi in reg and fp[-1:] == ("checksum",)]
    ck.decide(len(cw) >= 2, "ATOM/check-finalise", "stored", "self.checksum updated from both", "self.checksum is not updated in arm Check", where(fn))
    zs = [c for c in fn.live_calls(r"zswap32$") if c.bb in reg]
    ck.decide(bool(zs), "ATOM/check-finalise", "zswap32", "zlib trailer is big-endian (zswap32)", "arm Check no longer byte-swaps the zlib trailer", where(fn))
    tot = [1 for bi, fp, root, rv, s in fn.field_writes() if bi in reg and fp[-1:] == ("total",) and mir.calls_in(rv, r"Writer::len$")]
    ck.decide(bool(tot), "ATOM/check-finalise", "total", "total += writer.len()", "arm Check does not add the pending output length to total", where(fn))
    # HCrc arm: fresh CRC state for the body
    hreg = regs.get("HCrc", set())
    newc = [1 for bi, fp, root, rv, s in fn.field_writes() if bi in hreg and fp[-1:] == ("crc_fold",) and mir.calls_in(rv, r"Crc32Fold::new$")]
    init = [1 for bi, fp, root, rv, s in fn.field_writes() if bi in hreg and fp[-1:] == ("checksum",) and mir.mentions_const(rv, defname="CRC32_INITIAL_VALUE")]
    ck.decide(bool(newc and init), "ATOM/check-finalise", "hcrc-reset", "body CRC starts from a fresh state after the header",
              "arm HCrc does not restart the CRC for the body", where(fn))


def extend_siblings(ck, P):
    R = "SIB/extend-fold"
    fn = P.fn(Z + "inflate::window::Window::extend")
    if not ck.anchor("fn Window::extend", fn):
        return
    ck.use_fn(fn)

    split_order = {}
    for c in sorted(fn.live_calls(r"::split_at$"), key=lambda c: c.bb):
        a = fn.call_args(c)
        split_order.setdefault(mir.fmt(a[1], fn)[:80], "split#%d" % (len(split_order) + 1))

    def src_id(e):
        e = mir.strip_casts(mir.deref_ref(e))
        if e[0] == "f" and e[1][0] == "call" and isinstance(e[1][1], str) and e[1][1].endswith("split_at"):
            return (split_order.get(mir.fmt(e[1][2][1], fn)[:80], "split#?"), e[2])
        return None

    copied, crc_fc, adl_fc, crc_f, adl_f = {}, {}, {}, {}, {}
    for c in fn.live_calls():
        if not c.callee:
            continue
        a = fn.call_args(c)
        last = c.callee.split("::")[-1]
        sid = None
        if last == "copy_from_slice" and len(a) == 2:
            sid = src_id(a[1])
            tgt = copied
        elif c.callee.endswith("Crc32Fold::fold_copy"):
            sid = src_id(a[2])
            tgt = crc_fc
        elif c.callee.endswith("adler32::adler32_fold_copy"):
            sid = src_id(a[2])
            tgt = adl_fc
        elif c.callee.endswith("Crc32Fold::fold"):
            sid = src_id(a[1])
            tgt = crc_f
        elif c.callee.endswith("adler32::adler32"):
            sid = src_id(a[1])
            tgt = adl_f
        else:
            continue
        if sid is None:
            ck.bad(R, "unrecognised-source@%s" % last, "a copy/fold in Window::extend takes a source that is not a split_at part of the argument: %s"
                   % [mir.fmt(x, fn)[:60] for x in a], where(fn, c.line))
            continue
        tgt.setdefault(sid, []).append(c)
    ck.floor(R + ":copies", len(copied), 3)
    for sid, cs in sorted(copied.items()):
        inst = "%s.part%s" % (sid[0], sid[1])
        ck.decide(sid in crc_fc, R, inst + ":crc", "copied on the no-checksum branch and fold_copy'd on the CRC branch",
                  "the slice part copied into the window at line %s is not passed to Crc32Fold::fold_copy on the checksum branch: those "
                  "output bytes escape the CRC or never reach the window (later matches then copy stale bytes, for the chunkings that wrap there)" % cs[0].line, where(fn, cs[0].line))
        ck.decide(sid in adl_fc, R, inst + ":adler", "copied on the no-checksum branch and adler32_fold_copy'd on the Adler branch",
                  "the slice part copied into the window at line %s is not passed to adler32_fold_copy on the checksum branch: those "
                  "output bytes escape the Adler-32 or never reach the window" % cs[0].line, where(fn, cs[0].line))
        # polarity: copy under !update_checksum, folds under update_checksum
        for c in cs:
            ss = shape.dominating_sigs(fn, c.bb)
            pol = [s.truth for s in ss if s.kind == "truth" and "update_checksum" in s.names]
            ck.decide(pol and not pol[0], R, inst + ":copy-polarity", "plain copy only when update_checksum is false",
                      "plain copy at line %s is not on the update_checksum == false branch" % c.line, where(fn, c.line))
    # the parts partition the argument: both parts of each split are consumed on the checksum branch
    splits = {sid[0] for sid in list(crc_fc) + list(crc_f)}
    for sp in sorted(splits):
        parts_crc = {sid[1] for sid in list(crc_fc) + list(crc_f) if sid[0] == sp}
        parts_adl = {sid[1] for sid in list(adl_fc) + list(adl_f) if sid[0] == sp}
        ck.decide(parts_crc == {"0", "1"} and parts_adl == {"0", "1"}, R, "%s:both-parts" % sp, "both parts of the split are checksummed",
                  "only parts %s (crc) / %s (adler) of split_at(%s) are checksummed" % (sorted(parts_crc), sorted(parts_adl), sp), where(fn))
    # inflate() epilogue
    inf = P.fn(Z + "inflate::inflate")
    if ck.anchor("fn inflate::inflate", inf):
        ck.use_fn(inf)
        cs = inf.live_calls(r"inflate::window::Window::extend$")
        if ck.anchor("Window::extend call in inflate()", len(cs) == 1):
            a = inf.call_args(cs[0])
            ok1 = bool(mir.calls_in(a[1], r"Writer::filled$")) and "out_available" in atoms.names_in(a[1], inf)
            uc = mir.strip_casts(a[3])
            ok2 = uc[0] == "bin" and uc[1] == "Ne" and mir.mentions_field(uc, "wrap") and mir.mentions_const(uc, val=4)
            ck.decide(ok1, R, "inflate:extend-arg", "extend(writer.filled()[..out_written], ..)", "inflate() does not hand this call's whole output to Window::extend: %s" % mir.fmt(a[1], inf)[:120], where(inf, cs[0].line))
            ck.decide(ok2, R, "inflate:update_checksum", "update_checksum = wrap & 4 != 0", "update_checksum is %s" % mir.fmt(a[3], inf)[:80], where(inf, cs[0].line))


def sync_commit(ck, P, R="ORDER/sync-commit"):
    """inflateSync changes what the decoder verifies (it clears the check bit of `wrap`, resets the stream) only once it has
    found the marker.  On a call that does not find it, nothing but the search state and the input cursor moves: the stream
    still verifies its trailer when it is later reset and reused."""
    fn = P.fn(Z + "inflate::sync")
    if not ck.anchor("fn inflate::sync", fn):
        return
    ck.use_fn(fn)
    fail = set()
    for b in fn.live:
        if fn.blocks[b]["t"]["k"] != "switch":
            continue
        for lab, tb in fn.succ[b]:
            if lab is None or lab[0] == "const":
                continue
            for a in fn.edge_atoms(b, lab):
                g = sig.sig(a, fn)
                if g.rel == "Ne" and "have" in g.names and 4 in g.consts:
                    fail.add(tb)
    if not ck.anchor("`have != 4` verdict in inflate::sync", bool(fail)):
        return
    allowed = {"mode", "have", "next_in", "avail_in", "total_in", "bit_buffer", "bits_used", "bit_reader"}
    bad = []
    for bi, fp, root, rv, st in fn.field_writes():
        if bi not in fn.live or not fp:
            continue
        if str(fp[-1]) in allowed or any(str(x) in ("bit_reader",) for x in fp):
            continue
        if bi in fail or flow.reaches_avoiding(fn, [bi], fail):
            bad.append((str(fp[-1]), st.get("line") if isinstance(st, dict) else None))
    calls_before = [c for c in fn.live_calls(r"inflate::reset(_keep)?$") if flow.reaches_avoiding(fn, [c.bb], fail)]
    ck.decide(not bad and not calls_before, R, "sync:before-verdict", "only the search state and the cursor change before the marker is found",
              "inflate::sync stores %s (or resets the stream) on paths that can still end in Z_DATA_ERROR: a failed inflateSync then changes what "
              "the stream verifies afterwards" % sorted({b[0] for b in bad}), where(fn, bad[0][1] if bad else None))


def wrap_constants(ck, P, R="ATOM/wrap-check-bit"):
    """`wrap` carries the wrapper kind in its low bits and "verify the check value" in bit 2.  Verification is on by default:
    wherever the initialisation functions store a *constant* into wrap - directly, or a local all of whose definitions are
    constants (a lookup table) - the constant is 0 (raw) or has bit 2 set.  (inflateValidate and inflateSync, which clear the
    bit on purpose, are not initialisation.)"""
    n = 0
    for path in (Z + "inflate::reset_with_config", Z + "inflate::init", Z + "inflate::reset", Z + "inflate::reset_keep"):
        f = P.fn(path)
        if f is None:
            continue
        for bi, fp, root, rv, st in f.field_writes():
            if not fp or str(fp[-1]) != "wrap" or bi not in f.live:
                continue
            n += 1
            def values(loc, depth=0):
                """the set of constants a local can hold if every definition is a constant or a copy of such a local"""
                out = set()
                defs = [d for d in f.defs.get(loc, []) if d[0] in f.live]
                if not defs or depth > 4:
                    return None
                for dbi, dsi, drv in defs:
                    if drv is None:
                        return None
                    if drv.get("k") in ("use", "cast"):
                        a_ = drv.get("a") or {}
                        if a_.get("k") == "const" and isinstance(a_.get("val"), int):
                            out.add(a_["val"])
                            continue
                        if set(a_) <= {"l", "k"}:
                            sub = values(a_["l"], depth + 1)
                            if sub is None:
                                return None
                            out |= sub
                            continue
                    return None
                return out
            vals = set()
            e = mir.strip_casts(rv) if isinstance(rv, tuple) else None
            if e is not None and e[0] == "c" and isinstance(e[1], int):
                vals.add(e[1])
            elif e is not None and e[0] == "v":
                vals = values(e[1]) or set()
            bad = sorted(x for x in vals if x != 0 and not (x & 4))
            ck.decide(not bad, R, "%s:wrap" % path.replace(Z, ""), "constants stored into wrap are 0 or carry the check bit",
                      "%s stores the constant(s) %s into wrap: a wrapper kind without bit 2 - streams opened that way are never verified "
                      "against their trailer" % (path.replace(Z, ""), bad), where(f))
    ck.floor(R, n, 1)


def wrap_who(ck, P):
    R = "WHO/wrap-bit2"
    allowed = {Z + "inflate::validate": "documented opt-out (inflateValidate)", Z + "inflate::sync": "no point in checking after a resync (zlib)",
               Z + "inflate::reset_with_config": "configuration", Z + "inflate::State::new": "constructor", Z + "inflate::infback::back_init": "raw only"}
    n = 0
    for f in P.fns.values():
        if not f.path.startswith(Z + "inflate"):
            continue
        for bi, fp, root, rv, s in f.field_writes():
            if fp[-1:] == ("wrap",) and (len(fp) == 1 or fp[-2] == "state"):
                n += 1
                ck.decide(f.path in allowed, R, f.path.replace(Z, ""), allowed.get(f.path, ""),
                          "%s writes the inflate state's wrap field: only validate/sync/reset may change whether the trailer is checked" % f.path, where(f, s.get("line")))
    ck.floor(R, n, 4)


def checksum_update_guard(ck, P, R="GUARD/checksum-update"):
    """In zlib-rs the running check value is advanced inside Window::extend, so inflate() must reach that call for every
    call that produced output.  The first disjunct of its guard is `window.size() != 0` - whether a window exists, which
    is fixed for the life of the stream.  A guard on how much history the window holds (have/next) skips the update, and
    with it the checksum of that call's output, for some call schedules only."""
    fn = P.fn(Z + "inflate::inflate")
    if not ck.anchor("fn inflate::inflate", fn):
        return
    ck.use_fn(fn)
    ext = fn.live_calls(r"window::Window::extend$")
    if not ck.anchor("Window::extend in inflate()", len(ext) == 1, where(fn)):
        return
    e = ext[0]
    flags = [a[1][1] for a in fn.dominating_atoms(e.bb) if a[0] == "truth" and a[2] is True and a[1][0] == "v"]
    if not ck.anchor("boolean guard of Window::extend in inflate()", len(flags) == 1, where(fn, e.line)):
        return
    flag = flags[0]
    by_size, by_history = [], []
    for bi, si, rv in fn.defs.get(flag, []):
        if bi not in fn.live or rv is None or si == "call":
            continue
        val = fn.rvalue_expr(rv)
        if fn.const_of(val) == 0:
            continue
        for a in fn.dominating_atoms(bi):
            s_ = sig.sig(a, fn)
            wc = {k for k in s_.calls if k.startswith("Window::")}
            if wc == {"Window::size"} and s_.rel == "Ne" and 0 in s_.consts:
                by_size.append(bi)
            elif wc - {"Window::size"}:
                by_history.append(mir.atom_str(a, fn))
        vs = sig.sig(("truth", val, True), fn) if val[0] != "c" else None
        if vs is not None and {k for k in vs.calls if k.startswith("Window::")} - {"Window::size"}:
            by_history.append(mir.fmt(val, fn))
    ck.decide(bool(by_size) and not by_history, R, "inflate:window-exists", "the update is requested whenever `window.size() != 0`",
              "inflate() no longer requests the window/checksum update (Window::extend advances the check value) from the test "
              "`window.size() != 0`%s: the output of some calls is left out of the checksum, so a valid trailer is rejected or a forged one "
              "accepted for those call schedules only" % ((" - it now depends on " + "; ".join(sorted(set(by_history)))[:140]) if by_history else ""),
              where(fn, e.line))


def run(ck):
    P = prog("K1")
    ck.configs.add("K1")
    # round 11: the Adler-32 that inflate compares with the trailer is computed by the kernels - their deferred modulo stays within NMAX
    from . import c09 as _c09s
    ck.floor("ATOM/adler-stride:K1", _c09s.adler_kernels(ck, P, "K1"), 2)
    from .. import guards as _gct
    _gct.c_truthiness(ck, P)
    fn, regs = mode_graph(ck, P)
    if fn is not None and regs:
        trailer_cut(ck, P, fn, regs)
    decoders.check_rejections(ck, P, "ATOM/rejection", only_names={"trailer-check", "trailer-isize", "gzip-hcrc"})
    # the decoder's decisions (trailer, wrap, flags) are those of the reference
    from .. import condparity as _cp
    ck.floor("SIB/ref-conditions", _cp.check(ck, P, "SIB/ref-conditions", only={"inflate.c:inflateReset2", "inflate.c:inflateInit2", "inflate.c:inflateValidate", "inflate.c:inflateSync", "inflate.c:inflate"}), 45)
    from .. import guards as _g
    _g.crc_fold_start(ck, P)
    extend_siblings(ck, P)
    wrap_who(ck, P)
    wrap_constants(ck, P)
    sync_commit(ck, P)
    checksum_update_guard(ck, P)
    # the trailer arms hand over to Done/Bad only after their last input request
    from . import c04
    n = c04.handover_after_suspension(ck, P, arms={"Check", "Length"})
    ck.floor("PAIR/handover-after-suspension:trailer", n, 3)
    ck.assumptions += ["rustc MIR", "arm regions = blocks dominated by the mode switch targets", "host target; K1"]

# session 5 (round 9, D24)
EXPLANATION = EXPLANATION + " " + (
    "ATOM/c-truthiness: inflateValidate's int parameter becomes the bool of inflate::validate by `!= 0`.")

# session 5 (round 11)
EXPLANATION = EXPLANATION + " " + (
    'ATOM/adler-stride (round 11, shared with C09): the Adler-32 that inflate compares with the trailer comes from kernels whose deferred modulo stays within NMAX bytes.')
