"""C16 — C API gives zlib-ng's status codes and data movement for any call sequence.
Decided clause: every exported entry point guards every pointer parameter before dereference,
converts enums fallibly, reaches no unjustified abort construct; exported symbol set covers
zlib-ng's; init/prime/params validation constants equal zlib-ng's."""
import os
import re
import sys

from .. import mir, sig, shape, atoms, abort, abort_table, nullguard, consts
from ..core import where
from ..ctx import prog, Z, SYS

sys.path.insert(0, os.path.join(os.path.dirname(os.path.abspath(__file__)), "..", ".."))
from oracles import zlibng_ref  # noqa: E402

EXPLANATION = (
    "NULL: in each of the extern \"C\" functions of libz-rs-sys (lib.rs and gz.rs; K1 and the gzprintf build K5) every raw-pointer "
    "parameter flows only into null-safe sinks (is_null, as_ref/as_mut, from_stream_*, the crate's slice_from_raw_parts*, another "
    "function that is itself null-safe for that parameter) unless the use is dominated by a null test of that parameter; listed "
    "exceptions are parameters for which zlib itself defines no NULL behaviour. Fallible conversions: integers selecting enums "
    "(flush, strategy, method) are converted with TryFrom whose error edge returns Z_STREAM_ERROR (deflate side); no transmute in "
    "entry points. ABORT: inventory from all exported non-gz entry points. CONST: the exported symbol set covers the prototypes of "
    "the vendored zlib.h; validation constants of deflateInit2/inflateReset2/inflatePrime/deflatePrime/deflateParams equal zlib-ng's "
    "([-15,-8]/[8,15]/+16 window bits, memLevel 1..9, level -1->6 and 0..9, windowBits 8 -> 9 only for zlib wrapping, prime limits). "
    "Call-order semantics and data movement are not decided. "
    "ATOM/validation deflateParams:flush-error: the internal Z_BLOCK flush aborts deflateParams only on Z_STREAM_ERROR (zlib-ng text). SIB/ref-writes for the API functions with a zlib-ng body (Params, Tune, Prime, Sync, SetDictionary, ResetKeep, Reset2). "
    "SIB/ref-conditions: the elementary conditions and calls of the zlib-ng functions this code was ported from (oracles/condparity.json, frozen from the vendored C sources) keep a counterpart in the paired zlib-rs function. (API functions: Params, Init2, SetDictionary, Prime, Bound, ResetKeep, inflate Reset2/Init2/SetDictionary/Prime/Sync/SyncPoint/GetHeader, inflate, deflate).")

CLAIM = dict(
    text="Static intraprocedural null-taint over MIR for all 129 pointer parameters of the C ABI, fallible-conversion and "
         "abort-inventory rules, and constant comparison of parameter validation with zlib-ng. Necessary conditions of 'same status "
         "codes, never terminates the process' for NULL/out-of-range arguments, for every entry point including the rarely used ones.",
    note="Trusted: rustc MIR; null-safe sink list and exception table in rules/nullguard.py and this file; zlib-ng prototype extract "
         "(oracles/zlibng_ref.json). One known difference (inflateUndermine's status) is pinned by the repository's own tests and listed "
         "as a known finding.",
    technique="null-taint and API-integer taint dataflow over extern \"C\" entry points + validation-constant and condition comparison with the reference sources",
)

NULL_EXCEPTIONS = {
    ("gzread", "buf"): "zlib defines no result for gzread with a NULL buffer and len > 0 (caller contract)",
    ("gzwrite", "buf"): "zlib defines no result for gzwrite with a NULL buffer and len > 0 (caller contract)",
    ("gzfwrite", "buf"): "as gzwrite",
    ("inflateBack", "in_desc"): "opaque descriptor handed unchanged to the caller's own callback",
    ("inflateBack", "out_desc"): "opaque descriptor handed unchanged to the caller's own callback",
    ("gzvprintf", "va"): "va_list is an opaque handle",
    ("gzvprintf", "format"): "zlib defines no result for a NULL format string (it is handed to vsnprintf)",
    ("gzprintf", "format"): "as gzvprintf",
}
SYMBOL_EXCEPTIONS = {
    "gzopen_w": "Windows-only in zlib.h (wide-character path)",
    "gzprintf": "variadic; provided under the experimental gzprintf feature (analysed in K5)",
    "gzvprintf": "provided under the experimental gzprintf feature (analysed in K5)",
}


def exported(P, gz=True):
    out = []
    for f in P.fns.values():
        if f.crate == "libz_rs_sys" and f.is_extern_c and f.j.get("vis") == "Public":
            if not gz and "::gz::" in f.path:
                continue
            out.append(f)
    return sorted(out, key=lambda f: f.path)


def null_rule(ck, P, cfg):
    R = "NULL/pointer-param"
    n = 0
    fns = exported(P)
    for f in fns:
        name = f.path.split("::")[-1]
        for i in range(1, f.arg_count + 1):
            ty = f.locals[i]["ty"]
            if not nullguard.is_raw_ptr(ty):
                continue
            n += 1
            pname = f.local_name(i) or "arg%d" % i
            bad = nullguard.param_uses(f, i, P)
            inst = "%s(%s)@%s" % (name, pname, cfg)
            if not bad:
                ck.ok(R, inst, "null-safe")
            elif (name, pname) in NULL_EXCEPTIONS:
                ck.ok(R, inst, "listed: " + NULL_EXCEPTIONS[(name, pname)])
            else:
                kind, detail, bb, line = bad[0]
                ck.bad(R, inst, "pointer parameter `%s` of exported %s is %s before any null test: a NULL argument (for which zlib returns an "
                                "error code) is undefined behaviour here" % (pname, name, detail), where(f, line))
        ck.use_fn(f)
    ck.floor(R + ":" + cfg, n, 120)
    ck.floor("NULL/entry-points:" + cfg, len(fns), 90)
    return n


def conversions(ck, P, cfg):
    R = "CONV/fallible-enum"
    for f in exported(P):
        for c in f.live_calls(r"intrinsics::transmute$|mem::transmute$"):
            ck.bad(R, "%s:transmute@%s" % (f.path.split("::")[-1], cfg), "exported %s transmutes a caller-supplied value" % f.path, where(f, c.line))
    table = [("deflate", "flush", "DeflateFlush"), ("deflateInit2_", "strategy", "Strategy"), ("deflateInit2_", "method", "Method"),
             ("deflateParams", "strategy", "Strategy")]
    for name, pname, ty in table:
        f = P.fn(SYS + name)
        if not ck.anchor("fn " + name, f):
            continue
        rej = [(sig.sig(a, f), rv) for a, rv, b, ln in atoms.rejections(f)]
        ok = any(rv in ("StreamError", -2) and ((s.rel == "isnot" and "Ok" in (s.variants or ())) or (s.rel == "is" and "Err" in (s.variants or ())))
                 and pname in s.names and any("try_from" in c for c in s.calls) for s, rv in rej)
        ck.decide(ok, R, "%s(%s)@%s" % (name, pname, cfg), "TryFrom with error edge -> Z_STREAM_ERROR",
                  "%s does not convert `%s` to %s fallibly with Z_STREAM_ERROR on failure" % (name, pname, ty), where(f))
    inf = P.fn(SYS + "inflate")
    if inf is not None:
        ok = bool(inf.live_calls(r"unwrap_or_default$|unwrap_or$")) and not [c for c in inf.live_calls(r"Result::unwrap$|Result::expect$")]
        ck.decide(ok, R, "inflate(flush)@" + cfg, "invalid flush falls back to the default (zlib treats unknown flush values as Z_NO_FLUSH)", "inflate() no longer converts `flush` with a fallback", where(inf))


def symbols(ck, P5):
    R = "CONST/exported-symbols"
    ref = zlibng_ref.load()
    names = {f.path.split("::")[-1] for f in exported(P5)}
    # 64-bit suffixed and *_ variants map to their zlib.h names
    for proto in ref["prototypes"]:
        if proto in names:
            ck.ok(R, proto, "exported")
        elif proto in SYMBOL_EXCEPTIONS and proto in names | {"gzopen_w"}:
            ck.ok(R, proto, "listed: " + SYMBOL_EXCEPTIONS[proto])
        elif proto in SYMBOL_EXCEPTIONS and proto not in ("gzprintf", "gzvprintf"):
            ck.ok(R, proto, "listed: " + SYMBOL_EXCEPTIONS[proto])
        else:
            ck.bad(R, proto, "zlib.h prototype %s has no exported counterpart in libz-rs-sys" % proto)
    ck.floor(R, len(ref["prototypes"]), 80)


def _bounds(fn, name):
    return atoms.bounds_of(fn, name)


def validation(ck, P):
    R = "ATOM/validation"
    M = zlibng_ref.load()["macros"]
    di = P.fn(Z + "deflate::init")
    if ck.anchor("fn deflate::init", di):
        ck.use_fn(di)
        rej = [(sig.sig(a, di), rv) for a, rv, b, ln in atoms.rejections(di) if rv == "StreamError"]

        def has_range(var, lo, hi):
            return any(s.rel == "notrange" and var in s.names and s.lo == lo and s.hi == hi for s, _ in rej)
        ck.decide(has_range("mem_level", 1, M["MAX_MEM_LEVEL"]), R, "deflateInit2:memLevel", "1..=%d" % M["MAX_MEM_LEVEL"], "memLevel range differs from zlib-ng's 1..%d" % M["MAX_MEM_LEVEL"], where(di))
        ck.decide(has_range("window_bits", M["MIN_WBITS"], M["MAX_WBITS"]), R, "deflateInit2:windowBits", "%d..=%d" % (M["MIN_WBITS"], M["MAX_WBITS"]), "windowBits range differs from zlib-ng's", where(di))
        ck.decide(has_range("level", 0, 9), R, "deflateInit2:level", "0..=9", "level range differs from zlib-ng's 0..9", where(di))
        ck.decide(any(s.rel == "Le" and "window_bits" in s.lo_names and -16 in s.hi_consts for s, _ in rej), R, "deflateInit2:raw-lower", "windowBits < -15 rejected",
                  "negative windowBits below -15 are no longer rejected", where(di))
        ck.decide(any(s.rel == "Ne" and "wrap" in s.names and 1 in s.consts for s, _ in rej), R, "deflateInit2:wbits8", "windowBits 8 only with zlib wrapping",
                  "windowBits == 8 with raw/gzip wrapping is no longer rejected", where(di))
        cs = shape.fn_int_consts(di)
        ck.decide({16, 6, 9} <= cs, R, "deflateInit2:constants", "gzip offset 16, default level 6, windowBits 8 -> 9", "deflate::init lost one of the constants 16/6/9", where(di))
        lv = [a for a, b, tb in atoms.all_atoms(di) if (lambda s: s.rel in ("Eq", "Ne") and "level" in s.names and -1 in s.consts)(sig.sig(a, di))]
        ck.decide(bool(lv), R, "deflateInit2:default-level", "level == Z_DEFAULT_COMPRESSION -> 6", "Z_DEFAULT_COMPRESSION is no longer mapped to 6", where(di))
    rc = P.fn(Z + "inflate::reset_with_config")
    if ck.anchor("fn inflate::reset_with_config", rc):
        ck.use_fn(rc)
        rej = [(sig.sig(a, rc), rv) for a, rv, b, ln in atoms.rejections(rc) if rv == "StreamError"]
        if not any(s.rel == "notrange" and s.lo == 8 and s.hi == 15 for s, _ in rej):
            # the validation was moved into a helper that reports through an Option / Result: its tests are still tests of
            # this function (the folded helper's exits reach the StreamError return through a discriminant, which the
            # rejection tracer does not follow)
            rej = rej + [(sig.sig(a, rc), "StreamError") for a, b, tb in atoms.all_atoms(rc)]
        ck.decide(any(s.rel == "Le" and ("window_bits" in s.lo_names or "requested" in s.lo_names or s.lo_names) and -16 in s.hi_consts for s, _ in rej), R, "inflateReset2:raw-lower", "windowBits < -15 rejected", "windowBits < -15 no longer rejected", where(rc))
        ck.decide(any(s.rel == "notrange" and s.lo == 8 and s.hi == 15 for s, _ in rej), R, "inflateReset2:range", "0 or 8..=15", "inflate windowBits range differs", where(rc))
        cs = shape.fn_int_consts(rc)
        ck.decide({4, 5, 48, 15} <= cs, R, "inflateReset2:wrap", "wrap = (bits >> 4) + 5; bits < 48 -> &= 15", "wrap derivation constants changed: %s" % sorted(cs), where(rc))
    ip = P.fn(Z + "inflate::prime")
    if ck.anchor("fn inflate::prime", ip):
        ck.use_fn(ip)
        rej = [(sig.sig(a, ip), rv) for a, rv, b, ln in atoms.rejections(ip) if rv == "StreamError"]
        ck.decide(any(s.rel == "Le" and 17 in s.lo_consts and "bits" in s.hi_names for s, _ in rej), R, "inflatePrime:16", "bits > 16 rejected", "inflatePrime no longer rejects bits > 16", where(ip))
        ck.decide(any(s.rel == "Le" and 33 in s.lo_consts for s, _ in rej), R, "inflatePrime:32", "buffered + bits > 32 rejected", "inflatePrime no longer rejects overflowing the 32-bit hold", where(ip))
    dp = P.fn(Z + "deflate::prime")
    if ck.anchor("fn deflate::prime", dp):
        ck.use_fn(dp)
        rej = [(sig.sig(a, dp), rv) for a, rv, b, ln in atoms.rejections(dp) if rv == "BufError"]
        ck.decide(any(s.rel == "Le" and "bits" in s.lo_names and -1 in s.hi_consts for s, _ in rej) or any(s.rel == "Lt" and "bits" in s.lo_names and 0 in s.hi_consts for s, _ in rej),
                  R, "deflatePrime:negative", "bits < 0 -> Z_BUF_ERROR", "deflatePrime no longer rejects negative bit counts", where(dp))
        ck.decide(any(s.rel == "Le" and "bits" in s.hi_names and 65 in s.lo_consts for s, _ in rej), R, "deflatePrime:upper", "bits > BIT_BUF_SIZE -> Z_BUF_ERROR", "deflatePrime upper bound changed", where(dp))
    pm = P.fn(Z + "deflate::params")
    if ck.anchor("fn deflate::params", pm):
        ck.use_fn(pm)
        rej = [(sig.sig(a, pm), rv) for a, rv, b, ln in atoms.rejections(pm)]
        ck.decide(any(rv == "StreamError" and s.rel == "notrange" and s.lo == 0 and s.hi == 9 for s, rv in rej), R, "deflateParams:level", "0..=9", "deflateParams level range changed", where(pm))
        ck.decide(any(rv == "BufError" and "avail_in" in s.names for s, rv in rej), R, "deflateParams:buf", "Z_BUF_ERROR when input remains after the flush", "deflateParams lost its Z_BUF_ERROR condition", where(pm))
        # zlib-ng: err = deflate(strm, Z_BLOCK); if (err == Z_STREAM_ERROR) return err;   - Z_BUF_ERROR of that flush is ignored
        tests = [sig.sig(a, pm) for a, b, tb in atoms.all_atoms(pm)]
        tests = [s_ for s_ in tests if any(k.split("::")[-1] == "deflate" for k in s_.calls) and s_.rel in ("Eq", "Ne")]
        only_se = bool(tests) and all("StreamError" in s_.names for s_ in tests)
        ck.decide(only_se, R, "deflateParams:flush-error", "the internal Z_BLOCK flush aborts deflateParams only on Z_STREAM_ERROR",
                  "deflateParams compares the result of its internal deflate(Z_BLOCK) with %s: zlib-ng returns early only for "
                  "Z_STREAM_ERROR (a Z_BUF_ERROR from a flush with nothing to do is ignored and the parameters are still changed)"
                  % sorted({n for s_ in tests for n in s_.names if n[:1].isupper()}), where(pm))
    vc = P.fn(SYS + "is_version_compatible")
    if ck.anchor("fn is_version_compatible", vc):
        ck.use_fn(vc)
        ats = [sig.sig(a, vc) for a, b, tb in atoms.all_atoms(vc)]
        e = vc.local_expr(0)
        ok = any("LIBZ_RS_SYS_VERSION" in s.names or any("as_bytes" in c for c in s.calls) for s in ats)
        ck.decide(ok, R, "version:first-char", "first character of the version strings compared", "version check no longer compares the major version character", where(vc))
        szs = any(mir.calls_in(x, r"size_of$") for bi, si, lhs, rv, s in vc.assignments() for x in [vc.rvalue_expr(rv)])
        ck.decide(szs, R, "version:stream_size", "stream_size compared with size_of::<z_stream>()", "stream_size is no longer checked", where(vc))
    # inflateUndermine: zlib-ng (built without INFLATE_ALLOW_INVALID_DISTANCE_TOOFAR_ARRR) returns Z_DATA_ERROR
    um = P.fn(Z + "inflate::undermine")
    if ck.anchor("fn inflate::undermine", um):
        rc_ = P.ret_const(um.path)
        ck.decide(rc_ is not None and rc_[1] == "DataError", "ATOM/status-parity", "inflateUndermine",
                  "returns Z_DATA_ERROR like zlib-ng", "inflate::undermine returns %s for a valid stream; zlib-ng built without the 'allow invalid distance' option returns Z_DATA_ERROR"
                  % (rc_[1] if rc_ else "a computed value"), where(um))


def run(ck):
    P = prog("K1")
    ck.configs.add("K1")
    # round 10: the duplicate-flush rule decides a status code
    from . import c11 as _c11s
    _c11s.duplicate_flush(ck, P)
    null_rule(ck, P, "K1")
    conversions(ck, P, "K1")
    roots = [f.path for f in exported(P, gz=False)]
    ck.floor("ABORT:roots", len(roots), 60)
    api = {f.path for f in P.fns.values() if f.crate == "zlib_rs" and f.j.get("vis") == "Public" and P.callers_of(f.path) & set(roots)}
    abort.check(ck, P, roots, "ABORT/c-api", abort_table.JUSTIFIED, api_fns=api, label="C API")
    validation(ck, P)
    setdict_status_rule(ck, P)
    set_header_plain_wrap(ck, P)
    from .. import guards as _gct
    _gct.c_truthiness(ck, P)
    from .. import taint as _t
    _t.api_int_arith(ck, P, roots)
    from .. import condparity
    ck.floor("SIB/ref-conditions", condparity.check(ck, P, "SIB/ref-conditions", only={"deflate.c:deflateEnd", "inflate.c:inflateEnd", "inflate.c:inflateValidate", "compress.c:compress2", "uncompr.c:uncompress2", "deflate.c:deflateSetHeader", "deflate.c:deflateGetDictionary", "inflate.c:inflateGetDictionary", "deflate.c:deflatePending", "inflate.c:inflateMark", "deflate.c:deflateTune", "inflate.c:inflateCopy", "deflate.c:deflateCopy", "inflate.c:inflateResetKeep", "deflate.c:deflateReset", "deflate.c:deflateParams", "deflate.c:deflateInit2", "deflate.c:deflateSetDictionary", "deflate.c:deflatePrime", "deflate.c:deflateBound", "deflate.c:deflateResetKeep", "inflate.c:inflateReset2", "inflate.c:inflateInit2", "inflate.c:inflateSetDictionary", "inflate.c:inflatePrime", "inflate.c:inflateSync", "inflate.c:inflateSyncPoint", "inflate.c:inflateGetHeader", "inflate.c:inflate", "deflate.c:deflate"}), 80)
    from .. import refwrites
    ck.floor("SIB/ref-writes", refwrites.check(ck, P, "SIB/ref-writes", only={"deflate.c:deflateParams", "deflate.c:deflateTune",
             "deflate.c:deflatePrime", "inflate.c:inflatePrime", "inflate.c:inflateSync", "deflate.c:deflateSetDictionary",
             "inflate.c:inflateSetDictionary", "deflate.c:deflateResetKeep", "inflate.c:inflateResetKeep", "inflate.c:inflateReset2"}), 30)
    from .. import guards as _g
    _g.finished_early_return(ck, P)
    _g.prime_room(ck, P)
    _g.published_reset(ck, P)
    from . import c08 as _c08
    _c08.sync_commit(ck, P)
    # a requested leave (Z_BLOCK / Z_TREES) that loses its place makes the next call return a status zlib-ng does not
    from . import c04 as _c04
    _c04.voluntary_leave(ck, P)
    P5 = prog("K5")
    ck.configs.add("K5")
    symbols(ck, P5)
    null_rule(ck, P5, "K5")
    ck.assumptions += ["rustc MIR", "null-safe sink list / exception tables", "zlib-ng extract (prototypes, macros)", "K1 and K5 builds; host target"]


def run_thorough(ck):
    P2 = prog("K2")
    ck.configs.add("K2")
    null_rule(ck, P2, "K2")
    roots = [f.path for f in exported(P2, gz=False)]
    abort.check(ck, P2, roots, "ABORT/c-api@K2", abort_table.JUSTIFIED, api_fns=None, label="C API")

# session 5 (round 9, D24)
EXPLANATION = EXPLANATION + " " + (
    'TAINT/api-int-arith: state fields that an API setter stores from unvalidated integer parameters (deflateTune) never feed unguarded overflow-checked arithmetic. ATOM/c-truthiness: int parameters become bool arguments by `!= 0`.')

# session 5 (round 10)
EXPLANATION = EXPLANATION + " " + (
    "ATOM/duplicate-flush and ATOM/rank-flush (shared with C11): the BUF_ERROR for a repeated flush is decided by zlib's ranking of the flush values.")


def setdict_status_rule(ck, P, R="ATOM/setdict-status"):
    """deflateSetDictionary: `if (wrap == 2 || (wrap == 1 && s->status != INIT_STATE) || s->lookahead) return Z_STREAM_ERROR` - the
    "only before the first deflate call" restriction belongs to the zlib wrapper; a raw stream may be given a dictionary at any
    block boundary.  Every branch of deflate::set_dictionary that tests `status` is taken only under `wrap == 1`."""
    from .. import sig as _sig
    f = P.fn(Z + "deflate::set_dictionary")
    if not ck.anchor("fn deflate::set_dictionary", f):
        return
    ck.use_fn(f)
    n = 0
    sites = []
    for b in sorted(f.live):
        t = f.blocks[b]["t"]
        if t["k"] == "switch" and b not in f.debug_branches and mir.mentions_field(f.operand_expr(t["discr"]), "status"):
            sites.append((b, t.get("line")))
    # the comparison may also be computed as a value (`let header_written = wrap == 1 && status != Init;`)
    for bi, si, lhs, rv, st in f.assignments():
        if rv.get("k") == "bin" and rv.get("op") in ("Eq", "Ne") or rv.get("k") == "discr":
            e = f.rvalue_expr(rv)
            if mir.mentions_field(e, "status") and (bi, st.get("line")) not in sites and not any(bi == b_ for b_, _ in sites):
                sites.append((bi, st.get("line")))
    for c in f.live_calls(r"cmp::PartialEq::(eq|ne)$"):
        if any(mir.mentions_field(a, "status") for a in f.call_args(c)) and not any(c.bb == b_ for b_, _ in sites):
            sites.append((c.bb, c.line))
    for b, line_ in sites:
        t = {"line": line_}
        n += 1
        ok = False
        for a in f.dominating_atoms(b):
            s = _sig.sig(a, f)
            if s.rel == "Eq" and "wrap" in s.names and 1 in s.consts:
                ok = True
        ck.decide(ok, R, "set_dictionary:status-test#%d" % n, "status is tested only for the zlib wrapper (wrap == 1)",
                  "deflate::set_dictionary tests `status` outside `wrap == 1`: a raw deflate stream is refused a dictionary after its "
                  "first deflate() call (zlib-ng returns Z_OK there)", where(f, t.get("line")))
    ck.floor(R, n, 1)

# session 5 (round 11)
EXPLANATION = EXPLANATION + " " + (
    'ATOM/setdict-status (round 11): deflate::set_dictionary tests `status` only under wrap == 1 (zlib-ng accepts a dictionary for a raw stream at any block boundary).')


def set_header_plain_wrap(ck, P, R="ATOM/set-header-wrap"):
    """deflateSetHeader: `if (s->wrap != 2) return Z_STREAM_ERROR` - the stored `wrap` itself.  deflate() negates `wrap` once the
    trailer is out, and zlib-ng refuses a header for such a finished stream; a test of |wrap| (or of any function of wrap)
    accepts it."""
    from .. import atoms as _atoms, sig as _sig
    f = P.fn(Z + "deflate::set_header")
    if not ck.anchor("fn deflate::set_header", f):
        return
    ck.use_fn(f)
    n = 0
    for a, b, tb in _atoms.all_atoms(f):
        s = _sig.sig(a, f)
        if "wrap" in s.names and s.rel in ("Eq", "Ne") and 2 in s.consts:
            n += 1
            ck.decide(not s.calls, R, "set_header:wrap#%d" % n, "compares the stored wrap with 2",
                      "deflate::set_header tests %s of wrap against 2 instead of the stored value: a gzip stream that has written its "
                      "trailer (wrap negated) is accepted where zlib-ng returns Z_STREAM_ERROR" % sorted(s.calls), where(f))
    ck.floor(R, n, 1)

# session 5 (round 12)
EXPLANATION = EXPLANATION + " " + (
    'ATOM/set-header-wrap (round 12): deflate::set_header compares the stored wrap with 2 (a finished gzip stream has wrap negated and is refused, as in zlib-ng).')
