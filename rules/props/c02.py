"""C02 — decompressing untrusted bytes is memory-safe, never aborts, terminates.
Decided clause: unchecked operations of the inflate path are dominated by their bound checks with
the right margin constants; margins are mutually consistent; the unsupported 'allow invalid
distance' mode cannot be switched on; no unjustified explicit abort construct is reachable from a
decode entry point."""
import re

from .. import mir, sig, shape, atoms, consts, abort, abort_table, flow, decoders
from ..core import where
from ..ctx import prog, Z, SYS

EXPLANATION = (
    "GUARD: each unchecked operation of the inflate path (fast-loop entry and back edge, BitReader::refill, "
    "copy_chunk_unchecked::<N>, raw pointer reads, gzip header capture copies, get_dictionary copies) is "
    "control-dependent on its bound check with the required margin. CONST: INFLATE_FAST_MIN_HAVE >= 8+7, "
    "INFLATE_FAST_MIN_LEFT >= 258+2, window padding >= largest chunk width N instantiated, ENOUGH sizes and root bits, "
    "scratch array sizes. WHO: Flags::SANE is only ever set (the panic on the unsupported path is unreachable). "
    "MODE: len_and_friends' unreachable_unchecked arm. ABORT: every explicit panic/assert/unwrap/expect reachable from "
    "decode entry points is in the justified table. Implicit bounds checks, arithmetic overflow and termination are not decided. "
    "ATOM/safety-rejection: the validations whose absence turns corrupt input into an out-of-range index or window read (HLIT/HDIST limits, repeat-count overflow, distance beyond the bytes held by the window) are present with their constants in every decoder copy of inflate (dispatch, len_and_friends, fast loop). GUARD/fast-bit-budget: the fast loop refills before decoding a distance unless at least MAX_BITS + MAX_DIST_EXTRA_BITS = 28 bits are buffered.")

CLAIM = dict(
    text="Static: control-dependence (dominating branch atoms over the pruned MIR CFG) of every listed unchecked "
         "operation on its bound, consistency relations between the margin constants (compiler-evaluated), a who-may-write "
         "rule on the SANE flag, and a call-graph inventory of explicit abort constructs. Each is a necessary condition of "
         "memory safety / no-abort for some input and buffer schedule; value-range facts behind implicit bounds checks and "
         "termination are not decided.",
    note="Trusted: rustc MIR and const evaluation; the GUARD instance table and the justified-abort table (one reason "
         "each, rules/abort_table.py); host target only (x86_64 kernels).",
    technique="dominator/control-dependence guard matching + constant relations + call-graph abort inventory + linear-normal-form comparison of sibling bounds tests over rustc MIR",
)

P_ = decoders.P

LAF = Z + "inflate::State::len_and_friends"
FAST = Z + "inflate::inflate_fast_help_impl"
FAST_BACK = Z + "inflate::infback::inflate_fast_back"
BACK = Z + "inflate::infback::back"

# (instance, function, callee regex, floor, patterns that must each be matched by a dominating atom)
GUARD_CALLS = [
    ("fast-entry@len_and_friends", LAF, r"inflate::inflate_fast_help$", 2, [
        P_(rel="Le", lo_ge=15, hi_calls={"BitReader::bytes_remaining"}),
        P_(rel="Le", lo_ge=260, hi_calls={"Writer::remaining"}),
    ]),
    ("fast-entry@back", BACK, r"infback::inflate_fast_back$", 1, [
        P_(rel="Le", lo_ge=15, hi_names={"have"}),
        P_(rel="Le", lo_ge=260, hi_names={"left"}),
    ]),
    ("copy_chunk_unchecked@extend_from_window_help", Z + "inflate::writer::Writer::extend_from_window_help",
     r"Writer::copy_chunk_unchecked$", 1, [
        P_(rel="Le", lo_names={"N"}, ops={"Add"}, hi_calls={"Writer::remaining"}),
     ]),
    ("copy_chunk_unchecked@copy_chunked_within", Z + "inflate::writer::Writer::copy_chunked_within",
     r"Writer::copy_chunk_unchecked$", 1, [
        # `current` and `capacity` are locals initialised from self.filled / self.buf.len(): either spelling
        [P_(rel="Lt", lo_names={"N", "current", "length"}, ops={"Add"}, hi_names={"capacity"}),
         P_(rel="Lt", lo_names={"N", "filled", "length"}, ops={"Add"}, hi_calls={"WeakSliceMut::len"}),
         P_(rel="Lt", lo_names={"N", "filled", "length"}, ops={"Add"}, hi_names={"capacity"}),
         P_(rel="Lt", lo_names={"N", "current", "length"}, ops={"Add"}, hi_calls={"WeakSliceMut::len"})],
     ]),
]

# who may call the unchecked primitives
WHO_CALLERS = [
    (r"inflate::bitreader::BitReader::refill$", {FAST, FAST_BACK}, 6),
    (r"inflate::bitreader::BitReader::return_unused_bytes$", {FAST, FAST_BACK}, 2),
    (r"inflate::writer::Writer::copy_chunk_unchecked$", {Z + "inflate::writer::Writer::extend_from_window_help",
                                                        Z + "inflate::writer::Writer::copy_chunked_within"}, 2),
    (r"inflate::writer::(load_chunk|store_chunk)$", {Z + "inflate::writer::Writer::copy_chunk_unchecked"}, 4),
    (r"inflate::inflate_fast_help(_avx2|_vanilla)?$", {LAF, Z + "inflate::inflate_fast_help"}, 2),
    (r"inflate::inflate_fast_help_impl$", {Z + "inflate::inflate_fast_help_avx2", Z + "inflate::inflate_fast_help_vanilla"}, 2),
    (r"inflate::infback::inflate_fast_back$", {BACK}, 1),
]


def decode_roots(P):
    roots = []
    for f in P.fns.values():
        last = f.path.split("::")[-1]
        if f.crate == "libz_rs_sys" and f.is_extern_c and "::gz::" not in f.path and (last.startswith("inflate") or last.startswith("uncompress")):
            roots.append(f.path)
        if f.crate == "zlib_rs" and f.j.get("vis") == "Public" and (
                f.path.startswith(Z + "stable::Inflate") or last in ("decompress_slice", "uncompress", "uncompress2")):
            roots.append(f.path)
    return sorted(set(roots))


def guard_calls(ck, P, only=None):
    for inst, path, rx, floor, pats in GUARD_CALLS:
        if only is not None and inst not in only:
            continue
        fn = P.fn(path)
        if not ck.anchor("fn " + path, fn):
            continue
        ck.use_fn(fn)
        calls = fn.live_calls(rx)
        ck.floor("GUARD/" + inst, len(calls), floor)
        for i, c in enumerate(calls):
            ss = shape.dominating_sigs(fn, c.bb)
            missing = [p for p in pats if not any(sig.match(s, q) for s in ss for q in (p if isinstance(p, list) else [p]))]
            ck.call_sites += 1
            ck.decide(not missing, "GUARD/unchecked-op", "%s#%d" % (inst, i),
                      "dominated by " + "; ".join(mir.atom_str(s.atom, fn)[:70] for s in ss[:3]),
                      "unchecked operation is not control-dependent on its bound %s; dominating conditions: %s"
                      % (missing, "; ".join(mir.atom_str(s.atom, fn)[:80] for s in ss[:5]) or "none"), where(fn, c.line))
            if i == 0:
                ck.sample("GUARD %s: %s" % (inst, "; ".join(mir.atom_str(s.atom, fn)[:80] for s in ss[:2])))
        # the const generic of callee and guard must be the same N
        if "copy_chunk_unchecked" in inst:
            for c in calls:
                ck.decide("N" in c.gargs, "GUARD/unchecked-op", inst + ":same-N", "callee instantiated with the guard's N",
                          "copy_chunk_unchecked is instantiated with %s, not with the N used in the guard" % c.gargs, where(fn, c.line))


def loop_backedge_guard(ck, P, only=None):
    for path, hv in ((FAST, "BitReader::bytes_remaining_including_buffer"), (FAST_BACK, "BitReader::bytes_remaining")):
        if only is not None and path not in only:
            continue
        fn = P.fn(path)
        if not ck.anchor("fn " + path, fn):
            continue
        ck.use_fn(fn)
        # back edges: a -> h with h dominating a
        back = []
        for a in fn.live:
            for lab, h in fn.succ[a]:
                if h in fn.live and fn.dominates(h, a):
                    back.append((a, h))
        heads = sorted({h for _, h in back})
        # outermost header: dominates all the others
        outer = [h for h in heads if all(fn.dominates(h, o) for o in heads)]
        if not ck.anchor("outer loop of " + path, len(outer) == 1, where(fn)):
            continue
        H = outer[0]
        srcs = [a for a, h in back if h == H]
        okall = True
        for a in srcs:
            ss = shape.dominating_sigs(fn, a)
            # only guards inside the loop count
            ss = [s for s in ss]
            have = any(sig.match(s, P_(rel="Le", lo_ge=15, hi_calls={hv})) for s in ss)
            left = any(sig.match(s, P_(rel="Le", lo_ge=260, hi_calls={"Writer::remaining"})) for s in ss)
            if not (have and left):
                okall = False
                ck.bad("GUARD/fast-loop", path.replace(Z, "") + ":back-edge",
                       "the fast decoding loop continues without re-establishing %s >= 15 and writer.remaining() >= 260; guards: %s"
                       % (hv, "; ".join(mir.atom_str(s.atom, fn)[:80] for s in ss[:6])), where(fn, fn.blocks[a]["t"].get("line")))
        if okall and srcs:
            ck.ok("GUARD/fast-loop", path.replace(Z, "") + ":back-edge", "%d back edge(s) guarded by both margins" % len(srcs))
        ck.floor("GUARD/fast-loop:" + path.split("::")[-1], len(srcs), 1)


def who_callers(ck, P):
    from .. import inline
    for rx, allowed, floor in WHO_CALLERS:
        r = re.compile(rx)
        n = 0
        # a listed caller that has been inlined away hands its role to the functions that used to call it
        allowed = set(allowed)
        for k_ in list(allowed):
            if k_ not in P.fns and inline.is_known(k_):
                allowed |= set(inline.frozen_callers(k_))
        floor = min(floor, 1) if any(k_ not in P.fns for k_ in allowed) else floor
        for f in P.fns.values():
            for c in f.live_calls():
                if c.callee and r.search(c.callee):
                    n += 1
                    ck.decide(f.path in allowed, "WHO/unchecked-callers", "%s<-%s" % (c.callee.replace(Z, ""), f.path.replace(Z, "")),
                              "listed caller", "unchecked primitive %s is called from %s, which is not one of the functions that "
                              "establish its precondition (%s)" % (c.callee, f.path, sorted(a.replace(Z, "") for a in allowed)), where(f, c.line))
        ck.floor("WHO/unchecked-callers:" + rx, n, floor)


def raw_reads(ck, P):
    pb = P.fn(Z + "inflate::bitreader::BitReader::pull_byte")
    if ck.anchor("fn BitReader::pull_byte", pb):
        ck.use_fn(pb)
        # the deref of self.ptr: find assignment whose rvalue derefs field ptr
        sites = []
        for bi, si, lhs, rv, s in pb.assignments():
            e = pb.rvalue_expr(rv)
            if e[0] == "*" and mir.field_path(e[1])[1][-1:] == ("ptr",):
                sites.append((bi, s))
        ck.floor("GUARD/pull_byte", len(sites), 1)
        for bi, s in sites:
            ss = shape.dominating_sigs(pb, bi)
            ok = any(sig.sym_match(x, P_(rel="Ne", names={"ptr", "end"})) for x in ss)
            ck.decide(ok, "GUARD/unchecked-op", "pull_byte:*ptr", "dominated by ptr != end",
                      "`*self.ptr` in pull_byte is not dominated by the `ptr != end` test", where(pb, s.get("line")))
    ru = P.fn(Z + "inflate::bitreader::BitReader::return_unused_bytes")
    if ck.anchor("fn BitReader::return_unused_bytes", ru):
        ck.use_fn(ru)
        ok = False
        for c in ru.live_calls(r"const_ptr::sub$|ptr::const_ptr.*::sub$"):
            a = ru.call_args(c)
            if len(a) == 2:
                e = mir.strip_casts(a[1])
                if e[0] == "bin" and e[1] == "Shr" and mir.mentions_field(e[2], "bits_used") and atoms.cval(e[3]) == 3:
                    ok = True
        ck.decide(ok, "GUARD/unchecked-op", "return_unused_bytes:ptr.sub", "ptr.sub(bits_used >> 3)",
                  "return_unused_bytes no longer rewinds by exactly bits_used >> 3 bytes", where(ru))


def header_capture(ck, P, prop_rule="GUARD/header-capture"):
    """the three gzip header capture copies are bounded by *_max minus the bytes already stored (shared with C20)"""
    fn = P.fn(decoders.DISPATCH)
    if not ck.anchor("fn dispatch", fn):
        return
    ck.use_fn(fn)
    regs = decoders.mode_regions(fn, 20)
    if not ck.anchor("mode switch of dispatch", regs is not None):
        return
    for arm, maxf, ptrf in (("Extra", "extra_max", "extra"), ("Name", "name_max", "name"), ("Comment", "comm_max", "comment")):
        calls = [c for c in fn.live_calls(r"ptr::copy_nonoverlapping$|intrinsics::copy_nonoverlapping$") if c.bb in regs.get(arm, ())]
        if not ck.anchor("copy_nonoverlapping in arm %s" % arm, len(calls) == 1, where(fn)):
            continue
        c = calls[0]
        src, dst, count = fn.call_args(c)
        inst = "dispatch::%s" % arm
        mins = [x for x in mir.calls_in(count, r"cmp::Ord::min$|::min$")]
        bounded = False
        for m in mins:
            for a in m[2]:
                if mir.mentions_field(a, maxf) and mir.calls_in(a, r"saturating_sub$|checked_sub$"):
                    bounded = True
        ck.decide(bounded, prop_rule, inst + ":count",
                  "count = min(.., %s (-) already stored)" % maxf,
                  "capture copy length in arm %s is not min(available, %s minus bytes already stored): %s" % (arm, maxf, mir.fmt(count, fn)[:200]),
                  where(fn, c.line))
        # destination offset
        adds = mir.calls_in(dst, r"mut_ptr::add$|::add$")
        okd = False
        for a in adds:
            if mir.mentions_field(a[2][0], ptrf):
                off = a[2][1]
                if arm == "Extra":
                    okd = bool(mir.calls_in(off, r"::min$")) and mir.mentions_field(off, maxf)
                else:
                    okd = mir.mentions_field(off, "length")
        ck.decide(okd, prop_rule, inst + ":offset", "destination offset bounded",
                  "capture copy destination in arm %s is not head.%s + (bounded offset): %s" % (arm, ptrf, mir.fmt(dst, fn)[:200]), where(fn, c.line))
        # null test of the caller's pointer
        ss = shape.dominating_sigs(fn, c.bb, region=regs[arm])
        nn = any(s.kind == "truth" and s.truth is False and "is_null" in " ".join(s.calls) and ptrf in s.names for s in ss)
        ck.decide(nn, prop_rule, inst + ":null", "skipped when head.%s is null" % ptrf,
                  "capture copy in arm %s is not guarded by !head.%s.is_null()" % (arm, ptrf), where(fn, c.line))
        ck.call_sites += 1


def margins(ck, P):
    R = "CONST/margins"
    try:
        mh = consts.get(P, Z + "inflate::INFLATE_FAST_MIN_HAVE")
        ml = consts.get(P, Z + "inflate::INFLATE_FAST_MIN_LEFT")
        el = consts.get(P, Z + "ENOUGH_LENS")
        ed = consts.get(P, Z + "ENOUGH_DISTS")
        pad = consts.get(P, Z + "inflate::InflateAllocOffsets::new::WINDOW_PAD_SIZE")
    except consts.ConstError as e:
        ck.anchor("margin constants (%s)" % e, False)
        return
    ck.decide(mh >= 8 + 7, R, "INFLATE_FAST_MIN_HAVE", ">= 15 (one 8-byte unaligned load after up to 7 buffered bytes)",
              "INFLATE_FAST_MIN_HAVE = %d < 15: refill() can read past the input" % mh)
    ck.decide(ml >= 258 + 2, R, "INFLATE_FAST_MIN_LEFT", ">= 260 (one maximal match after two literals per iteration)",
              "INFLATE_FAST_MIN_LEFT = %d < 260: one fast-loop iteration can overrun the output" % ml)
    ck.decide((el, ed) == (1332, 592), R, "ENOUGH", "1332/592 for root bits 10/9 (zlib's enough computation)",
              "ENOUGH_LENS/ENOUGH_DISTS = %d/%d differ from the sizes computed for root bits 10/9" % (el, ed))
    # chunk widths instantiated vs padding
    widths = set()
    for f in P.fns.values():
        for c in f.live_calls(r"Writer::(extend_from_window_help|copy_match_help)$"):
            for g in c.gargs:
                if g.isdigit():
                    widths.add(int(g))
    ck.decide(bool(widths) and pad >= max(widths), R, "WINDOW_PAD_SIZE", "padding %d >= widest chunk %s" % (pad, sorted(widths)),
              "window padding %d is smaller than the widest chunk copy instantiated (%s): a chunked copy from the end of the window reads past it"
              % (pad, sorted(widths)))
    wp = P.fn(Z + "inflate::window::Window::padding")
    if wp is not None:
        v = atoms.cval(wp.local_expr(0))
        ck.decide(v is not None and widths and v >= max(widths), R, "Window::padding", "padding() %s >= widest chunk" % v,
                  "Window::padding() = %s is smaller than the widest chunk copy (%s)" % (v, sorted(widths)), where(wp))
    # window carved with padding; init passes the same expression
    ini = P.fn(Z + "inflate::init")
    if ck.anchor("fn inflate::init", ini):
        ck.use_fn(ini)
        ok = False
        for c in ini.live_calls(r"inflate::window::Window::from_raw_parts$"):
            a = ini.call_args(c)
            v = atoms.cval(a[1]) if len(a) > 1 else None
            if v is not None and v >= (1 << 15) + max(widths or [64]):
                ok = True
        ck.decide(ok, R, "init:window-len", "window length (1<<15)+padding", "inflate::init builds the window without room for the chunk padding", where(ini))
    # inflate_table root bits in both decoders
    for path in (decoders.DISPATCH, BACK):
        fn = P.fn(path)
        if not fn:
            continue
        roots = []
        for c in fn.live_calls(r"inftrees::inflate_table$"):
            a = fn.call_args(c)
            kind = a[0][2] if a[0][0] == "agg" else None
            roots.append((kind, atoms.cval(a[3])))
        ck.decide(sorted(roots, key=str) == sorted([("Codes", 7), ("Lens", 10), ("Dists", 9)], key=str), R, "root-bits@" + path.split("::")[-1],
                  "inflate_table root bits 7/10/9", "inflate_table is called with root bits %s; ENOUGH was computed for 7/10/9" % roots, where(fn))
    st = P.adt(Z + "inflate::State")
    if st:
        ty = {f["name"]: f["ty"] for f in st["variants"][0]["fields"]}
        m = re.match(r"\[u16; (\d+)\]", ty.get("lens", ""))
        ck.decide(bool(m) and int(m.group(1)) >= 286 + 30, R, "State.lens", "lens holds 286+30 code lengths", "lens array too small: %s" % ty.get("lens"))
        m = re.match(r"\[u16; (\d+)\]", ty.get("work", ""))
        ck.decide(bool(m) and int(m.group(1)) >= 288, R, "State.work", "work holds 288 symbols", "work array too small: %s" % ty.get("work"))


def sane_who(ck, P, rule="WHO/sane-constant"):
    n = 0
    for f in P.fns.values():
        for c in f.live_calls(r"inflate::Flags::update$"):
            a = f.call_args(c)
            if len(a) == 3 and a[1][0] == "c" and a[1][2] and a[1][2].endswith("SANE"):
                n += 1
                v = f.const_of(a[2])
                ck.decide(v == 1, rule, f.path.replace(Z, ""), "SANE set to constant true",
                          "Flags::SANE is updated with a non-constant or false value (%s): clearing it makes a too-far distance reach "
                          "panic!(\"INFLATE_ALLOW_INVALID_DISTANCE_TOOFAR_ARRR\")" % mir.fmt(a[2], f), where(f, c.line))
    ck.floor(rule, n, 2)
    # no direct writes of the flags byte outside Flags methods
    for f in P.fns.values():
        if f.path.startswith(Z + "inflate::Flags::") or f.path.startswith("<" + Z + "inflate::Flags"):
            continue
        for bi, fp, root, rv, s in f.field_writes():
            if fp[-2:] == ("flags", "0") or (fp[-1:] == ("flags",) and f.path.startswith(Z + "inflate")):
                e = rv
                okw = e[0] == "call" or (e[0] == "agg")  # construction of a fresh Flags value
                if not okw:
                    ck.bad(rule, f.path.replace(Z, "") + ":raw-write", "inflate flags written directly outside Flags::update", where(f, s.get("line")))


def len_modes(ck, P):
    fn = P.fn(LAF)
    if not ck.anchor("fn len_and_friends", fn):
        return
    sws = fn.enum_switches("inflate::Mode", 4)
    if not ck.anchor("mode switch in len_and_friends", len(sws) == 1):
        return
    sw = sws[0]
    t = fn.blocks[sw]["t"]
    handled = {fn.prog.variant_name(Z + "inflate::Mode", v) for v, _ in t["targets"]}
    d = mir.strip_casts(fn.operand_expr(t["discr"]))
    # assignments of constants to the switched local
    root = d[1]
    if root[0] not in ("v", "p"):
        ck.anchor("switched local in len_and_friends", False)
        return
    loc = root[1]
    bad = []
    for bi, si, rv in fn.defs.get(loc, []):
        if bi not in fn.live or rv is None:
            continue
        e = fn.call_expr(rv) if si == "call" else fn.rvalue_expr(rv)
        v = fn.enum_const(e)
        if v is None:
            continue  # the initial load of self.mode
        if v[1] not in handled:
            # must not be able to reach the switch again
            if flow.reaches_avoiding(fn, [bi], [sw]):
                # allow if every path from here to the switch reassigns mode: approximate by checking direct reachability
                # without passing another assignment block
                others = {b for b, s2, r2 in fn.defs.get(loc, []) if b != bi}
                if flow.reaches_avoiding(fn, [bi], [sw], cut_blocks=others):
                    bad.append(v[1])
    ck.decide(not bad, "MODE/len-modes", "len_and_friends:unreachable_unchecked",
              "only %s can reach the match" % sorted(handled),
              "mode value(s) %s assigned in len_and_friends can reach the match whose default arm is unreachable_unchecked()" % bad, where(fn))
    # the only caller is dispatch, from arm Len
    callers = P.callers_of(LAF)
    ck.decide(callers == {decoders.DISPATCH}, "MODE/len-modes", "len_and_friends:callers", "called only from dispatch",
              "len_and_friends is called from %s" % sorted(callers))
    dsp = P.fn(decoders.DISPATCH)
    if dsp:
        regs = decoders.mode_regions(dsp, 20)
        if regs:
            for c in dsp.live_calls(r"State::len_and_friends$"):
                ck.decide(c.bb in regs.get("Len", ()), "MODE/len-modes", "len_and_friends:arm", "called in arm Len",
                          "len_and_friends is called outside arm Len of dispatch", where(dsp, c.line))
    # fast path: entry value filtered by `match self.mode { Len => {}, _ => return }`
    return


def fast_refill(ck, P, rule, fns=None):
    """The fast loops refill the bit buffer once per iteration and decode a length and a distance from it.  Before the
    distance is decoded (code <= MAX_BITS = 15 bits, extra <= MAX_DIST_EXTRA_BITS = 13 bits) the buffer must hold 28 bits
    or be refilled: the conditional refill's threshold has to be that constant sum - a smaller or data-dependent
    threshold under-fills for second-level distance codes."""
    n = 0
    for path in (fns or (FAST, FAST_BACK)):
        fn = P.fn(path)
        if not ck.anchor("fn " + path, fn):
            continue
        ck.use_fn(fn)
        refills = fn.live_calls(r"BitReader::refill$")
        cond = []
        for c in refills:
            ss = [sig.sig(a, fn) for a in fn.dominating_atoms(c.bb)]
            for s_ in ss:
                if s_.rel == "Le" and "BitReader::bits_in_buffer" in s_.lo_calls and s_.hi_val is not None:
                    cond.append((c, s_.hi_val + 0))
        short = path.replace(Z, "")
        n += len(cond)
        # normalised form of `bits_in_buffer() < K` is `bits_in_buffer() <= K-1`
        ok = bool(cond) and max(k + 1 for _, k in cond) >= 28
        ck.decide(ok, rule, short + ":dist-refill", "conditional refill when fewer than %s bits are buffered" % sorted({k + 1 for _, k in cond}),
                  "%s has no refill of the form `if bits_in_buffer() < K { refill }` with constant K >= MAX_BITS + MAX_DIST_EXTRA_BITS = 28 before "
                  "the distance is decoded (found thresholds %s): a 15-bit distance code with 13 extra bits can read past the buffered bits"
                  % (short, sorted({k + 1 for _, k in cond}) or "none"), where(fn, max(cond, key=lambda x: x[1])[0].line if cond else None))
    return n


def run(ck):
    P = prog("K1")
    ck.configs.add("K1")
    from .. import linear as _lin
    ck.floor("SIB/same-terms-same-threshold", _lin.same_threshold(ck, P, [f for f in sorted(P.fns.values(), key=lambda f: f.path) if f.path.startswith(Z + "inflate::")]), 1)
    ck.floor("PAIR/second-level-bits", _lin.second_level_bits(ck, P, [f for f in sorted(P.fns.values(), key=lambda f: f.path) if f.path.startswith(Z + "inflate::")]), 3)
    guard_calls(ck, P)
    loop_backedge_guard(ck, P)
    who_callers(ck, P)
    raw_reads(ck, P)
    header_capture(ck, P)
    # every condition of the reference decoder that has a counterpart today keeps one (bounds and rejections are among them)
    from .. import condparity as _cp
    ck.floor("SIB/ref-conditions", _cp.check(ck, P, "SIB/ref-conditions", only={"inflate.c:inflate", "inffast_tpl.h:INFLATE_FAST", "inftrees.c:zng_inflate_table"}), 60)
    from .. import guards as _g
    _g.crc_fold_start(ck, P)
    _g.fold_copy_dst(ck, P)
    # inflateBack writes into a caller-supplied window: its raw copies are bounded by the room left in it
    from . import c19 as _c19
    _c19.raw_guards(ck, P)
    from . import c20 as _c20
    _d = P.fn(decoders.DISPATCH)
    _regs = decoders.mode_regions(_d, 20) if _d else None
    if _d and _regs:
        # the invariant behind the justified expect("name/comm out of bounds")
        _c20.length_reset(ck, _d, _regs, "MODE/header-done")
    margins(ck, P)
    sane_who(ck, P)
    len_modes(ck, P)
    # the validations whose absence turns corrupt input into an out-of-range index / window read (abort or stale bytes):
    # symbol counts, repeat overflow, distance beyond the bytes held by the window - in every decoder copy of inflate
    nsafe = decoders.check_rejections(ck, P, "ATOM/safety-rejection",
                                      only_impls={decoders.DISPATCH, decoders.LEN_AND_FRIENDS, decoders.FAST},
                                      only_names={"hlit-hdist", "rep16-overflow", "rep17-overflow", "rep18-overflow", "dist-window"})
    ck.floor("ATOM/safety-rejection", nsafe, 7)
    # the table builder's space limits keep sub-tables inside the fixed-size code arrays
    from . import c03 as _c03
    _c03.inflate_table_rules(ck, P)
    fast_refill(ck, P, "GUARD/fast-bit-budget")
    roots = decode_roots(P)
    ck.floor("ABORT:roots", len(roots), 25)
    api = {f.path for f in P.fns.values() if f.crate == "zlib_rs" and f.j.get("vis") == "Public" and P.callers_of(f.path) & set(roots)}
    abort.check(ck, P, roots, "ABORT/decode", abort_table.JUSTIFIED, api_fns=api, label="decode")
    ck.assumptions += ["rustc MIR/const evaluation", "justified-abort table and GUARD instance table confirmed by reading",
                       "host target x86_64; K1 build (std, rust-allocator, gz)"]


def run_thorough(ck):
    # the same abort inventory in the C-allocator and no_std builds
    for cfg in ("K2", "K4"):
        P = prog(cfg)
        ck.configs.add(cfg)
        roots = decode_roots(P)
        abort.check(ck, P, roots, "ABORT/decode@" + cfg, abort_table.JUSTIFIED, api_fns=None, label="decode")

# session 5 (round 9, D24)
EXPLANATION = EXPLANATION + " " + (
    'GUARD/fold-copy-dst: every destination of Crc32Fold::fold_copy is an end-bounded cut of the padded window buffer (the pclmulqdq kernel asserts equal lengths). SIB/same-terms-same-threshold: ordering decisions of the decoder over the same linear combination of state fields and working locals (the repeat-overflow test in the three repeat arms of dispatch and back) decide at one threshold. PAIR/second-level-bits: the bit count of every saved first-level table entry is part of the exit test of its second-level fetch loop.')
