"""C20 — gzip header metadata written faithfully, captured within announced capacities."""
from .. import mir, sig, shape, atoms, flow, decoders
from ..core import where
from ..ctx import prog, Z
from . import c02

EXPLANATION = (
    "GUARD (read side): the Extra copy writes at min(written, extra_max) for min(extra_max (-) written, available) bytes; Name/"
    "Comment copy min(slice_len, max - length) at +length; each copy is skipped for a NULL caller pointer; `length` is reset to 0 "
    "between fields. MODE: head.done = 1 is assigned only in arm HCrc (after the header-CRC rejection), done = -1 only in arm Head on "
    "the non-gzip path, get_header stores done = 0; arm Type is entered from the gzip header arms only through HCrc; absent "
    "fields store NULL. CONST: gz_header::flags() composes {text:1, hcrc:2, extra:4, name:8, comment:16}; the reader tests "
    "{0x0200, 0x0400, 0x0800, 0x1000} and rejects 0xe000 (RFC 1952 FLG bits shifted by 8 in the 16-bit CM|FLG word). Write side, "
    "large fields: every call of flush_bytes in deflate() passes a slice whose start is offset by state.gzindex (resume after a "
    "partial write); flush_bytes advances gzindex by what it copied and zeroes it on completion; the two header-CRC bytes are "
    "written only after room for both was made. That captured bytes equal the stream's and CRC correctness are not decided. "
    "PAIR/header-crc-once: in flush_bytes a CRC update from which a suspension (ControlFlow::Break) is still reachable is taken over the pending buffer, never over the caller's slice (which is handed in again from gzindex). SIB/resume-gzindex advance-before-suspend: between every Pending::extend in flush_bytes and a suspension exit gzindex is advanced. "
    "MODE/header-done done-last: no suspension or CRC-mismatch exit is reachable after head.done = 1 is stored.")

CLAIM = dict(
    text="Static bounds (count/offset expression shapes) on the three header-capture copies, mode-graph constraints on the "
         "`done` flag, writer/reader/RFC agreement of the FLG bits (compiler-evaluated constants and MIR atoms), and a sibling "
         "rule that every suspendable header-writing arm resumes from gzindex. Necessary conditions for faithful, bounded header "
         "handling under any chunking. "
         "Also: header bytes enter the header CRC once and gzindex is advanced before every suspension of flush_bytes.",
    note="Trusted: rustc MIR; arm regions; host target.",
    technique="expression-shape guards + mode-graph constraints + sibling resume-offset rule over rustc MIR",
)

D = decoders.DISPATCH


def done_flag(ck, P):
    R = "MODE/header-done"
    fn = P.fn(D)
    if not ck.anchor("fn dispatch", fn):
        return
    ck.use_fn(fn)
    regs = decoders.mode_regions(fn, 20)
    if not ck.anchor("mode switch", regs):
        return

    def arm_of(b):
        for k, v in regs.items():
            if b in v:
                return k

    sites = {}
    for bi, fp, root, rv, s in fn.field_writes():
        if fp[-1:] == ("done",):
            v = atoms.cval(rv)
            sites.setdefault(v, []).append(bi)
    ck.decide(sites.get(1) and {arm_of(b) for b in sites[1]} == {"HCrc"}, R, "done=1", "only in arm HCrc",
              "head.done = 1 is assigned in arm(s) %s: completion must be signalled only after the whole header (incl. HCRC) was parsed" % sorted({str(arm_of(b)) for b in sites.get(1, [])}), where(fn))
    ck.decide(sites.get(-1) and {arm_of(b) for b in sites[-1]} == {"Head"}, R, "done=-1", "only in arm Head (not a gzip stream)",
              "head.done = -1 is assigned in arm(s) %s" % sorted({str(arm_of(b)) for b in sites.get(-1, [])}), where(fn))
    ck.decide(set(sites) <= {1, -1}, R, "done-values", "only 1 and -1 are stored by the decoder", "done receives values %s" % sorted(map(str, sites)), where(fn))
    # done = 1 comes after the header crc rejection in the arm
    hreg = regs.get("HCrc", set())
    ms = decoders.message_sites(fn).get("header crc mismatch", [])
    ok = False
    for b in sites.get(1, []):
        # no path from the arm entry to done=1 that skips the crc test when FHCRC is set: the done block is not reachable from the mismatch edge
        ok = bool(ms) and all(not flow.reaches_avoiding(fn, [m], [b], cut_blocks={x for x in fn.live if x not in hreg}) for m in ms)
    ck.decide(ok, R, "done-after-crc", "a header-CRC mismatch never reaches done = 1", "done = 1 is reachable after a header CRC mismatch", where(fn))
    # ... and after the arm's last input request: no suspension or mismatch exit is reachable once done = 1 is stored
    from . import c04
    st = c04.suspension_structure(fn, 20)
    if ck.anchor("suspension structure of dispatch", st is not None):
        sw_, cps, exits_ = st
        bad_blocks = set(ms)
        late = all(not flow.reaches_avoiding(fn, [b], exits_ | bad_blocks, cut_blocks={sw_}) for b in sites.get(1, []))
        ck.decide(bool(sites.get(1)) and late, R, "done-last", "done = 1 is stored after the arm's last input request and after the CRC test",
                  "arm HCrc stores head.done = 1 and can afterwards still run out of input or reject the header CRC: completion is signalled "
                  "before the whole header has been parsed", where(fn))
    # Type from header arms only via HCrc
    tys = []
    for bi, si, lhs, rv, s in fn.assignments():
        e = fn.rvalue_expr(rv)
        if any(x[0] == "agg" and x[1].endswith("inflate::Mode") and x[2] == "Type" for x in mir.walk(e)):
            tys.append(arm_of(bi))
    bad = [a for a in tys if a in ("Flags", "Time", "Os", "ExLen", "Extra", "Name", "Comment")]
    ck.decide(not bad and "HCrc" in tys, R, "Type-via-HCrc", "block decoding starts from the gzip header only through HCrc", "Mode::Type is entered directly from header arm(s) %s" % bad, where(fn))
    length_reset(ck, fn, regs, R)


def length_reset(ck, fn, regs, R="MODE/header-done"):
    """`length` doubles as 'bytes of this field already captured': it must be zero when Name and Comment start"""
    for arm in ("Extra", "Name"):
        reg = regs.get(arm, set())
        z = [bi for bi, fp, root, rv, s in fn.field_writes() if bi in reg and fp[-1:] == ("length",) and atoms.cval(rv) == 0]
        nxt = {"Extra": "Name", "Name": "Comment"}[arm]
        exits = [bi for bi, si, lhs, rv, s in fn.assignments() if bi in reg and any(x[0] == "agg" and x[1].endswith("inflate::Mode") and x[2] == nxt for x in mir.walk(fn.rvalue_expr(rv)))]
        entry = [tb for lab, tb in fn.succ[fn.enum_switches("inflate::Mode", 20)[0]] if tb in reg]
        leak = flow.reaches_avoiding(fn, entry, exits, cut_blocks=z, cut_blocks_extra=None) if False else flow.reaches_avoiding(fn, entry, exits, cut_blocks=z)
        ck.decide(bool(z) and bool(exits) and not leak, R, "length=0@" + arm, "length reset before the next field",
                  "arm %s can hand over to %s without resetting `length`: the next field's capture offset starts wrong" % (arm, nxt), where(fn))


def absent_and_get_header(ck, P, fn, regs, R="MODE/header-done"):
    # absent fields store NULL
    for arm, ptrf in (("ExLen", "extra"), ("Name", "name"), ("Comment", "comment")):
        reg = regs.get(arm, set())
        nul = [1 for bi, fp, root, rv, s in fn.field_writes() if bi in reg and fp[-1:] == (ptrf,) and mir.calls_in(rv, r"ptr::null_mut$")]
        ck.decide(bool(nul), R, "absent-null@" + ptrf, "absent field reported as NULL", "an absent %s field is no longer reported as NULL" % ptrf, where(fn))
    gh = P.fn(Z + "inflate::get_header")
    if ck.anchor("fn inflate::get_header", gh):
        z0 = False
        for f in [gh] + [P.fns[c] for c in gh.fn_refs() | gh.callee_paths() if c in P.fns]:
            for bi, fp, root, rv, s in f.field_writes():
                if fp[-1:] == ("done",) and atoms.cval(rv) == 0:
                    z0 = True
        ck.decide(z0, R, "get_header:done=0", "done cleared when capture is requested", "inflateGetHeader no longer clears head.done", where(gh))
        ck.decide(any(s.rel == "Eq" and "wrap" in s.names and 2 in s.consts for a, rv, b, ln in atoms.rejections(gh) for s in [sig.sig(a, gh)] if rv == "StreamError"),
                  R, "get_header:gzip-only", "rejected unless gzip decoding is enabled", "inflateGetHeader lost its `wrap & 2` test", where(gh))


def flag_bits(ck, P):
    R = "CONST/flg-bits"
    fl = P.fn(Z + "c_api::gz_header::flags")
    if ck.anchor("fn gz_header::flags", fl):
        ck.use_fn(fl)
        # each term: switch on a field -> constant
        terms = {}
        for b in fl.live:
            t = fl.blocks[b]["t"]
            if t["k"] != "switch":
                continue
            d = fl.operand_expr(t["discr"])
            names = atoms.names_in(d, fl)
            for lab, tb in fl.succ[b]:
                for cb in atoms.straight_line(fl, tb, 2):
                    for s in fl.blocks[cb]["s"]:
                        if s["k"] == "assign":
                            v = atoms.cval(fl.rvalue_expr(s["rv"]))
                            if v in (1, 2, 4, 8, 16, 32, 64, 128):
                                for n in names & {"text", "hcrc", "extra", "name", "comment"}:
                                    terms[n] = v
        want = {"text": 1, "hcrc": 2, "extra": 4, "name": 8, "comment": 16}
        ck.decide(terms == want, R, "writer", "FLG = text:1 hcrc:2 extra:4 name:8 comment:16 (RFC 1952)", "gz_header::flags() composes %s, RFC 1952 needs %s" % (terms, want), where(fl))
    fn = P.fn(D)
    regs = decoders.mode_regions(fn, 20) if fn else None
    if fn and regs:
        masks = {}
        for b, lab, tb, ats in atoms.edges(fn):
            for a in ats:
                s = sig.sig(a, fn)
                if "gzip_flags" in s.names and "BitAnd" in s.ops:
                    for arm, reg in regs.items():
                        if b in reg:
                            masks.setdefault(arm, set()).update(c for c in s.consts if c > 0xff)
        want = {"ExLen": 0x0400, "Extra": 0x0400, "Name": 0x0800, "Comment": 0x1000, "HCrc": 0x0200}
        for arm, m in want.items():
            ck.decide(m in masks.get(arm, set()), R, "reader:" + arm, "arm %s tests FLG bit %#06x" % (arm, m),
                      "arm %s of the gzip header parser tests %s, RFC 1952 bit is %#06x" % (arm, sorted(hex(x) for x in masks.get(arm, ())), m), where(fn))
        ck.decide(0xe000 in masks.get("Flags", set()), R, "reader:reserved", "reserved bits 0xe000 rejected", "reserved FLG bits are no longer tested", where(fn))
        # FTEXT and HCRC capture
        freg = regs.get("Flags", set())
        tx = [rv for bi, fp, root, rv, s in fn.field_writes() if bi in freg and fp[-1:] == ("text",)]
        ck.decide(any(mir.mentions_const(e, val=8) and mir.mentions_const(e, val=1) for e in tx), R, "reader:text", "text = (hold >> 8) & 1", "FTEXT capture changed", where(fn))
        hreg = regs.get("HCrc", set())
        hc = [rv for bi, fp, root, rv, s in fn.field_writes() if bi in hreg and fp[-1:] == ("hcrc",)]
        ck.decide(any(mir.mentions_const(e, val=9) and mir.mentions_const(e, val=1) for e in hc), R, "reader:hcrc", "hcrc = (flags >> 9) & 1", "FHCRC capture changed", where(fn))


def resume_from_gzindex(ck, P):
    R = "SIB/resume-gzindex"
    fn = P.fn(Z + "deflate::deflate")
    if not ck.anchor("fn deflate::deflate", fn):
        return
    ck.use_fn(fn)
    calls = fn.live_calls(r"deflate::flush_bytes$")
    ck.floor(R, len(calls), 3)
    for i, c in enumerate(calls):
        a = fn.call_args(c)
        # which status arm: dominating atom status == X
        ss = shape.dominating_sigs(fn, c.bb)
        arm = "?"
        for s in ss:
            for st in ("Extra", "Name", "Comment", "Hcrc"):
                if s.rel == "Eq" and st in s.names and "status" in s.names:
                    arm = st
        ok = mir.mentions_field(a[1], "gzindex")
        ck.decide(ok, R, "deflate:%s#%d" % (arm, i), "slice starts at state.gzindex",
                  "status arm %s hands flush_bytes the whole field again on re-entry (no offset by gzindex): with a small avail_out the field "
                  "restarts on every call and the header never completes" % arm, where(fn, c.line))
        ck.call_sites += 1
    # the field offset starts at 0 for every header: deflate() stores gzindex = 0 when it has written the fixed part of the
    # gzip header (status GZip -> Extra); reset does not clear it, so a header abandoned mid-field would otherwise leak its offset
    zero = [bi for bi, fp, root, rv, s_ in fn.field_writes() if fp[-1:] == ("gzindex",) and fn.const_of(rv) == 0]
    at_start = [b for b in zero if any(sg.rel == "Eq" and "GZip" in sg.names and "status" in sg.names for sg in shape.dominating_sigs(fn, b))]
    ck.decide(bool(at_start), R, "deflate:gzindex-start", "gzindex = 0 when the fixed header part has been written",
              "deflate() no longer zeroes gzindex when it starts the variable part of a gzip header: after a reset in the middle of a "
              "header field the next header's fields start at a stale offset", where(fn))
    fb = P.fn(Z + "deflate::flush_bytes")
    if ck.anchor("fn flush_bytes", fb):
        ck.use_fn(fb)
        wr = [(atoms.cval(rv), rv) for bi, fp, root, rv, s in fb.field_writes() if fp[-1:] == ("gzindex",)]
        ck.decide(any(v == 0 for v, _ in wr), R, "flush_bytes:reset", "gzindex = 0 on completion", "flush_bytes no longer zeroes gzindex when the field is complete", where(fb))
        ck.decide(any(v is None and any(x[0] == "bin" and x[1].startswith("Add") for x in mir.walk(e)) for v, e in wr), R, "flush_bytes:advance", "gzindex += copied",
                  "flush_bytes no longer advances gzindex by the bytes it copied", where(fb))
        # bytes handed to the pending buffer inside the loop are accounted in gzindex before the function can suspend
        ext = [c.bb for c in fb.live_calls(r"pending::Pending::extend$")]
        adv = {bi for bi, fp, root, rv, s in fb.field_writes() if fp[-1:] == ("gzindex",)}
        susp = set()
        for bi, si, lhs, rv, st in fb.assignments():
            if lhs.get("l") == 0 and not lhs.get("p"):
                e = fb.rvalue_expr(rv)
                if e[0] == "agg" and "Break" in str(e):
                    susp.add(bi)
        if ck.anchor("suspension exit in flush_bytes", bool(susp), where(fb)) and ck.anchor("Pending::extend in flush_bytes", bool(ext), where(fb)):
            leak = [b for b in ext if flow.reaches_avoiding(fb, [b], susp, cut_blocks=adv - {b})]
            ck.decide(not leak, R, "flush_bytes:advance-before-suspend", "gzindex is advanced between every write to the pending buffer and a suspension",
                      "flush_bytes can suspend after copying part of the field into the pending buffer without having advanced gzindex: "
                      "the next call writes the same bytes again (duplicated header bytes; with small output chunks the header never completes)",
                      where(fb, fb.blocks[leak[0]]["t"].get("line") if leak else None))
        lf = [1 for bi, fp, root, rv, s in fb.field_writes() if fp[-1:] == ("last_flush",) and atoms.cval(rv) == -1]
        ck.decide(bool(lf), R, "flush_bytes:suspend", "last_flush = -1 when output is exhausted", "flush_bytes no longer marks the suspension (last_flush = -1)", where(fb))
    # header CRC bytes: written only with room for both
    ext = []
    for c in fn.live_calls(r"pending::Pending::extend$"):
        a = fn.call_args(c)
        if mir.calls_in(a[1], r"to_le_bytes$") and any(mir.mentions_field(x, "adler") for x in [a[1]]) and "u16" in str(a[1]):
            ext.append(c)
    for c in ext:
        ss = shape.dominating_sigs(fn, c.bb)
        if not any("Hcrc" in s.names for s in ss):
            continue
        def room_edge(b, lab, tb):
            if lab is None or lab[0] == "const":
                return False
            for a2 in fn.edge_atoms(b, lab):
                s = sig.sig(a2, fn)
                if s.rel == "Le" and 2 in s.lo_consts and "Pending::remaining" in s.hi_calls:
                    return True
                if s.kind == "truth" and s.truth is True and any("is_empty" in k for k in s.calls):
                    return True
                # the same test inside a helper that reports through ControlFlow: its Continue result means "pending is empty"
                if a2[0] == "is" and a2[3] and set(a2[2]) == {"Continue"}:
                    e_ = mir.strip_casts(a2[1])
                    if e_[0] == "call" and isinstance(e_[1], str) and _continue_means_empty(P, e_[1]):
                        return True
            return False
        # find the Hcrc arm entry: the block of the switch edge status == Hcrc
        starts = []
        for b in sorted(fn.live):
            for lab, tb in fn.succ[b]:
                if lab is None or lab[0] == "const":
                    continue
                # the test itself, not a named boolean that merely implies it
                for a2 in fn.edge_atoms(b, lab, expand=False):
                    s_ = sig.sig(a2, fn)
                    if s_.rel == "Eq" and "Hcrc" in s_.names and "status" in s_.names:
                        starts.append(tb)
        leak = flow.reaches_avoiding(fn, starts, [c.bb], cut_edges=room_edge) if starts else True
        ck.decide(not leak, R, "deflate:Hcrc-atomic", "header CRC bytes written only after room for both exists",
                  "the two header-CRC bytes can be written without room for both: a split write recomputes them from a changed running CRC", where(fn, c.line))


def _continue_means_empty(P, path):
    """every return of `path` that builds ControlFlow::Continue lies behind the true edge of an `is_empty()` test of the pending
    buffer (the helper spelling of `flush_pending(); if !pending.is_empty() { .. return }`)"""
    h = P.fns.get(path)
    if h is None or not h.live_calls(r"deflate::flush_pending$"):
        return False
    conts = []
    for bi, si, lhs, rv, st in h.assignments():
        if lhs.get("l") == 0 and not lhs.get("p"):
            e = h.rvalue_expr(rv)
            if e[0] == "agg" and "Continue" in str(e[2] if len(e) > 2 else e):
                conts.append(bi)
    if not conts:
        return False
    for b in conts:
        ok = False
        for a in h.dominating_atoms(b):
            s = sig.sig(a, h)
            if s.kind == "truth" and s.truth is True and any("is_empty" in k for k in s.calls):
                ok = True
        if not ok:
            return False
    return True


def header_crc_once(ck, P, R="PAIR/header-crc-once"):
    """flush_bytes can suspend (return Break) with part of a field written; it is then called again with the rest of
    the field (from gzindex).  A running-CRC update from which a suspension exit is still reachable must therefore be
    taken over the bytes actually written so far (the pending buffer), never over the caller's slice - the rest of that
    slice is handed in, and summed, again."""
    fb = P.fn(Z + "deflate::flush_bytes")
    if not ck.anchor("fn flush_bytes", fb):
        return
    ck.use_fn(fb)
    crcs = fb.live_calls(r"crc32::crc32$|crc32::\w+::crc32$|::crc32$")
    if not ck.anchor("crc32 update in flush_bytes", bool(crcs), where(fb)):
        return
    susp = set()
    for bi, si, lhs, rv, st in fb.assignments():
        if lhs.get("l") == 0 and not lhs.get("p"):
            e = fb.rvalue_expr(rv)
            if e[0] == "agg" and str(e[2]) in ("Break", "1") or (e[0] == "agg" and "Break" in str(e)):
                susp.add(bi)
    if not ck.anchor("suspension exit (ControlFlow::Break) in flush_bytes", bool(susp), where(fb)):
        return
    n = 0
    for i, c in enumerate(crcs):
        a = fb.call_args(c)
        data = a[1]
        from_pending = bool(mir.calls_in(data, r"Pending::pending$"))
        can_suspend_after = flow.reaches_avoiding(fb, [c.bb], susp)
        # or: exactly the slice that was just handed to the pending buffer (extend(x); crc(x) in one step)
        paired = False
        for e_ in fb.live_calls(r"pending::Pending::extend$"):
            ea = fb.call_args(e_)
            if len(ea) >= 2 and mir.fmt(mir.strip_casts(ea[1])) == mir.fmt(mir.strip_casts(data)) and e_.bb != c.bb \
                    and fb.dominates(e_.bb, c.bb) and not flow.reaches_avoiding(fb, [e_.bb], susp, cut_blocks={c.bb}):
                paired = True
        n += 1
        ck.decide(from_pending or paired or not can_suspend_after, R, "flush_bytes:crc#%d" % i,
                  "taken over the pending buffer" if from_pending else ("the slice just written" if paired else "no suspension can follow"),
                  "flush_bytes updates the header CRC over %s and can still suspend afterwards: the unwritten rest of the field is passed "
                  "in again on the next call and enters the CRC twice (wrong FHCRC whenever a field is split across calls)"
                  % mir.fmt(data, fb)[:80], where(fb, c.line))
    ck.floor(R, n, 1)


def run(ck):
    P = prog("K1")
    ck.configs.add("K1")
    name_comment_siblings(ck, P)
    # deflateCopy in the middle of a header field continues it at the same offset (round 9)
    from . import c14 as _c14s
    _c14s.copy_identity(ck, P)
    from .. import guards as _gas
    _gas.arm_store_before_suspend(ck, P, fields=("adler", "gzindex"))
    c02.header_capture(ck, P, "GUARD/header-capture")
    done_flag(ck, P)
    fn = P.fn(D)
    regs = decoders.mode_regions(fn, 20) if fn else None
    if fn and regs:
        absent_and_get_header(ck, P, fn, regs)
    flag_bits(ck, P)
    resume_from_gzindex(ck, P)
    header_crc_once(ck, P)
    # header handling decides as the reference does
    from .. import condparity as _cp
    ck.floor("SIB/ref-conditions", _cp.check(ck, P, "SIB/ref-conditions", only={"inflate.c:inflate", "deflate.c:deflate", "deflate.c:deflateSetHeader", "inflate.c:inflateGetHeader"}), 80)
    ck.assumptions += ["rustc MIR", "arm regions", "host target; K1"]

# session 5 (round 9, D24)
EXPLANATION = EXPLANATION + " " + (
    "FIELD/copy-identity (shared with C14): deflateCopy keeps the offset into a header field written in part. ORDER/arm-store-before-suspend: `gzindex = 0` of the GZip arm precedes the arm's suspension test.")


def name_comment_siblings(ck, P, R="SIB/name~comment"):
    """the Name and Comment arms of inflate's dispatch are two copies of one routine (consume a zero-terminated field, capture what
    fits): they call the same functions and decide on the same kinds of comparisons; what differs is only which header fields
    (name/name_max vs comment/comm_max) they touch."""
    from .. import decoders
    from collections import Counter
    d = P.fn(decoders.DISPATCH)
    if not ck.anchor("fn dispatch", d):
        return
    regs = decoders.mode_regions(d, 20) or {}
    if not (ck.anchor("arm Name of dispatch", "Name" in regs) and ck.anchor("arm Comment of dispatch", "Comment" in regs)):
        return
    ck.use_fn(d)

    def callees(arm):
        return Counter((c.callee or "?").split("::")[-1] for c in d.live_calls() if c.bb in regs[arm] and not (c.exp or []))
    a, b = callees("Name"), callees("Comment")
    diff = sorted(set(a) ^ set(b))
    ck.decide(not diff, R, "dispatch:callees", "same functions called in both arms (%d)" % len(set(a)),
              "the Name and Comment arms of dispatch no longer call the same functions (%s only in one of them): the two header "
              "strings are consumed or captured differently (e.g. one loses its terminating zero)" % diff, where(d))
    ck.floor(R, len(set(a)), 8)

# session 5 (round 10)
EXPLANATION = EXPLANATION + " " + (
    'SIB/name~comment: the Name and Comment arms of dispatch call the same functions (two copies of one routine).')
