"""C05 — every emitted stream is RFC-conformant and decodable within the announced window."""
from .. import tables, mir, sig, shape, atoms, consts
from ..core import where
from ..ctx import prog, Z

EXPLANATION = (
    "CONST: the encoder's static trees, length/distance code tables, extra-bit tables, code-length order and "
    "descriptor limits equal tables generated from the RFC 1951 text (all 256 lengths and 32768 distances "
    "enumerated). ATOM: zlib header composition constants (CM=8, CINFO shift 4, FLEVEL shift 6, FDICT 0x20 under "
    "strstart!=0, FCHECK mod 31, big-endian), gzip magic 1f 8b 08, little-endian CRC then ISIZE trailer, big-endian "
    "Adler trailer; stored-block LEN/NLEN. GUARD: every match search (longest_match*, compare256 in quick) is "
    "control-dependent on dist <= max_dist() and dist > 0, and max_dist() = w_size - MIN_LOOKAHEAD. "
    "Does not decide dynamic Huffman construction, final-block flag uniqueness or window-relative distances after slides. "
    "PAIR/header-crc-once (shared with C20): in flush_bytes a running-CRC update from which a suspension is still reachable is taken over the pending buffer, so every gzip header byte enters FHCRC exactly once. "
    "ATOM/stored-final-block (see C01). SIB/ref-conditions: the elementary conditions and calls of the zlib-ng functions this code was ported from (oracles/condparity.json, frozen from the vendored C sources) keep a counterpart in the paired zlib-rs function.")

CLAIM = dict(
    text="Static: exhaustive const-table comparison with RFC 1951 (compiler const evaluation), header/trailer constant "
         "and byte-order atoms, and a control-dependence guard that every match search is bounded by max_dist(). Each is "
         "a necessary condition: a wrong table entry or header constant yields a non-conformant stream for some input; "
         "an unguarded search can emit a distance beyond the announced window.",
    note="Trusted: rustc MIR/const evaluation; oracles/rfc1951.py and the RFC 1950/1952 constants written in the rule; "
         "host target. Dynamic tree construction is not analysed.",
    technique="exhaustive constant-table comparison + control-dependence guard matching over rustc MIR",
)

SEARCH_SITES = [
    (Z + "deflate::algorithm::fast::deflate_fast", r"longest_match::longest_match$", 1),
    (Z + "deflate::algorithm::medium::deflate_medium", r"longest_match::longest_match$", 2),
    (Z + "deflate::algorithm::slow::deflate_slow", r"longest_match::longest_match(_slow)?$", 2),
    (Z + "deflate::algorithm::quick::deflate_quick", r"compare256::compare256_slice$", 1),
]


def max_dist_guard(ck, P):
    n = 0
    for path, rx, floor in SEARCH_SITES:
        fn = P.fn(path)
        if not ck.anchor("fn " + path, fn):
            continue
        ck.use_fn(fn)
        calls = fn.live_calls(rx)
        ck.floor("GUARD/max-dist:%s" % path.split("::")[-1], len(calls), floor)
        for i, c in enumerate(calls):
            ss = shape.dominating_sigs(fn, c.bb)
            # dist = strstart - hash_head (a single-assignment local, so it appears expanded)
            upper = [s for s in ss if (s.rel == "Le" and "State::max_dist" in s.hi_calls and "strstart" in s.lo_names)
                     or (s.rel == "range" and "State::max_dist" in _range_hi_calls(s, fn) and "strstart" in s.names)]
            lower = [s for s in ss if (s.rel == "Le" and "strstart" in s.hi_names and 1 in s.lo_consts and "Sub" in s.ops)
                     or (s.rel == "range" and s.lo == 1 and "strstart" in s.names)]
            inst = "%s#%d" % (path.replace(Z, ""), i)
            ck.decide(bool(upper), "GUARD/max-dist", inst + ":upper", "search guarded by dist <= max_dist()",
                      "match search is not control-dependent on `dist <= max_dist()`: a match further back than the announced "
                      "window minus MIN_LOOKAHEAD can be emitted; guards: %s" % "; ".join(mir.atom_str(s.atom, fn)[:70] for s in ss[:5]),
                      where(fn, c.line))
            ck.decide(bool(lower), "GUARD/max-dist", inst + ":lower", "search guarded by dist > 0",
                      "match search is not control-dependent on `dist > 0`", where(fn, c.line))
            n += 1
            ck.call_sites += 1
    md = P.fn(Z + "deflate::State::max_dist")
    if ck.anchor("fn State::max_dist", md):
        e = md.local_expr(0)
        ok = e[0] == "bin" and e[1] == "Sub" and mir.mentions_field(e[2], "w_size") and mir.mentions_const(e[3], defname="MIN_LOOKAHEAD")
        ck.decide(ok, "GUARD/max-dist", "State::max_dist", "w_size - MIN_LOOKAHEAD", "max_dist() is no longer w_size - MIN_LOOKAHEAD: %s" % mir.fmt(e, md), where(md))
    lm = P.one_fn(r"deflate::longest_match::longest_match_help$")
    if ck.anchor("fn longest_match impl", lm):
        ok = bool(lm.live_calls(r"State::max_dist$"))
        ck.decide(ok, "GUARD/max-dist", "longest_match:limit", "chain walk limit derived from max_dist()",
                  "longest_match no longer derives its chain limit from max_dist()", where(lm))
    return n


def _range_hi_calls(s, fn):
    a = s.atom
    return {sig._short(c[1]) for c in mir.calls_in(a[3])} | {sig._short(c[1]) for c in mir.calls_in(a[2])}


def header_atoms(ck, P):
    hd = P.fn(Z + "deflate::State::header")
    if ck.anchor("fn State::header", hd):
        ck.use_fn(hd)
        cs = shape.fn_int_consts(hd)
        ops = shape.fn_ops(hd)
        need = {8, 4, 6, 31, 0x20}
        ck.decide(need <= cs, "ATOM/zlib-header", "constants", "CM 8, CINFO<<4, FLEVEL<<6, FDICT 0x20, FCHECK 31",
                  "zlib header composition lacks RFC 1950 constant(s) %s" % sorted(need - cs), where(hd))
        ck.decide({"Shl", "BitOr", "Rem"} <= ops, "ATOM/zlib-header", "operators", "shift/or/mod-31 composition",
                  "zlib header is no longer composed with shifts, or and a mod-31 fix-up (ops %s)" % sorted(ops), where(hd))
        # FDICT under strstart != 0
        sws = [b for b in hd.live if hd.blocks[b]["t"]["k"] == "switch" and mir.mentions_field(hd.operand_expr(hd.blocks[b]["t"]["discr"]), "strstart")]
        ck.decide(bool(sws), "ATOM/zlib-header", "fdict-condition", "FDICT selected by strstart",
                  "FDICT is not selected by `strstart != 0`", where(hd))
        ck.decide(bool(hd.live_calls(r"State::w_bits$")) and bool(hd.live_calls(r"State::level_flags$")), "ATOM/zlib-header", "fields",
                  "uses w_bits() and level_flags()", "header does not use w_bits()/level_flags()", where(hd))
    df = P.fn(Z + "deflate::deflate")
    if ck.anchor("fn deflate::deflate", df):
        ck.use_fn(df)
        arrays = [v for c, v, e in shape.const_array_args(df, r"pending::Pending::extend$")]
        ck.decide([31, 139, 8] in arrays, "ATOM/gzip-header", "magic", "1f 8b 08",
                  "gzip header does not start with ID1 ID2 CM = 31 139 8 (found constant arrays %s)" % arrays[:4], where(df))
        be = df.live_calls(r"core::num::to_be_bytes$")
        le = df.live_calls(r"core::num::to_le_bytes$")
        ck.decide(len(be) >= 3, "ATOM/zlib-header", "byte-order", "header, DICTID and Adler trailer big-endian",
                  "fewer than three big-endian conversions in deflate(): zlib header/DICTID/trailer byte order changed", where(df))
        ck.decide(len(le) >= 4, "ATOM/gzip-header", "byte-order", "MTIME, XLEN, CRC32, ISIZE little-endian",
                  "fewer than four little-endian conversions in deflate(): gzip field byte order changed", where(df))
        # trailer under wrap == 2: crc then total_in
        tr = [c for c in le if any(mir.mentions_field(a, "total_in") for a in df.call_args(c))]
        ck.decide(bool(tr), "ATOM/gzip-trailer", "isize", "ISIZE = total_in as u32, little-endian",
                  "gzip trailer no longer writes total_in (ISIZE) little-endian", where(df))
        trc = [c for c in le if any(mir.mentions_field(a, "adler") for a in df.call_args(c))]
        ck.decide(bool(trc), "ATOM/gzip-trailer", "crc", "CRC32 little-endian", "gzip trailer no longer writes the CRC little-endian", where(df))
        if tr and trc:
            ck.decide(any(df.dominates(c.bb, tr[0].bb) for c in trc), "ATOM/gzip-trailer", "order", "CRC32 before ISIZE",
                      "gzip trailer writes ISIZE before CRC32", where(df))
        # XFL
        cs = shape.fn_int_consts(df)
        ck.decide({2, 4, 9} <= cs, "ATOM/gzip-header", "xfl", "XFL 2 for level 9, 4 for fastest", "XFL constants missing", where(df))
    sb = P.fn(Z + "deflate::zng_tr_stored_block")
    if ck.anchor("fn zng_tr_stored_block", sb):
        ck.use_fn(sb)
        le = sb.live_calls(r"to_le_bytes$")
        nots = [1 for c in le for a in sb.call_args(c) if any(x[0] == "un" and x[1] == "Not" for x in mir.walk(a))]
        ck.decide(len(le) >= 2 and nots, "ATOM/stored-block", "len-nlen", "LEN and !LEN little-endian",
                  "stored block header does not write LEN and its one's complement little-endian", where(sb))
        al = sb.live_calls(r"BitWriter::emit_align$")
        tr = sb.live_calls(r"BitWriter::emit_tree$")
        ok = bool(al) and bool(tr) and bool(le) and sb.dominates(tr[0].bb, al[0].bb) and sb.dominates(al[0].bb, le[0].bb)
        ck.decide(ok, "ATOM/stored-block", "order", "block header, align, LEN/NLEN", "stored block is not header -> byte align -> LEN/NLEN", where(sb))
    st = P.fn(Z + "deflate::BitWriter::send_tree")
    if ck.anchor("fn BitWriter::send_tree", st):
        ck.use_fn(st)
        widths = set()
        for c in st.live_calls(r"BitWriter::send_bits$"):
            a = st.call_args(c)
            v = atoms.cval(a[2]) if len(a) > 2 else None
            if v is not None:
                widths.add(v)
        ck.decide({2, 3, 7} <= widths, "ATOM/send-tree", "repeat-widths", "repeat counts sent in 2/3/7 bits",
                  "send_tree does not send repeat counts with 2, 3 and 7 extra bits (found %s)" % sorted(widths), where(st))
        named = shape.fn_named_consts(st)
        ck.decide({"REP_3_6", "REPZ_3_10", "REPZ_11_138"} <= named, "ATOM/send-tree", "repeat-symbols", "16/17/18",
                  "send_tree does not use all three repeat symbols (found %s)" % sorted(named), where(st))


def stored_final_block(ck, P, R="ATOM/stored-final-block"):
    """A stored block may carry the final-block flag only if it takes everything that is still buffered: in
    deflate_stored every way the `last` argument of zng_tr_stored_block becomes true requires flush == Finish and an
    equality between the block length and the bytes left (strstart - block_start, plus avail_in on the direct path).
    Without the equality a block that is cut short by the pending buffer / output space ends the stream early."""
    fn = P.fn(Z + "deflate::algorithm::stored::deflate_stored")
    if not ck.anchor("fn deflate_stored", fn):
        return
    ck.use_fn(fn)
    calls = fn.live_calls(r"deflate::zng_tr_stored_block$")
    if not ck.anchor("zng_tr_stored_block calls in deflate_stored", len(calls) >= 2, where(fn)):
        return
    lasts = [i for i, lc in enumerate(fn.locals) if lc.get("name") == "last" and lc.get("ty") == "bool"]
    if not ck.anchor("local `last` of deflate_stored", len(lasts) == 1, where(fn)):
        return
    last = lasts[0]

    def mentions_left(e):
        return mir.mentions_field(e, "strstart") and mir.mentions_field(e, "block_start")

    def sources(loc, depth=0):
        """(block, expr) of every non-false value that can reach local `loc`"""
        out = []
        for bi, si, rv in fn.defs.get(loc, []):
            if bi not in fn.live or rv is None or si == "call":
                continue
            if rv.get("k") == "use" and rv["a"].get("k") in ("copy", "move") and not rv["a"].get("p") and depth < 4:
                out += sources(rv["a"]["l"], depth + 1)
                continue
            e = fn.rvalue_expr(rv)
            if fn.const_of(e) == 0:
                continue
            out.append((bi, e))
        return out

    n = 0
    for i, (bi, e) in enumerate(sources(last)):
        n += 1
        conj = list(fn.dominating_atoms(bi))
        es = mir.strip_casts(e)
        finish = any("Finish" in sig.sig(a, fn).names and sig.sig(a, fn).rel in ("Eq", "true") for a in conj) or "Finish" in mir.fmt(es, fn)
        eq_left = (es[0] == "bin" and es[1] == "Eq" and (mentions_left(es[2]) or mentions_left(es[3]))) or \
            any(a[0] == "cmp" and a[1] == "Eq" and (mentions_left(a[2]) or mentions_left(a[3])) for a in conj)
        ck.decide(finish and eq_left, R, "deflate_stored:last#%d" % i,
                  "true only with flush == Finish and length == bytes left",
                  "deflate_stored can flag a stored block as the final block without %s: a block shortened by the pending buffer or "
                  "the output space then ends the stream and the rest of the buffered input is dropped"
                  % ("the flush == Finish test" if not finish else "comparing its length with the bytes still buffered (strstart - block_start)"),
                  where(fn, fn.blocks[bi]["s"][0].get("line") if fn.blocks[bi]["s"] else None))
    ck.floor(R, n, 2)


def run(ck):
    P = prog("K1")
    ck.configs.add("K1")
    # round 10: a stream continued on a copy stays well-formed: the copy has the source's bit buffer
    from . import c14 as _c14c
    _c14c.copy_identity(ck, P)
    from .. import guards as _gas
    _gas.arm_store_before_suspend(ck, P, fields=("adler", "gzindex"))
    # the gzip trailer is the CRC of all the data: the portable fallback of Crc32Fold::fold continues the running value (round 9)
    from . import c09 as _c09s
    _c09s.crc_start_flow(ck, P)
    _c09s.start_value_uses(ck, P)
    n = tables.encoder_tables(ck, P, "CONST/enc-rfc")
    ck.extra["table_entries_compared"] = n
    ck.extra["exhaustive"] = True
    header_atoms(ck, P)
    max_dist_guard(ck, P)
    stored_final_block(ck, P)
    from .. import condparity
    ck.floor("SIB/ref-conditions", condparity.check(ck, P, "SIB/ref-conditions", only={"trees.c:send_all_trees", "trees.c:compress_block", "trees.c:init_block", "trees.c:zng_tr_stored_block", "trees.c:gen_codes", "trees.c:pqdownheap", "match_tpl.h:LONGEST_MATCH", "deflate_stored.c:deflate_stored", "deflate.c:deflate", "trees.c:zng_tr_flush_block", "trees.c:gen_bitlen", "trees.c:build_tree", "trees.c:scan_tree", "trees.c:build_bl_tree"}), 60)
    # the zlib trailer is the Adler-32 of the data: the kernels that compute it keep their deferred-modulo stride within NMAX
    # and reduce both halves at the end
    from . import c09 as _c09
    ck.floor("ATOM/adler-stride:K1", _c09.adler_kernels(ck, P, "K1"), 2)
    _c09.adler_final_reduction(ck, P)
    # FDICT / DICTID of the zlib header
    from . import c13 as _c13
    _c13.deflate_set_dictionary(ck, P)
    # the gzip header CRC is part of the wrapper: each header byte enters it exactly once
    from . import c20
    c20.header_crc_once(ck, P)
    ck.assumptions += ["rustc MIR and const evaluation", "oracles/rfc1951.py transcribes RFC 1951", "host target only"]

# session 5 (round 9, D24)
EXPLANATION = EXPLANATION + " " + (
    'ORDER/arm-store-before-suspend: in deflate(), a constant store of a header arm (`adler = 1`, `gzindex = 0`) is not behind a branch, taken after the arm stored its new status, whose other side returns. FLOW/crc-start (shared with C09): the portable fallback of Crc32Fold::fold continues the running value.')

# session 5 (round 10)
EXPLANATION = EXPLANATION + " " + (
    "FIELD/copy-identity (shared with C14): a stream continued on a deflateCopy stays well-formed because the copy has the source's bit buffer.")
