"""C15 — stream cursors, counters and one-shot lengths account exactly for bytes moved."""
from .. import mir, sig, shape, atoms, coup, flow
from ..core import where
from ..ctx import prog, Z, SYS

EXPLANATION = (
    "COUP: in every function of zlib-rs that adjusts (read-modify-write) a member of {next_out, avail_out, total_out} or "
    "{next_in, avail_in, total_in}, all three members are adjusted, with the pointer and total increasing and the avail counter "
    "decreasing by the same expression (flush_pending, read_buf_window, read_buf_direct_copy on both groups, deflate_stored's "
    "window-to-output copy, inflate::sync). Listed exceptions with reasons: inflate()'s epilogue assigns the members from the "
    "bit reader / writer (checked as ATOMs: avail_in = bytes_remaining(), next_in = as_ptr(), total_in += as_ptr() - old next_in, "
    "avail_out = capacity - len, next_out = writer.next_out(), total_out = total + out_written); the Rust wrappers derive totals "
    "from pointer differences around the single core call; the gz layer tops up avail_in. ATOM: uncompress2 reports "
    "len + avail_in as the unconsumed rest and maps BufError with space left to DataError; compress_with_flush's result length is "
    "total_out; one-shot drivers top up avail_* from their own remaining counters with min(left, u32::MAX); return_unused_bytes "
    "shape. That the amounts equal the bytes actually moved, and absence of underflow, are not decided. "
    "COUP/dup-total: inflate() publishes state.total as total_out, so any other inflate-module function that stores a value in total_out stores the same value in state.total (fired on inflateSync: D11, fixed). PAIR/total-compensation: after the Check arm's early `total += writer.len()` every path leaving the arm re-bases out_available to capacity - len. "
    "PAIR/avoid-buferror: every successful return of deflate() after `avail_out == 0` stored last_flush = -1; four such places as in zlib. SIB/ref-conditions: the elementary conditions and calls of the zlib-ng functions this code was ported from (oracles/condparity.json, frozen from the vendored C sources) keep a counterpart in the paired zlib-rs function.")

CLAIM = dict(
    text="Static co-update rule over MIR field writes: cursor/counter triples move together, by one expression, with the "
         "right signs, in every function that adjusts any of them; plus expression-shape atoms for the places that assign "
         "rather than adjust. A necessary condition of exact accounting for every call and schedule. "
         "Also: total_out and its duplicate state.total are stored together (fired on inflateSync, D11, fixed) and the Check arm's early count is compensated on every exit.",
    note="Trusted: rustc MIR; the exception table in rules/props/c15.py; single-assignment expansion means `x = f(); .. x` is "
         "compared by its defining expression, not its value at use.",
    technique="co-update (def-use) analysis of cursor/counter triples over rustc MIR",
)

EXCEPTIONS = {
    Z + "inflate::inflate": "epilogue assigns the members from bit_reader/writer (ATOM rules below)",
    Z + "stable::Deflate::compress_uninit": "wrapper totals are pointer differences around the single core call",
    Z + "stable::Inflate::decompress_uninit": "wrapper totals are pointer differences around the single core call",
    SYS + "gz::gz_avail": "gz layer refills strm.avail_in from the file buffer (C17)",
    SYS + "gz::gz_write": "gz layer accounts strm.avail_in for bytes appended to its input buffer (C17)",
}
EXPECTED_SITES = {
    Z + "deflate::flush_pending": {"out"},
    Z + "deflate::read_buf_window": {"in"},
    Z + "deflate::algorithm::stored::read_buf_direct_copy": {"in", "out"},
    Z + "deflate::algorithm::stored::deflate_stored": {"out"},
    Z + "inflate::sync": {"in"},
}


def coupdate(ck, P):
    R = "COUP/cursor-triple"
    seen = {}
    for f in sorted(P.fns.values(), key=lambda x: x.path):
        adj = coup.adjustments(f)
        if not adj:
            continue
        if f.path in EXCEPTIONS:
            ck.ok(R, f.path.replace(Z, "") + ":listed", EXCEPTIONS[f.path])
            continue
        ck.use_fn(f)
        for gname, members in coup.GROUPS.items():
            touched = [m for m in members if m in adj]
            if not touched:
                continue
            seen.setdefault(f.path, set()).add(gname)
            inst = "%s:%s" % (f.path.replace(Z, "").replace(SYS, ""), gname)
            missing = [m for m in members if m not in adj]
            if missing:
                ck.bad(R, inst, "%s adjusts %s but not %s: the cursor, the remaining-space counter and the running total go out of step"
                       % (f.path, touched, missing), where(f, adj[touched[0]][0][3]))
                continue
            # same delta, right signs; compare the first adjustment of each member (functions adjust once per group
            # or in matching multiplicity)
            counts = {m: len(adj[m]) for m in members}
            if len(set(counts.values())) != 1:
                ck.bad(R, inst, "%s adjusts the members of the group a different number of times: %s" % (f.path, counts), where(f, adj[touched[0]][0][3]))
                continue
            okk = True
            detail = ""
            for i in range(counts[members[0]]):
                deltas = {m: adj[m][i] for m in members}
                d0 = deltas[members[0]][1]
                for m in members:
                    sgn, d, bb, ln = deltas[m]
                    if sgn != coup.SIGN[m]:
                        okk = False
                        detail = "%s moves in the wrong direction (line %s)" % (m, ln)
                    if d != d0:
                        okk = False
                        detail = "%s is adjusted by `%s` but %s by `%s`" % (m, mir.fmt(d, f)[:70], members[0], mir.fmt(d0, f)[:70])
            ck.decide(okk, R, inst, "all three adjusted by the same expression with the right signs", "%s: %s" % (f.path, detail), where(f, adj[members[0]][0][3]))
            # ... and on the same paths: no return is reachable with one member moved and another not
            rets = [b for b, k in f.exits() if k == "return"]
            wblocks = {m: {x[2] for x in adj[m]} for m in members}
            split = []
            for m1 in members:
                for m2 in members:
                    if m1 == m2:
                        continue
                    for b1 in wblocks[m1]:
                        before = flow.reaches_avoiding(f, [0], [b1], cut_blocks=wblocks[m2] - {b1}) or b1 == 0
                        after = flow.reaches_avoiding(f, [b1], rets, cut_blocks=wblocks[m2] - {b1})
                        if before and after and b1 not in wblocks[m2]:
                            split.append((m1, m2))
            ck.decide(not split, R, inst + ":same-paths", "the members are adjusted on the same paths",
                      "%s can return with %s adjusted but %s not (an early return between the two updates): the cursor and its counters go "
                      "out of step on that path" % (f.path, split[0][0] if split else "", split[0][1] if split else ""), where(f, adj[members[0]][0][3]))
            ck.sample("%s: %s += %s" % (f.path.split("::")[-1], gname, mir.fmt(adj[members[0]][0][1], f)[:60]))
    for path, groups in EXPECTED_SITES.items():
        got = seen.get(path, set())
        ck.decide(groups <= got, "COUP/sites", path.replace(Z, ""), "adjusts groups %s" % sorted(groups),
                  "%s no longer adjusts the %s cursor group(s) at all (found %s): bytes it moves are not accounted" % (path, sorted(groups - got), sorted(got)))


def inflate_epilogue(ck, P):
    R = "ATOM/inflate-epilogue"
    fn = P.fn(Z + "inflate::inflate")
    if not ck.anchor("fn inflate::inflate", fn):
        return
    ck.use_fn(fn)
    w = {}
    for bi, fp, root, rv, s in fn.field_writes():
        if len(fp) == 1 and fp[0] in coup.SIGN:
            w.setdefault(fp[0], []).append(rv)

    def has(field, pred):
        return any(pred(e) for e in w.get(field, []))

    ck.decide(has("avail_in", lambda e: bool(mir.calls_in(e, r"BitReader::bytes_remaining$"))), R, "avail_in", "= bit_reader.bytes_remaining()", "avail_in is not taken from the bit reader", where(fn))
    ck.decide(has("next_in", lambda e: bool(mir.calls_in(e, r"BitReader::as_ptr$"))), R, "next_in", "= bit_reader.as_ptr()", "next_in is not taken from the bit reader", where(fn))
    ck.decide(has("total_in", lambda e: bool(mir.calls_in(e, r"BitReader::as_ptr$")) and mir.mentions_field(e, "next_in") and any(x[0] == "bin" and x[1].startswith("Sub") for x in mir.walk(e))),
              R, "total_in", "+= as_ptr() - old next_in", "total_in is not advanced by the pointer difference", where(fn))
    def room(e):
        # capacity - len, or the Writer method that is exactly that difference
        return (bool(mir.calls_in(e, r"Writer::capacity$")) and bool(mir.calls_in(e, r"Writer::len$"))) or bool(mir.calls_in(e, r"Writer::remaining$"))
    ck.decide(has("avail_out", room), R, "avail_out", "= capacity - len", "avail_out is not capacity - len", where(fn))
    ck.decide(has("next_out", lambda e: bool(mir.calls_in(e, r"Writer::next_out$"))), R, "next_out", "= writer.next_out()", "next_out is not taken from the writer", where(fn))
    ck.decide(has("total_out", lambda e: mir.mentions_field(e, "total")), R, "total_out", "= state.total", "total_out is not derived from state.total", where(fn))
    tot = [rv for bi, fp, root, rv, s in fn.field_writes() if fp[-1:] == ("total",)]
    ck.decide(any(mir.mentions_field(e, "out_available") and (mir.calls_in(e, r"Writer::len$") or mir.calls_in(e, r"Writer::remaining$")) for e in tot), R, "state.total", "+= out_written = out_available - (capacity - len)",
              "state.total is not advanced by this call's output", where(fn))
    # order: next_in is read for total_in before it is overwritten
    ti = [bi for bi, fp, root, rv, s in fn.field_writes() if fp == ("total_in",)]
    ni = [bi for bi, fp, root, rv, s in fn.field_writes() if fp == ("next_in",)]
    if ti and ni:
        ck.decide(fn.dominates(ti[0], ni[0]) and ti[0] != ni[0] or ti[0] < ni[0], R, "order", "total_in updated before next_in is overwritten",
                  "next_in is overwritten before total_in is computed from it", where(fn))


def epilogue_all_paths(ck, P, fields=("avail_in", "next_in", "total_in", "avail_out", "next_out", "total_out", "adler"), R="CUT/inflate-epilogue"):
    """What inflate() reports back in the z_stream is reported after every call: each of these fields is stored on every path from
    the return of State::dispatch to the return of inflate() - not only when a check value is being maintained, a header is
    being parsed, or the call made progress.  (zlib stores strm->adler in the DICTID state itself; zlib-rs has only this place.)"""
    fn = P.fn(Z + "inflate::inflate")
    if not ck.anchor("fn inflate::inflate", fn):
        return
    ck.use_fn(fn)
    disp = fn.live_calls(r"inflate::State::dispatch$")
    if not ck.anchor("dispatch call in inflate()", len(disp) == 1):
        return
    start = disp[0].target
    rets = [b for b in fn.live if fn.blocks[b]["t"]["k"] == "return"]
    for fld in fields:
        stores = {bi for bi, fp, root, rv, st in fn.field_writes() if fp == (fld,) and bi in fn.live}
        ok = bool(stores) and (start in stores or not flow.reaches_avoiding(fn, [start], rets, cut_blocks=stores))
        ck.decide(ok, R, fld, "stored on every path after dispatch",
                  "inflate() can return without storing strm.%s (the store is conditional or missing on some path after dispatch): the caller "
                  "reads a stale value - for adler, the dictionary id announced with Z_NEED_DICT" % fld, where(fn))


def dup_total(ck, P):
    """inflate() publishes `state.total` as `stream.total_out` on every call (ATOM/inflate-epilogue:total_out), so the two are
    copies of one quantity.  Any other function of the inflate module that gives total_out a value must give state.total
    the same value on that path, or the next inflate() call overwrites what it stored."""
    R = "COUP/dup-total"
    n = 0
    for f in sorted(P.fns.values(), key=lambda f: f.path):
        if not f.path.startswith(Z + "inflate::") or f.is_promoted or f.path == Z + "inflate::inflate":
            continue
        tout = [(bi, rv, st) for bi, fp, root, rv, st in f.field_writes() if fp == ("total_out",)]
        if not tout:
            continue
        ck.use_fn(f)
        tot = [(bi, rv) for bi, fp, root, rv, st in f.field_writes() if fp[-1:] == ("total",) and "state" in fp]
        # helpers that write state.total on every path (reset_keep through reset)
        for i, (bi, rv, st) in enumerate(tout):
            n += 1
            v = f.const_of(rv)
            # every path from this write to a return passes a write of state.total with the same value
            same = {b for b, e in tot if (f.const_of(e) == v if v is not None else mir.fmt(mir.strip_casts(e)) == mir.fmt(mir.strip_casts(rv)))}
            rets = [b for b, k in f.exits() if k == "return"]
            ok = bool(same) and not flow.reaches_avoiding(f, [bi], rets, cut_blocks=same - {bi}) or (bi in same)
            # the same block may hold both writes
            ok = ok or any(b == bi for b in same)
            ck.decide(ok, R, "%s:total_out#%d" % (f.path.replace(Z, ""), i), "state.total receives the same value",
                      "%s stores %s in total_out but leaves state.total as it is: the next inflate() call assigns total_out = state.total and "
                      "the stored value is lost (totals no longer equal the sums over all calls)"
                      % (f.path.replace(Z, ""), mir.fmt(rv, f)[:60]), where(f, st.get("line") if isinstance(st, dict) else None))
    ck.floor(R, n, 2)


def total_compensation(ck, P):
    """Inside dispatch the Check arm counts the output of the current call early (`total += writer.len()`, the trailer
    needs the final count).  inflate() afterwards adds `out_available - (capacity - len)`; so on every path that leaves
    the arm - including the bad-check exit - out_available has to be re-based to `capacity - len`, or the same bytes are
    counted twice in total_out."""
    R = "PAIR/total-compensation"
    from .. import decoders
    fn = P.fn(decoders.DISPATCH)
    if not ck.anchor("fn dispatch", fn):
        return
    ck.use_fn(fn)
    early = [bi for bi, fp, root, rv, st in fn.field_writes() if fp[-1:] == ("total",) and mir.calls_in(rv, r"Writer::len$")]
    if not ck.anchor("early count `total += writer.len()` in dispatch", bool(early), where(fn)):
        return
    rebase = {bi for bi, fp, root, rv, st in fn.field_writes() if fp[-1:] == ("out_available",)
              and ((mir.calls_in(rv, r"Writer::capacity$") and mir.calls_in(rv, r"Writer::len$")) or mir.calls_in(rv, r"Writer::remaining$"))}
    sws = fn.enum_switches("inflate::Mode", 20)
    outs = [b for b, k in fn.exits() if k == "return"] + list(sws)
    leak = [b for b in early if not rebase or flow.reaches_avoiding(fn, [b], outs, cut_blocks=rebase - {b})]
    ck.decide(not leak, R, "dispatch:Check", "out_available re-based on every path after the early count",
              "dispatch counts this call's output into `total` (total += writer.len()) and can then leave the arm without re-basing "
              "out_available to capacity - len: inflate() adds the same bytes again (total_out runs ahead of the bytes produced)",
              where(fn, fn.blocks[leak[0]]["t"].get("line") if leak else None))


def one_shot(ck, P):
    R = "ATOM/one-shot"
    u2 = P.fn(Z + "inflate::uncompress2")
    if ck.anchor("fn uncompress2", u2):
        ck.use_fn(u2)
        # consumed = len + avail_in
        okc = False
        for bi, si, lhs, rv, s in u2.assignments():
            e = mir.strip_casts(u2.rvalue_expr(rv))
            if e[0] == "bin" and e[1].startswith("Add") and mir.mentions_field(e, "avail_in"):
                # the other operand is the running count of input not yet handed to the stream: a working local (whatever its name)
                others = [mir.strip_casts(x) for x in (e[2], e[3]) if not mir.mentions_field(x, "avail_in")]
                if "len" in atoms.names_in(e, u2) or any(isinstance(o, tuple) and o and o[0] in ("v", "p") for o in others):
                    okc = True
        ck.decide(okc, R, "uncompress2:rest", "unconsumed = len + avail_in", "uncompress2 no longer reports len + avail_in", where(u2))
        # BufError && left + avail_out != 0 => DataError
        okb = False
        for a, b, tb in atoms.all_atoms(u2):
            s = sig.sig(a, u2)
            if s.rel == "Ne" and 0 in s.consts and "left" in s.names and "Add" in s.ops:
                okb = True
        ck.decide(okb, R, "uncompress2:incomplete", "BufError with output space left is DataError", "uncompress2 lost the `left + avail_out != 0` test", where(u2))
        for fld in ("avail_out", "avail_in"):
            okt = False
            for bi, fp, root, rv, s in u2.field_writes():
                if fp[-1:] == (fld,) and mir.calls_in(rv, r"::min$"):
                    ss = shape.dominating_sigs(u2, bi)
                    if any(x.rel == "Eq" and fld in x.names and 0 in x.consts for x in ss):
                        okt = True
            ck.decide(okt, R, "uncompress2:topup:" + fld, "topped up with min(rest, u32::MAX) when it reaches 0", "uncompress2 no longer tops up %s from its remaining counter" % fld, where(u2))
    cw = P.fn(Z + "deflate::compress_with_flush")
    if ck.anchor("fn compress_with_flush", cw):
        ck.use_fn(cw)
        okl = False
        for c in cw.live_calls(r"slice::raw::from_raw_parts_mut$|from_raw_parts_mut$"):
            a = cw.call_args(c)
            if len(a) == 2 and mir.mentions_field(a[1], "total_out"):
                okl = True
        ck.decide(okl, R, "compress_with_flush:len", "result length = total_out", "compress_with_flush's result length is not total_out", where(cw))
        for fld in ("avail_out", "avail_in"):
            okt = any(fp[-1:] == (fld,) and mir.calls_in(rv, r"::min$") for bi, fp, root, rv, s in cw.field_writes())
            ck.decide(okt, R, "compress_with_flush:topup:" + fld, "topped up with min(rest, u32::MAX)", "compress_with_flush no longer tops up %s" % fld, where(cw))
    for path in (Z + "stable::Inflate::decompress_uninit", Z + "stable::Deflate::compress_uninit"):
        f = P.fn(path)
        if not ck.anchor("fn " + path, f):
            continue
        ck.use_fn(f)
        w = {fp[-1]: rv for bi, fp, root, rv, s in f.field_writes() if fp[-1] in ("total_in", "total_out") and len(fp) == 1}
        for t, ptr in (("total_in", "next_in"), ("total_out", "next_out")):
            e = w.get(t)
            ok = e is not None and mir.mentions_field(e, ptr) and any(x[0] == "bin" and x[1].startswith("Sub") for x in mir.walk(e))
            ck.decide(ok, R, path.replace(Z, "") + ":" + t, "+= pointer difference of " + ptr, "%s does not derive %s from the %s difference" % (path, t, ptr), where(f))
        core_calls = f.live_calls(r"zlib_rs::(inflate::inflate|deflate::deflate)$")
        ck.decide(len(core_calls) == 1, R, path.replace(Z, "") + ":single-call", "exactly one core call between the snapshots", "%d core calls" % len(core_calls), where(f))


def deflate_buferror(ck, P):
    fn = P.fn(Z + "deflate::deflate")
    if not fn:
        return
    # `let err = BufError; stream.msg = ..; return err` materialises the constant once per site (rvalue aggregate)
    n = sum(1 for bi, si, lhs, rv, s in fn.assignments() if rv.get("k") == "agg" and rv.get("variant") == "BufError")
    ck.decide(n == 3, "ATOM/deflate-buferror", "sites", "three BufError sites (no output space, duplicate flush, input after Finish)",
              "deflate() has %d BufError sites, the documented rule has three" % n, where(fn))
    sites = [bi for bi, si, lhs, rv, s in fn.assignments() if rv.get("k") == "agg" and rv.get("variant") == "BufError"]
    found = set()
    for b in sites:
        es, ds = sig.site_guards(fn, b)
        ss = es + ds
        if any(s.rel == "Eq" and "avail_out" in s.names and 0 in s.consts for s in es):
            found.add("no-output-space")
        if any("rank_flush" in " ".join(s.calls) for s in ss):
            found.add("duplicate-flush")
        if any(s.rel == "Ne" and "avail_in" in s.names and 0 in s.consts for s in es) and any("Finish" in s.names or "Finish" in (s.variants or ()) for s in ss):
            found.add("input-after-finish")
    ck.decide(found == {"no-output-space", "duplicate-flush", "input-after-finish"}, "ATOM/deflate-buferror", "conditions", "the three documented conditions",
              "deflate()'s BufError conditions found: %s" % sorted(found), where(fn))


def avoid_spurious_buferror(ck, P):
    """deflate() answers a repeated flush request with Z_BUF_ERROR unless the previous call marked itself as cut short
    by a full output buffer (`last_flush = -1`, zlib: "avoid BUF_ERROR next call").  So wherever deflate() finds the
    output buffer full (`avail_out == 0`) and still returns success, it has stored last_flush = -1 on that path; and the
    number of such places does not drop below the four of zlib's deflate()."""
    R = "PAIR/avoid-buferror"
    fn = P.fn(Z + "deflate::deflate")
    if not ck.anchor("fn deflate::deflate", fn):
        return
    ck.use_fn(fn)
    marks = {bi for bi, fp, root, rv, st in fn.field_writes() if fp[-1:] == ("last_flush",) and fn.const_of(rv) == -1}
    fails = flow.failure_blocks(fn)
    rets = [b for b, k in fn.exits() if k == "return"]
    n = 0
    bad = []
    for b in sorted(fn.live):
        for lab, tb in fn.succ[b]:
            if lab is None or lab[0] == "const":
                continue
            for a in fn.edge_atoms(b, lab):
                s_ = sig.sig(a, fn)
                if s_.rel == "Eq" and "avail_out" in s_.names and 0 in s_.consts and not s_.calls:
                    # the output buffer is full on this edge
                    if tb in fails or any(x in fails for x in fn.reach_from(tb) if False):
                        continue
                    reach = fn.reach_from(tb)
                    if not (set(rets) & reach):
                        continue
                    leak = flow.reaches_avoiding(fn, [tb], rets, cut_blocks=marks | fails)
                    if tb in fails:
                        continue
                    n += 1
                    if leak and tb not in marks:
                        bad.append(fn.blocks[b]["t"].get("line"))
    ck.decide(not bad, R, "deflate:full-output", "last_flush = -1 on every successful return after `avail_out == 0`",
              "deflate() can return success after finding the output buffer full without storing last_flush = -1 (tests near lines %s): "
              "the caller's next call with the same flush is answered with Z_BUF_ERROR although output space is available and the flush "
              "is not complete" % bad[:4], where(fn, bad[0] if bad else None))
    ck.decide(n >= 4, R, "deflate:full-output-sites", "%d places test `avail_out == 0` before a successful return" % n,
              "deflate() tests for a full output buffer before a successful return in only %d places; zlib's deflate() has four (after "
              "flushing pending output, after each of the header fields, after the block function returns need_more, after a flush "
              "marker): one of them has lost its `if avail_out == 0 { last_flush = -1 }`, so a repeated flush request is answered with "
              "Z_BUF_ERROR although the flush is incomplete" % n, where(fn))


TOTAL_WRITERS = {
    # the data movers, the resets, and inflateSync (which restores the totals around its reset)
    Z + "deflate::algorithm::stored::deflate_stored", Z + "deflate::algorithm::stored::read_buf_direct_copy", Z + "deflate::flush_pending",
    Z + "deflate::read_buf_window", Z + "deflate::reset_keep", Z + "inflate::inflate", Z + "inflate::reset_keep", Z + "inflate::sync",
    Z + "stable::Deflate::compress_uninit", Z + "stable::Deflate::reset", Z + "stable::Inflate::decompress_uninit", Z + "stable::Inflate::reset",
}


def total_writers(ck, P, R="WHO/total-writers"):
    """The running totals are sums over the bytes moved: they are stored where bytes move (and where a stream is reset), and
    nowhere else.  Any other function that assigns total_in / total_out (a save-and-restore around a helper, a correction) makes
    the totals differ from the sums for the calls that go through it."""
    n = 0
    for f in sorted(P.fns.values(), key=lambda f: f.path):
        if not (f.path.startswith(Z) or f.path.startswith("libz_rs_sys::")):
            continue
        w = sorted({str(fp[-1]) for bi, fp, root, rv, st in f.field_writes() if fp and len(fp) == 1 and str(fp[-1]) in ("total_in", "total_out") and bi in f.live})
        if not w:
            continue
        n += 1
        ck.decide(f.path in TOTAL_WRITERS, R, f.path.replace(Z, ""), "a data mover or a reset",
                  "%s assigns %s of the z_stream; it is neither one of the functions that move bytes nor a reset: the totals no longer equal "
                  "the sums over the bytes moved" % (f.path.replace(Z, ""), "/".join(w)), where(f))
    ck.floor(R, n, 8)


ONE_SHOT = ("compress", "compress_z", "compress2", "compress2_z", "uncompress", "uncompress_z", "uncompress2", "uncompress2_z")


def out_params(ck, P, R="ATOM/out-param-written"):
    """The one-shot helpers report lengths through pointer parameters (`destLen`, and `sourceLen` of uncompress2): the number of
    bytes produced / consumed.  Each such parameter is either handed on unchanged to the helper that does the work, or stored
    through in this function."""
    n = 0
    for name in ONE_SHOT:
        f = P.fn(SYS + name)
        if not ck.anchor("fn " + name, f):
            continue
        ck.use_fn(f)
        for i, lc in enumerate(f.locals[:1 + f.j.get("arg_count", 8)]):
            nm, ty = lc.get("name"), lc.get("ty", "")
            if not nm or not nm.endswith("Len") or not ty.startswith("*mut"):
                continue
            n += 1
            forwarded = False
            for c in f.live_calls():
                if c.callee and c.callee.startswith(SYS) and c.callee.split("::")[-1] in ONE_SHOT:
                    for a in f.call_args(c):
                        a = mir.strip_casts(a)
                        if a == ("p", i):
                            forwarded = True
            stored = False
            for bi, si, lhs, rv, st in f.assignments():
                if not (lhs and lhs.get("p") and lhs["p"][0] == "*" and bi in f.live):
                    continue
                base = lhs["l"]
                if base == i:
                    stored = True
                for dbi, dsi, drv in f.defs.get(base, []):
                    if drv is None:
                        # defined by a call: look at its arguments
                        for c in f.calls:
                            if c.bb == dbi and any(x == ("p", i) for a in f.call_args(c) for x in mir.walk(a)):
                                stored = True
                        continue
                    if any(x == ("p", i) for x in mir.walk(f.rvalue_expr(drv))):
                        stored = True
            ck.decide(forwarded or stored, R, "%s:%s" % (name, nm), "length reported through the parameter",
                      "%s never stores through `%s` (and does not hand it on to the helper that does): the caller reads back the value it "
                      "passed in instead of the number of bytes moved" % (name, nm), where(f))
    ck.floor(R, n, 9)


def run(ck):
    P = prog("K1")
    ck.configs.add("K1")
    from .. import guards as _gfe
    _gfe.fast_loop_epilogue(ck, P)
    coupdate(ck, P)
    total_writers(ck, P)
    out_params(ck, P)
    inflate_epilogue(ck, P)
    epilogue_all_paths(ck, P)
    dup_total(ck, P)
    total_compensation(ck, P)
    one_shot(ck, P)
    deflate_buferror(ck, P)
    avoid_spurious_buferror(ck, P)
    from .. import condparity
    ck.floor("SIB/ref-conditions", condparity.check(ck, P, "SIB/ref-conditions", only={"deflate.c:flush_pending", "deflate.c:read_buf", "compress.c:compress2", "uncompr.c:uncompress2", "inflate.c:inflate", "deflate_stored.c:deflate_stored", "deflate.c:deflate"}), 50)
    ck.assumptions += ["rustc MIR", "exception table for functions that assign rather than adjust", "host target; K1"]

# session 5 (round 9, D24)
EXPLANATION = EXPLANATION + " " + (
    'CUT/fast-loop-epilogue: every return of a fast decoding loop passes BitReader::return_unused_bytes (whole bytes read ahead go back to the input cursor).')
