"""C03 — decoder accepts exactly the valid streams.  Decided clause: every RFC 1950/1951/1952
rejection exists (live, with the RFC's constants) in every decoder copy that can see the construct;
the decoder's constant tables are the RFC's."""
from .. import tables, decoders
from ..ctx import prog

EXPLANATION = (
    "ATOM: each rejection of the RFC table (message -> guarding atoms with the RFC constants) is present and live, "
    "after pruning constant-false conditions, in every decoder copy listed for it (dispatch, len_and_friends, fast, "
    "back, fast_back); header field extraction widths/offsets (HLIT/HDIST/HCLEN). CONST: LBASE/LEXT/DBASE/DEXT, "
    "LENFIX (512 slots) and DISTFIX (32) equal tables generated independently from the RFC 1951 text; code-length "
    "order. Exhaustive over the finite tables. Does not decide that accepted streams decode to the right bytes.")

CLAIM = dict(
    text="Static: the presence, liveness and guarding conditions (RFC constants, masks, relations) of every required "
         "rejection in every decoder copy are decided over MIR control dependence; decoder tables are compared "
         "exhaustively with RFC 1951 through the compiler's const evaluation. A necessary condition of 'accepts exactly "
         "the valid streams': a missing or weakened validation admits an invalid stream for some input. Decoding "
         "correctness of accepted streams and exact total_in are not decided.",
    note="Trusted: rustc MIR + const evaluator; oracles/rfc1951.py (written from the RFC text); the rejection table in "
         "rules/decoders.py (message -> atom patterns), confirmed by reading both the RFCs and the code.",
    technique="control-dependence atom matching over rustc MIR + exhaustive constant-table comparison with RFC 1951",
)


def run(ck):
    P = prog("K1")
    ck.configs.add("K1")
    n = decoders.check_rejections(ck, P, "ATOM/rejection")
    ck.floor("ATOM/rejection", n, 40)
    decoders.check_table_fields(ck, P, "ATOM/header-fields")
    m = tables.decoder_tables(ck, P, "CONST/dec-rfc")
    ck.extra["table_entries_compared"] = m
    ck.extra["exhaustive"] = True
    ck.assumptions += ["rustc MIR and const evaluation", "oracles/rfc1951.py transcribes RFC 1951 §3.2.2–3.2.7",
                       "INFLATE_STRICT=false reading (zlib's non-strict): distances are checked against available history only"]
