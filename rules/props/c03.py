"""C03 — decoder accepts exactly the valid streams.  Decided clause: every RFC 1950/1951/1952
rejection exists (live, with the RFC's constants) in every decoder copy that can see the construct;
the decoder's constant tables are the RFC's."""
from .. import tables, decoders
from ..ctx import prog, Z

EXPLANATION = (
    "ATOM: each rejection of the RFC table (message -> guarding atoms with the RFC constants) is present and live, "
    "after pruning constant-false conditions, in every decoder copy listed for it (dispatch, len_and_friends, fast, "
    "back, fast_back); header field extraction widths/offsets (HLIT/HDIST/HCLEN). CONST: LBASE/LEXT/DBASE/DEXT, "
    "LENFIX (512 slots) and DISTFIX (32) equal tables generated independently from the RFC 1951 text; code-length "
    "order. Exhaustive over the finite tables. Does not decide that accepted streams decode to the right bytes. "
    "GUARD/fast-bit-budget: the fast loop's conditional refill before the distance decode has the constant threshold 28 (15-bit code + 13 extra bits), so valid streams with second-level distance codes decode.")

CLAIM = dict(
    text="Static: the presence, liveness and guarding conditions (RFC constants, masks, relations) of every required "
         "rejection in every decoder copy are decided over MIR control dependence; decoder tables are compared "
         "exhaustively with RFC 1951 through the compiler's const evaluation. A necessary condition of 'accepts exactly "
         "the valid streams': a missing or weakened validation admits an invalid stream for some input. Decoding "
         "correctness of accepted streams and exact total_in are not decided.",
    note="Trusted: rustc MIR + const evaluator; oracles/rfc1951.py (written from the RFC text); the rejection table in "
         "rules/decoders.py (message -> atom patterns), confirmed by reading both the RFCs and the code.",
    technique="control-dependence atom matching and linear-normal-form comparison of sibling bounds tests over rustc MIR + exhaustive constant-table comparison with RFC 1951",
)


def inflate_table_rules(ck, P):
    """validations inside inflate_table (RFC 1951 §3.2.2: a code-length set must be neither over-subscribed nor
    incomplete, except the single-code distance/length case zlib allows) and its table-space limits"""
    from .. import atoms, sig, mir, shape
    from ..core import where
    R = "ATOM/inflate-table"
    fn = P.fn(decoders.INFTREES)
    if not ck.anchor("fn inflate_table", fn):
        return
    ck.use_fn(fn)
    rets = {}
    for bi, si, lhs, rv, s in fn.assignments():
        if lhs["l"] == 0 and "p" not in lhs and rv.get("k") == "agg":
            rets.setdefault(rv.get("variant"), []).append(bi)
    inv = rets.get("InvalidCode", [])
    ck.decide(len(inv) >= 2, R, "InvalidCode-sites", "over-subscribed and incomplete sets both rejected", "inflate_table has %d InvalidCode results (needs over-subscribed and incomplete)" % len(inv), where(fn))
    over = inc = False
    for b in inv:
        es, ds = sig.site_guards(fn, b)
        for s_ in es + ds:
            if s_.rel in ("is", "isnot") and any("checked_sub" in c for c in s_.calls) and "Shl" in s_.ops:
                over = True      # (left << 1).checked_sub(count) is None
        gs = [g for g, lvl in sig.backward_guards(fn, b, depth=3)]
        if any(g.rel == "Le" and 1 in g.lo_consts and "left" in g.hi_names for g in gs) or any(g.rel == "Ne" and "left" in g.names and 0 in g.consts for g in gs):
            if any(g.rel == "Ne" and "max" in g.names and 1 in g.consts for g in gs) and any("Codes" in (g.variants or ()) or "Codes" in g.names for g in gs):
                inc = True
    ck.decide(over, R, "over-subscribed", "(left << 1).checked_sub(count[len]) failing is InvalidCode", "the over-subscription test of inflate_table is gone", where(fn))
    ck.decide(inc, R, "incomplete", "left > 0 && (Codes || max != 1) is InvalidCode", "the incomplete-set test of inflate_table lost a condition", where(fn))
    en = rets.get("EnoughIsNotEnough", [])
    names = set()
    for b in en:
        for g, lvl in sig.backward_guards(fn, b, depth=2):
            names |= set(g.names)
    if not ({"ENOUGH_LENS", "ENOUGH_DISTS"} <= names):
        # the comparisons may be computed as a boolean value first (a predicate helper, a named condition)
        from .. import condparity
        for s_, toks in condparity.rust_atoms(fn):
            if s_.rel in ("Le", "Lt") and {"ENOUGH_LENS", "ENOUGH_DISTS"} & set(s_.names):
                names |= {"ENOUGH_LENS", "ENOUGH_DISTS"} & set(s_.names)
    ck.decide(len(en) >= 2 and {"ENOUGH_LENS", "ENOUGH_DISTS"} <= names, R, "table-space", "used > ENOUGH_LENS / ENOUGH_DISTS checked before and during sub-table creation",
              "inflate_table's table-space checks against ENOUGH_LENS/ENOUGH_DISTS changed (%d sites, names %s)" % (len(en), sorted(n for n in names if n.startswith("ENOUGH"))), where(fn))
    # the three code kinds use the right base/extra tables and end-of-block threshold
    named = shape.fn_named_consts(fn)
    ck.decide({"LBASE", "LEXT", "DBASE", "DEXT"} <= named, R, "tables", "uses LBASE/LEXT and DBASE/DEXT", "inflate_table no longer references all four base/extra tables", where(fn))
    cs = shape.fn_int_consts(fn)
    ck.decide({257, 20, 0b01100000} <= cs, R, "constants", "match thresholds 257/20, end-of-block op 96", "inflate_table constants changed (257, 20, 96 expected)", where(fn))


def run(ck):
    P = prog("K1")
    ck.configs.add("K1")
    extra_leave_rule(ck, P)
    from .. import linear as _lin
    ck.floor("SIB/same-terms-same-threshold", _lin.same_threshold(ck, P, [f for f in sorted(P.fns.values(), key=lambda f: f.path) if f.path.startswith(Z + "inflate::")]), 1)
    ck.floor("PAIR/second-level-bits", _lin.second_level_bits(ck, P, [f for f in sorted(P.fns.values(), key=lambda f: f.path) if f.path.startswith(Z + "inflate::")]), 3)
    n = decoders.check_rejections(ck, P, "ATOM/rejection")
    ck.floor("ATOM/rejection", n, 40)
    decoders.check_table_fields(ck, P, "ATOM/header-fields")
    # the decoder's decisions are those of the reference
    from .. import condparity as _cp
    ck.floor("SIB/ref-conditions", _cp.check(ck, P, "SIB/ref-conditions", only={"inflate.c:inflate", "inffast_tpl.h:INFLATE_FAST", "inftrees.c:zng_inflate_table"}), 60)
    # every part of the output reaches the check value: a valid gzip stream is not rejected for some chunkings
    from . import c08 as _c08x
    _c08x.extend_siblings(ck, P)
    inflate_table_rules(ck, P)
    # a valid stream may use a 15-bit distance code with 13 extra bits: the fast loops must have (or fetch) 28 bits there
    from . import c02
    c02.fast_refill(ck, P, "GUARD/fast-bit-budget", fns=(c02.FAST,))
    # "successful completion exactly for valid streams": the wrapper trailer has to be verified before stream end, the check value
    # has to cover every output byte, a suspended call must resume where it stopped, and matches must be replicated exactly
    from . import c08 as _c08, c04 as _c04
    _fn, _regs = _c08.mode_graph(ck, P)
    if _fn is not None and _regs:
        _c08.trailer_cut(ck, P, _fn, _regs)
    _c08.checksum_update_guard(ck, P)
    _c04.resume_atomicity(ck, P)
    _c04.handover_after_suspension(ck, P)
    _c04.siblings(ck, P)
    decoders.overlap_safe(ck, P, "WHO/overlap-safe-copy", r"inflate::writer::Writer::copy_match_help$")
    m = tables.decoder_tables(ck, P, "CONST/dec-rfc")
    ck.extra["table_entries_compared"] = m
    ck.extra["exhaustive"] = True
    ck.assumptions += ["rustc MIR and const evaluation", "oracles/rfc1951.py transcribes RFC 1951 §3.2.2–3.2.7",
                       "INFLATE_STRICT=false reading (zlib's non-strict): distances are checked against available history only"]

# session 5 (round 9, D24)
EXPLANATION = EXPLANATION + " " + (
    'SIB/same-terms-same-threshold: ordering decisions of the decoder over the same linear combination of state fields and working locals (`have + copy > nlen + ndist` in every repeat arm of dispatch and back) decide at one threshold, whatever the arrangement of the terms. PAIR/second-level-bits: the bit count of every saved first-level table entry is part of the exit test of its second-level fetch loop.')


def extra_leave_rule(ck, P, R="ATOM/extra-leave"):
    """gzip FEXTRA: `if (state->length) goto inf_leave` - the Extra arm gives up the call only while bytes of the field are still
    missing.  An extra field of length 0 (valid per RFC 1952) and a field that ends exactly at the end of the input both
    continue with the next header part.  Every leave of the Extra arm is decided by `length != 0` on its own."""
    from .. import sig as _sig, decoders as _dec
    from ..core import where
    d = P.fn(_dec.DISPATCH)
    if not ck.anchor("fn dispatch", d):
        return
    regs = _dec.mode_regions(d, 20) or {}
    if not ck.anchor("arm Extra of dispatch", "Extra" in regs):
        return
    ck.use_fn(d)
    n = 0
    for c in d.live_calls(r"State::inflate_leave$"):
        if c.bb not in regs["Extra"]:
            continue
        n += 1
        ok = False
        for a in d.dominating_atoms(c.bb):
            s = _sig.sig(a, d)
            if set(s.names) == {"length"} and not s.calls and 0 in s.consts and s.rel in ("Ne", "Lt", "Le"):
                ok = True
        ck.decide(ok, R, "dispatch:Extra:leave#%d" % n, "left only while length != 0",
                  "the Extra arm of dispatch can leave the call on a condition other than `length != 0` (bytes of the field still "
                  "missing): a gzip member whose extra field has length 0, or ends with the input, is never decoded", where(d, c.line))
    ck.floor(R, n, 1)

# session 5 (round 11)
EXPLANATION = EXPLANATION + " " + (
    'ATOM/extra-leave (round 11): every leave of the Extra arm of dispatch is decided by `length != 0` alone, so an extra field of length 0 is passed over.')
