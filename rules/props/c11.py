"""C11 — flush points make all prior input decodable; full flush is a restart point."""
from .. import mir, sig, shape, atoms, flow, consts
from ..core import where
from ..ctx import prog, Z

EXPLANATION = (
    "CUT in deflate(): in the BlockDone handling, on the SyncFlush and FullFlush targets an empty stored block "
    "zng_tr_stored_block(state, 0..0, false) is emitted, FullFlush additionally clears the hash heads (and, with no lookahead, "
    "strstart/block_start/insert), PartialFlush aligns the bit writer, and every path from there to a return passes flush_pending; "
    "flush_pending starts with flush_bits. SIB over the compress functions stored in CONFIGURATION_TABLE plus huff and rle (obtained "
    "from the static's provenance and algorithm::run): a BlockDone result is reachable only through a block flush "
    "(flush_block_only / quick's end-of-block) or the `sym_buf.is_empty()` true edge (stored: strstart == block_start), a "
    "FinishDone result only through the last-block flush; each flush_block_only is followed by the avail_out == 0 test; "
    "`insert` is written before the epilogue. CUT in deflate_slow: the deferred literal (match_available) is tallied before the "
    "epilogue's flush. ATOM: duplicate-flush suppression in deflate() (avail_in == 0 && rank(flush) <= rank(old) && flush != "
    "Finish) and rank_flush constants. That the emitted prefix actually decodes is not decided. "
    "FullFlush: head.fill(0) on every path through the arm, position reset conditional on lookahead == 0 only. SIB/ref-conditions: the elementary conditions and calls of the zlib-ng functions this code was ported from (oracles/condparity.json, frozen from the vendored C sources) keep a counterpart in the paired zlib-rs function.")

CLAIM = dict(
    text="Static cut-set proofs over MIR that every flush arm emits its marker/aligns/clears history before the pending "
         "buffer is flushed, and that all compress functions (siblings obtained from the function-pointer table) reach "
         "BlockDone/FinishDone only through a block flush. Necessary conditions of 'flush makes prior input decodable'.",
    note="Trusted: rustc MIR; CONFIGURATION_TABLE targets from the compiler-evaluated static; host target.",
    technique="cut-set (must-pass-through) analysis over MIR + sibling agreement of function-table entries",
)

DEF = Z + "deflate::deflate"


def duplicate_flush(ck, P):
    """duplicate-flush suppression of deflate(): BufError under avail_in == 0 && rank(flush) <= rank(old) && flush != Finish, with
    zlib's ranking (Z_BLOCK between NoFlush and PartialFlush)"""
    fn = P.fn(Z + "deflate::deflate")
    if not ck.anchor("fn deflate::deflate", fn):
        return
    ck.use_fn(fn)
    rk = P.fn(Z + "deflate::rank_flush")
    if ck.anchor("fn rank_flush", rk):
        cs = shape.fn_int_consts(rk)
        ck.decide({2, 9, 4} <= cs, "ATOM/rank-flush", "constants", "f*2 - (f > 4 ? 9 : 0)", "rank_flush constants changed: %s" % sorted(cs), where(rk))
    sites = []
    for bi, si, lhs, rv, s in fn.assignments():
        if fn.enum_const(fn.rvalue_expr(rv)) == (Z + "ReturnCode", "BufError"):
            sites.append(bi)
    okd = False
    for b in sites:
        es, ds = sig.site_guards(fn, b)
        ss = es + ds
        if any("rank_flush" in " ".join(s.calls) for s in ss) and any(s.rel == "Eq" and "avail_in" in s.names and 0 in s.consts for s in ss) \
                and any(s.rel == "Ne" and "Finish" in s.names for s in ss):
            okd = True
    ck.decide(okd, "ATOM/duplicate-flush", "deflate", "BufError under avail_in == 0 && rank(flush) <= rank(old) && flush != Finish",
              "the duplicate-flush BufError rule of deflate() lost one of its three conditions", where(fn))


def flush_arms(ck, P):
    R = "CUT/flush-arm"
    fn = P.fn(DEF)
    if not ck.anchor("fn deflate::deflate", fn):
        return
    ck.use_fn(fn)
    sws = fn.enum_switches("DeflateFlush", 5)
    if not ck.anchor("switch on flush in deflate() (BlockDone handling)", len(sws) >= 1, where(fn)):
        return
    # the one that contains zng_tr_stored_block in its regions
    sw = None
    for s in sws:
        regs = fn.arm_regions(s)
        marks = fn.live_calls(r"deflate::zng_tr_stored_block$|deflate::BitWriter::align$")
        if any(c.bb in regs.get(a, ()) for c in marks for a in ("SyncFlush", "FullFlush", "PartialFlush")):
            sw = s
    if not ck.anchor("flush switch with a SyncFlush arm emitting a stored block", sw is not None, where(fn)):
        return
    regs = fn.arm_regions(sw)
    rets = [b for b, k in fn.exits() if k == "return"]
    fps = [c.bb for c in fn.live_calls(r"deflate::flush_pending$")]

    def empty_stored(reg):
        for c in fn.live_calls(r"deflate::zng_tr_stored_block$"):
            if c.bb not in reg:
                continue
            a = fn.call_args(c)
            rng = mir.deref_ref(a[1])
            ok_range = rng[0] == "agg" and [atoms.cval(x) for _, x in rng[3]] == [0, 0]
            ok_last = fn.const_of(a[2]) == 0
            if ok_range and ok_last:
                return c
        return None

    for arm in ("SyncFlush", "FullFlush"):
        reg = regs.get(arm, set())
        c = empty_stored(reg)
        ck.decide(c is not None, R, arm + ":empty-stored-block", "zng_tr_stored_block(state, 0..0, false)",
                  "arm %s of deflate() no longer emits the empty, non-final stored block (00 00 FF FF marker)" % arm, where(fn))
        if c is not None:
            # every path from the arm entry to a return passes the stored-block call, then flush_pending
            entry = [tb for v, tb in fn.blocks[sw]["t"]["targets"] if (fn.prog.variant_name("DeflateFlush", v) or "") == arm]
            starts = [b for b in reg if any(p == sw for p, _ in fn.preds().get(b, []))]
            leak = flow.reaches_avoiding(fn, starts, rets, cut_blocks=[c.bb])
            ck.decide(not leak, R, arm + ":marker-on-all-paths", "no path through the arm skips the marker", "a path through arm %s reaches return without emitting the marker" % arm, where(fn))
            leak2 = flow.reaches_avoiding(fn, [c.target], rets, cut_blocks=fps)
            ck.decide(not leak2, R, arm + ":then-flush_pending", "flush_pending follows on every path", "after the marker of arm %s a return is reachable without flush_pending" % arm, where(fn))
    reg = regs.get("FullFlush", set())
    fills = [c for c in fn.live_calls(r"::fill$") if c.bb in reg and mir.field_path(flow.receiver_root(fn.call_args(c)[0]))[1][-1:] == ("head",)]
    ck.decide(bool(fills), R, "FullFlush:forget-history", "head.fill(0)", "arm FullFlush no longer clears the hash heads: later matches can reference data before the restart point", where(fn))
    if fills:
        starts_ff = [b for b in reg if any(p == sw for p, _ in fn.preds().get(b, []))]
        leak = flow.reaches_avoiding(fn, starts_ff, rets, cut_blocks=[c.bb for c in fills])
        ck.decide(not leak, R, "FullFlush:forget-history:all-paths", "no path through the arm skips head.fill(0)",
                  "a path through arm FullFlush reaches return without clearing the hash heads (the clearing has become conditional): "
                  "after such a full flush later data can still be matched against data before the restart point", where(fn, fills[0].line))
    wr = {fp[-1] for bi, fp, root, rv, s in fn.field_writes() if bi in reg}
    ck.decide({"strstart", "block_start", "insert"} <= wr, R, "FullFlush:position-reset", "strstart/block_start/insert reset when lookahead == 0",
              "arm FullFlush no longer resets strstart/block_start/insert (writes %s)" % sorted(wr), where(fn))
    for bi, fp, root, rv, s in fn.field_writes():
        if bi in reg and fp[-1] == "strstart":
            ss = shape.dominating_sigs(fn, bi, region=reg)
            ck.decide(any(s2.rel == "Eq" and "lookahead" in s2.names and 0 in s2.consts for s2 in ss), R, "FullFlush:position-reset:cond", "only when lookahead == 0",
                      "position reset in FullFlush is not conditional on lookahead == 0", where(fn, s.get("line")))
            extra = [mir.atom_str(s2.atom, fn) for s2 in ss if "lookahead" not in s2.names]
            ck.decide(not extra, R, "FullFlush:position-reset:only-cond", "conditional on lookahead == 0 only",
                      "the position reset of arm FullFlush has an additional condition (%s)" % "; ".join(extra)[:120], where(fn, s.get("line")))
    reg = regs.get("PartialFlush", set())
    al = [c for c in fn.live_calls(r"deflate::BitWriter::align$") if c.bb in reg]
    ck.decide(bool(al), R, "PartialFlush:align", "bit_writer.align()", "arm PartialFlush no longer aligns the bit writer", where(fn))
    fp = P.fn(Z + "deflate::flush_pending")
    if ck.anchor("fn flush_pending", fp):
        ck.use_fn(fp)
        fb = fp.live_calls(r"deflate::BitWriter::flush_bits$")
        cp = fp.live_calls(r"copy_nonoverlapping$")
        ck.decide(bool(fb) and bool(cp) and fp.dominates(fb[0].bb, cp[0].bb), R, "flush_pending:flush_bits-first", "flush_bits before the copy",
                  "flush_pending does not flush whole bytes of the bit buffer before copying", where(fp))
    duplicate_flush(ck, P)


def compress_functions(P):
    """the sibling set: targets of CONFIGURATION_TABLE plus the direct callees of algorithm::run"""
    out = set(P.static_fn_targets(Z + "deflate::algorithm::CONFIGURATION_TABLE"))
    run = P.fn(Z + "deflate::algorithm::run")
    if run:
        for c in run.live_calls(r"deflate::algorithm::\w+::deflate_\w+$"):
            out.add(c.callee)
    return sorted(out)


def block_done_siblings(ck, P):
    R = "SIB/block-done"
    fns = compress_functions(P)
    ck.floor(R + ":functions", len(fns), 7)
    for path in fns:
        fn = P.fn(path)
        if not ck.anchor("fn " + path, fn):
            continue
        ck.use_fn(fn)
        name = path.split("::")[-1]
        done, fin = [], []
        for bi, si, lhs, rv, s in fn.assignments():
            v = fn.enum_const(fn.rvalue_expr(rv))
            if v and v[0].endswith("BlockState"):
                if v[1] == "BlockDone":
                    done.append(bi)
                elif v[1] == "FinishDone":
                    fin.append(bi)
        if not ck.anchor("BlockDone/FinishDone results in " + name, done and fin, where(fn)):
            continue
        flushes = fn.live_calls(r"deflate::flush_block_only$")
        last_flushes = [c for c in flushes if fn.const_of(fn.call_args(c)[1]) == 1]

        def edge_pred_done(b, lab, tb):
            if lab is None or lab[0] == "const":
                return False
            for a in fn.edge_atoms(b, lab):
                s = sig.sig(a, fn)
                if s.kind == "truth" and s.truth is True and "SymBuf::is_empty" in s.calls:
                    return True
                if name == "deflate_stored" and s.rel == "Eq" and {"strstart", "block_start"} <= set(s.names):
                    return True
                if name == "deflate_quick" and "block_open" in s.names and ((s.rel == "Le" and 0 in s.hi_consts) or (s.rel == "Eq" and 0 in s.consts)):
                    return True
            return False

        cut = [c.bb for c in flushes]
        if name == "deflate_quick":
            cut += [c.bb for c in fn.live_calls(r"BitWriter::emit_end_block_and_align$")]
        leak = flow.reaches_avoiding(fn, [0], done, cut_blocks=cut, cut_edges=edge_pred_done)
        ck.decide(not leak, R, name + ":BlockDone", "reached only through a block flush or with an empty symbol buffer",
                  "%s can return BlockDone with symbols still buffered (no flush_block_only and no empty-buffer test on some path): a "
                  "sync/full flush would then not cover all input so far" % name, where(fn))
        # the emptiness test must see every symbol: no tally/emit may follow it
        tallies = {c.bb for c in fn.live_calls(r"State::tally_(lit|dist)$|BitWriter::emit_(lit|dist|dist_static)$")}
        for c in fn.live_calls(r"SymBuf::is_empty$"):
            after = fn.reach_from(c.target) if c.target is not None else set()
            stale = sorted(after & tallies)
            ck.decide(not stale, R, name + ":emptiness-fresh", "sym_buf.is_empty() is evaluated after the last symbol was tallied",
                      "%s evaluates `sym_buf.is_empty()` and then still tallies a symbol (the deferred literal): the decision not to flush is "
                      "taken on stale information and the flush marker is emitted without that symbol" % name, where(fn, c.line))
        if name == "deflate_stored":
            # FinishDone only when the last stored block was written
            okf = all(any(s.kind == "truth" and s.truth is True and "last" in s.names for s in shape.dominating_sigs(fn, b)) for b in fin)
            ck.decide(okf, R, name + ":FinishDone", "only when `last`", "deflate_stored returns FinishDone without having written the last block", where(fn))
        elif name == "deflate_quick":
            cutf = [c.bb for c in fn.live_calls(r"BitWriter::emit_end_block_and_align$")]
            leakf = flow.reaches_avoiding(fn, [0], fin, cut_blocks=cutf, cut_edges=edge_pred_done)
            ck.decide(not leakf, R, name + ":FinishDone", "through quick_end_block", "deflate_quick can return FinishDone without ending the block", where(fn))
        else:
            leakf = flow.reaches_avoiding(fn, [0], fin, cut_blocks=[c.bb for c in last_flushes])
            ck.decide(bool(last_flushes) and not leakf, R, name + ":FinishDone", "only through flush_block_only(stream, true)",
                      "%s can return FinishDone without flushing the last block" % name, where(fn))
        # after every flush_block_only: avail_out == 0 test
        for i, c in enumerate(flushes):
            nxt = c.target
            okk = False
            seen = set()
            cur = nxt
            for _ in range(6):
                t = fn.blocks[cur]["t"]
                if t["k"] == "switch":
                    d = fn.operand_expr(t["discr"])
                    if mir.mentions_field(d, "avail_out"):
                        okk = True
                    break
                su = fn.succ[cur]
                if len(su) != 1:
                    break
                cur = su[0][1]
            if name == "deflate_slow" and not okk:
                # the deferred-literal path tests avail_out after updating positions
                okk = any(mir.mentions_field(fn.operand_expr(fn.blocks[b]["t"]["discr"]), "avail_out")
                          for b in fn.reach_from(nxt) if fn.blocks[b]["t"]["k"] == "switch")
            ck.decide(okk, R, "%s:flush#%d:avail_out-test" % (name, i), "avail_out == 0 tested after the flush",
                      "%s does not test avail_out after a block flush: it continues compressing into a full pending buffer" % name, where(fn, c.line))
        # insert written before the epilogue results
        if name != "deflate_stored":
            wr = {bi for bi, fp, root, rv, s in fn.field_writes() if fp[-1:] == ("insert",)}
            leaki = flow.reaches_avoiding(fn, [0], done + fin, cut_blocks=wr)
            ck.decide(bool(wr) and not leaki, R, name + ":insert", "state.insert set before BlockDone/FinishDone", "%s can finish a block without updating `insert`" % name, where(fn))
    slow = P.fn(Z + "deflate::algorithm::slow::deflate_slow")
    if slow:
        # deferred literal: every path to the epilogue results passes the match_available test
        sw = [b for b in slow.live if slow.blocks[b]["t"]["k"] == "switch" and mir.mentions_field(slow.operand_expr(slow.blocks[b]["t"]["discr"]), "match_available")
              and slow.operand_expr(slow.blocks[b]["t"]["discr"])[0] != "v"]
        tl = [c.bb for c in slow.live_calls(r"State::tally_lit$")]
        res = [bi for bi, si, lhs, rv, s in slow.assignments()
               if (slow.enum_const(slow.rvalue_expr(rv)) or ("", ""))[1] in ("BlockDone", "FinishDone")]
        leak = flow.reaches_avoiding(slow, [0], res, cut_blocks=sw)
        ck.decide(bool(sw) and not leak, "CUT/deferred-literal", "deflate_slow", "match_available tested before the final flush",
                  "deflate_slow can reach its final flush without emitting the deferred literal (match_available not consulted)", where(slow))
        okt = any(any(fn2 in tl for fn2 in slow.reach_from(tb)) for b in sw for lab, tb in slow.succ[b])
        ck.decide(okt, "CUT/deferred-literal", "deflate_slow:tally", "tally_lit on the match_available edge", "the match_available edge no longer tallies the deferred literal", where(slow))


def leftover_flush_continues(ck, P, R="CUT/leftover-flush-continues"):
    """deflate() begins by writing out what the previous call could not deliver.  If the output fills up again it returns;
    otherwise it goes on to the normal processing - in particular to the rest of an interrupted flush (the marker, the
    alignment bits).  So inside the branch taken when output was left over, the only return is the one under
    `avail_out == 0`."""
    f = P.fn(Z + "deflate::deflate")
    if not ck.anchor("fn deflate::deflate", f):
        return
    ck.use_fn(f)
    cands = []
    for b in sorted(f.live):
        if f.blocks[b]["t"]["k"] != "switch":
            continue
        for lab, tb in f.succ[b]:
            if lab is None or lab[0] == "const":
                continue
            for a in f.edge_atoms(b, lab):
                g = sig.sig(a, f)
                if any(c.endswith("is_empty") for c in g.calls) and "pending" in g.names and g.rel == "false":
                    cands.append((len(f.dominators_of(b)), b, tb))
    if not ck.anchor("leftover-output test at the top of deflate()", bool(cands)):
        return
    depth, b0, t0 = sorted(cands)[0]
    region = {x for x in f.live if x == t0 or ("b", t0) in f.dominators_of(x)}
    bad = []
    n = 0
    for bi, si, rv in f.defs.get(0, []):
        if rv is None or bi not in region:
            continue
        n += 1
        gs = shape.dominating_sigs(f, bi)
        if not any(g.rel == "Eq" and "avail_out" in g.names and 0 in g.consts for g in gs):
            line = f.blocks[bi]["s"][si].get("line") if isinstance(si, int) else None
            bad.append(line)
    ck.decide(n >= 1 and not bad, R, "deflate:leftover", "after writing leftover output deflate() returns only when the output is full again",
              "deflate() can return from the leftover-output branch with output space still available (near line %s): a flush that was "
              "interrupted by a full output buffer is then never completed - no marker, bits left in the bit buffer" % (bad[0] if bad else "?"),
              where(f, bad[0] if bad else None))


def run(ck):
    P = prog("K1")
    ck.configs.add("K1")
    # a copy taken at a flush point continues the stream: the copied state is the source's (round 9)
    from . import c14 as _c14s
    _c14s.copy_identity(ck, P)
    flush_arms(ck, P)
    block_done_siblings(ck, P)
    leftover_flush_continues(ck, P)
    from . import c15 as _c15
    _c15.avoid_spurious_buferror(ck, P)
    from .. import condparity
    ck.floor("SIB/ref-conditions", condparity.check(ck, P, "SIB/ref-conditions", only={"deflate_fast.c:deflate_fast", "deflate_slow.c:deflate_slow", "deflate_medium.c:deflate_medium", "deflate_quick.c:deflate_quick", "deflate_rle.c:deflate_rle", "deflate_huff.c:deflate_huff", "deflate.c:deflate", "deflate_stored.c:deflate_stored", "inflate.c:inflateSync"}), 40)
    ck.assumptions += ["rustc MIR; CONFIGURATION_TABLE provenance from the const evaluator", "host target; K1"]

# session 5 (round 9, D24)
EXPLANATION = EXPLANATION + " " + (
    "FIELD/copy-identity (shared with C14): a copy taken at a flush point has the source's bit buffer, bit count and every other state field.")

# session 5 (round 11)
EXPLANATION = EXPLANATION + " " + (
    'Flush-variant pins (round 11): a compress function distinguishes only the flush values its reference distinguishes (Z_NO_FLUSH and Z_FINISH); treating another flush value specially changes what a flush point leaves undecodable.')
