"""C01 — lossless round trip.  Decided clause: the encoder's and the decoder's coding tables
describe the same code (symbol-level round trip), the level table is total, the encoder's symbol
functions read the tables they are specified to read."""
from .. import tables, consts, shape, atoms, mir
from ..core import where
from ..ctx import prog, Z

EXPLANATION = (
    "CONST: decode(encode(x)) = x through both sides' own const-evaluated tables for every match length 3..258, every "
    "distance 1..32768, every static literal/length and distance code (each LENFIX/DISTFIX slot), and the code-length "
    "order of writer vs both readers. CONFIGURATION_TABLE has a compress function for every level init/params admit. "
    "ATOM: encode_len/encode_dist/d_code/tally_dist reference exactly the tables of their side (LENGTH_CODE, BASE_LENGTH, "
    "EXTRA_LBITS / DIST_CODE, BASE_DIST, EXTRA_DBITS) and the d_code index split (256, >>7). Nothing dynamic (window, "
    "hashing, block flushing, params switching) is decided. "
    "SIB/ref-writes: for the compressor core (fill_window, lm_init, lm_set_level and the seven deflate_* block functions) every state field that zlib-ng's function assigns (frozen extract of the vendored C sources) is assigned by the zlib-rs counterpart, by a listed helper call, or by a function that accompanies it in every caller - a dropped rebase/reset of match or cursor state on a window slide breaks the round trip. WHO/overlap-safe-copy: the decoder's copy_match_help uses block copies only under length <= distance. "
    "ATOM/stored-final-block: a stored block is flagged final only with flush == Finish and length == bytes left. SIB/ref-conditions: the elementary conditions and calls of the zlib-ng functions this code was ported from (oracles/condparity.json, frozen from the vendored C sources) keep a counterpart in the paired zlib-rs function.")

CLAIM = dict(
    text="Static: exhaustive enumeration (33k cases) of the symbol-level round trip through the compiler-evaluated "
         "tables of both sides, plus totality of the level table and table-identity of the encoder symbol functions. "
         "A necessary condition of losslessness: a disagreeing entry corrupts every stream that uses that symbol. "
         "Also: write-set parity of the compressor core with the zlib-ng functions it ports (a dropped state update on a window slide breaks the round trip) and the overlap rule of the decoder's match copy.",
    note="Trusted: rustc const evaluation and MIR. The dynamic machinery of compression is outside this clause.",
    technique="exhaustive constant-table agreement (encoder vs decoder) via compiler const evaluation",
)

ENC_FUNCS = {
    Z + "deflate::encode_len": {"LENGTH_CODE", "BASE_LENGTH", "EXTRA_LBITS", "LITERALS"},
    Z + "deflate::encode_dist": {"BASE_DIST", "EXTRA_DBITS"},
    Z + "deflate::State::d_code": {"DIST_CODE"},
    Z + "deflate::State::tally_dist": {"LENGTH_CODE", "LITERALS"},
}
ENC_FORBIDDEN = {
    Z + "deflate::encode_len": {"DIST_CODE", "BASE_DIST", "EXTRA_DBITS"},
    Z + "deflate::encode_dist": {"LENGTH_CODE", "BASE_LENGTH", "EXTRA_LBITS"},
}


def params_flush(ck, P):
    """deflateParams: the compress function that continues the stream is selected by (strategy, level) in
    algorithm::run; a change of either must be preceded by a flush of the current block (Z_BLOCK), because the
    functions keep incompatible per-block state (open static block, deferred literal)."""
    from .. import sig as _sig
    R = "ATOM/params-flush"
    pm = P.fn(Z + "deflate::params")
    run_ = P.fn(Z + "deflate::algorithm::run")
    if not (ck.anchor("fn deflate::params", pm) and ck.anchor("fn algorithm::run", run_)):
        return
    ck.use_fn(pm)
    # what does run dispatch on?
    keys = set()
    for b in run_.live:
        t = run_.blocks[b]["t"]
        if t["k"] == "switch":
            keys |= atoms.names_in(run_.operand_expr(t["discr"]), run_) & {"strategy", "level"}
    for c in run_.live_calls():
        pass
    ck.decide({"strategy", "level"} <= keys, R, "run:dispatch-keys", "algorithm::run selects the compress function by strategy and level",
              "algorithm::run dispatches on %s" % sorted(keys), where(run_))
    fl = [c for c in pm.live_calls(r"zlib_rs::deflate::deflate$")]
    if not ck.anchor("flush (deflate(stream, Block)) in deflate::params", len(fl) == 1, where(pm)):
        return
    a = pm.call_args(fl[0])
    ck.decide(pm.enum_const(a[1]) == (Z + "DeflateFlush", "Block"), R, "params:flush-mode", "flushes with Z_BLOCK", "deflateParams flushes with %s" % mir.fmt(a[1], pm), where(pm, fl[0].line))
    gs = [s for s, lvl in _sig.backward_guards(pm, fl[0].bb, depth=4)]
    has_strategy = any(s.rel == "Ne" and "strategy" in s.names for s in gs)
    has_func = any(s.rel in ("Ne",) and "func" in s.names for s in gs) or any(s.rel == "Ne" and "CONFIGURATION_TABLE" in s.names for s in gs)
    # a guard on a named boolean (`let changed = a || b; if changed && ..`): its definitions are the guards
    for g in list(gs):
        if g.kind == "truth" and isinstance(g.atom[1], tuple) and g.atom[1][0] == "v":
            for bi, si, rv in pm.defs.get(g.atom[1][1], []):
                if rv is None or bi not in pm.live:
                    continue
                for a in mir.bool_atoms(pm, pm.rvalue_expr(rv), True):
                    gs.append(_sig.sig(a, pm))
    has_strategy = has_strategy or any(s.rel == "Ne" and "strategy" in s.names for s in gs)
    has_func = has_func or any(s.rel in ("Ne",) and "func" in s.names for s in gs) or any(s.rel == "Ne" and "CONFIGURATION_TABLE" in s.names for s in gs)
    has_first = any(s.rel == "Ne" and "last_flush" in s.names and -2 in s.consts for s in gs)
    ck.decide(has_strategy, R, "params:strategy-change", "flush when the strategy changes",
              "deflateParams no longer flushes the open block when only the strategy changes: algorithm::run then continues the block with a different "
              "compress function (huff/rle vs table function) whose per-block state is incompatible", where(pm, fl[0].line))
    ck.decide(has_func, R, "params:function-change", "flush when the level's compress function changes",
              "deflateParams no longer flushes when the level change selects a different compress function", where(pm, fl[0].line))
    ck.decide(has_first, R, "params:not-before-first-call", "no flush before the first deflate call (last_flush == -2)", "the last_flush != -2 condition is gone", where(pm, fl[0].line))
    # the new level/strategy are installed only after the flush
    lv = pm.live_calls(r"deflate::lm_set_level$")
    st = [bi for bi, fp, root, rv, s in pm.field_writes() if fp[-1:] == ("strategy",)]
    ok = bool(lv) and bool(st) and all(not pm.dominates(c.bb, fl[0].bb) for c in lv) and all(not pm.dominates(b, fl[0].bb) for b in st)
    ck.decide(ok, R, "params:install-after-flush", "new level/strategy installed after the flush", "deflateParams installs the new level/strategy before flushing the old block", where(pm))


def run(ck):
    P = prog("K1")
    ck.configs.add("K1")
    n = tables.roundtrip(ck, P, "CONST/roundtrip")
    ck.extra["cases_enumerated"] = n
    ck.extra["exhaustive"] = True
    # level table total
    try:
        ct = consts.get(P, Z + "deflate::algorithm::CONFIGURATION_TABLE")
    except consts.ConstError:
        ct = None
        ck.anchor("static CONFIGURATION_TABLE", False)
    if ct is not None:
        funcs = [r["func"].get("ptr", {}).get("fn") if isinstance(r["func"], dict) and r["func"].get("ptr") else None for r in ct]
        for path in (Z + "deflate::init", Z + "deflate::params"):
            fn = P.fn(path)
            if not ck.anchor("fn " + path, fn):
                continue
            ck.use_fn(fn)
            rng = [(v, b) for k, v, b in atoms.bounds_of(fn, "level") if k == "notrange"]
            ok = False
            hi = None
            for (lo, hi_, incl), b in rng:
                hi = hi_ if incl else hi_ - 1
                if lo == 0 and hi is not None and hi < len(ct) and all(funcs[:hi + 1]):
                    ok = True
            ck.decide(ok, "CONST/level-total", path.replace(Z, ""), "levels 0..=%s admitted, table has %d compress functions" % (hi, len(ct)),
                      "the level range admitted by %s (%s) is not covered by CONFIGURATION_TABLE (%d entries, functions %s)"
                      % (path, rng, len(ct), funcs), where(fn))
        ck.sample("CONFIGURATION_TABLE functions: %s" % [f.split("::")[-1] if f else None for f in funcs])
    for path, need in ENC_FUNCS.items():
        fn = P.fn(path)
        if not ck.anchor("fn " + path, fn):
            continue
        ck.use_fn(fn)
        named = shape.fn_named_consts(fn)
        ck.decide(need <= named, "ATOM/table-use", path.replace(Z, ""), "reads %s" % sorted(need),
                  "%s no longer reads %s (reads %s)" % (path, sorted(need - named), sorted(named)), where(fn))
        bad = ENC_FORBIDDEN.get(path, set()) & named
        ck.decide(not bad, "ATOM/table-use", path.replace(Z, "") + ":foreign", "reads no table of the other alphabet",
                  "%s reads %s, a table of the other alphabet" % (path, sorted(bad)), where(fn))
    dc = P.fn(Z + "deflate::State::d_code")
    if dc is not None:
        cs = shape.fn_int_consts(dc)
        ck.decide({256, 7} <= cs, "ATOM/table-use", "d_code:index", "index = dist < 256 ? dist : 256 + (dist >> 7)",
                  "d_code index split constants changed (found %s)" % sorted(cs), where(dc))
    ed = P.fn(Z + "deflate::encode_dist")
    if ed is not None:
        ck.decide(bool(ed.live_calls(r"State::d_code$")), "ATOM/table-use", "encode_dist:d_code", "uses d_code", "encode_dist does not use d_code", where(ed))
    params_flush(ck, P)
    from . import c05
    c05.stored_final_block(ck, P)
    # the statement covers every chunking of the compressed stream: a suspension in the decoder must not lose or skip anything
    from . import c04 as _c04, c08 as _c08
    _c04.resume_atomicity(ck, P)
    _c04.handover_after_suspension(ck, P)
    _c08.checksum_update_guard(ck, P)
    # the decoder's match copy replicates overlapping matches (distance < length) byte by byte
    from .. import decoders
    ck.floor("WHO/overlap-safe-copy", decoders.overlap_safe(ck, P, "WHO/overlap-safe-copy", r"inflate::writer::Writer::copy_match_help$"), 1)
    from .. import condparity
    ck.floor("SIB/ref-conditions", condparity.check(ck, P, "SIB/ref-conditions", only={"deflate.c:deflate", "inflate.c:inflate", "inffast_tpl.h:INFLATE_FAST", "inftrees.c:zng_inflate_table", "match_tpl.h:LONGEST_MATCH", "deflate_stored.c:deflate_stored", "deflate.c:fill_window", "deflate_fast.c:deflate_fast", "deflate_slow.c:deflate_slow", "deflate_medium.c:deflate_medium", "deflate_medium.c:emit_match", "deflate_medium.c:insert_match", "deflate_medium.c:fizzle_matches", "deflate_quick.c:deflate_quick", "deflate_rle.c:deflate_rle", "deflate_huff.c:deflate_huff", "trees.c:zng_tr_flush_block", "trees.c:gen_bitlen", "trees.c:build_tree", "trees.c:scan_tree", "trees.c:build_bl_tree"}), 100)
    # the compressor core keeps every state update of its reference implementation (window slide, match state, cursors)
    from .. import refwrites
    ck.floor("SIB/ref-writes", refwrites.check(ck, P, "SIB/ref-writes", only={"deflate.c:fill_window", "deflate.c:lm_init", "deflate.c:lm_set_level", "deflate_fast.c:deflate_fast", "deflate_slow.c:deflate_slow", "deflate_medium.c:deflate_medium", "deflate_quick.c:deflate_quick", "deflate_rle.c:deflate_rle", "deflate_huff.c:deflate_huff", "deflate_stored.c:deflate_stored"}), 40)
    ck.assumptions += ["rustc const evaluation and MIR", "host target only"]

# session 5 (round 9, D24)
EXPLANATION = EXPLANATION + " " + (
    'SIB/ref-conditions also holds local update pins (a working local the reference adjusts in place, `copy -= wnext`, keeps an in-place update under the same name in the same function) and update-count pins (a field updated in place at n >= 2 places of the reference keeps n such updates).')

# session 5 (round 11)
EXPLANATION = EXPLANATION + " " + (
    'Local assign pins (round 11): a working local that the reference re-loads from a state value (`op = wnext` in the fast loop) keeps such an assignment under the same name.')
