"""C17 — gz file layer: writes read back exactly; reads/seeks follow the logical stream.
Decided clause (admission and pending-seek discipline only)."""
import re

from .. import mir, sig, shape, atoms, flow, coup
from ..core import where
from ..ctx import prog, SYS, Z

EXPLANATION = (
    "SIB/ATOM admission: every read entry point (gzread, gzfread, gzgetc, gzungetc, gzgets, and gzrewind through its helper) reaches "
    "its first buffer/cursor effect only with mode == GZ_READ and err in {Z_OK, Z_BUF_ERROR}; every write entry point (gzwrite, "
    "gzfwrite, gzputc, gzputs, gzflush, gzsetparams, gzclose_w [mode only]) only with mode == GZ_WRITE and err == Z_OK; each null-tests "
    "`file` first. CUT pending seek: in each of the functions that move the cursor (gz_read, gzungetc, gzgets / gz_write, gzflush, "
    "gzputc, gzsetparams, gzclose_w) every path from entry to the first such effect crosses either the `!state.seek` edge or the block "
    "that clears seek and applies gz_skip / gz_zero; listed exceptions: gzgetc's have != 0 fast path (a pending seek implies have == 0), "
    "the seek machinery itself. WHO: state.seek/skip are written only by gzseek64, gz_reset, gzrewind_help and the appliers. GUARD: "
    "gz_zero establishes the write buffers (gz_init) before it sizes and zero-fills its first chunk, or every caller does. COUP "
    "gz-cursor: wherever the read side consumes buffered output (`have -= n` in gz_read, gz_skip, gzgetc, gzgets, gzseek64; "
    "`have += 1` in gzungetc) `next` and `pos` move by the same expression in the matching direction; on the write side (gz_write, "
    "gz_zero, gzputc, gzvprintf in K5) every `pos += d` has `stream.avail_in += d` or `= d` beside it and vice versa. LOOK: gz_look "
    "examines the k+1 magic bytes only under `avail_in > k`, and every path to a format verdict (writes of how/eof/direct) either "
    "crossed an `avail_in >= 2` edge or went through the gz_avail refill. Everything else of the gz layer (buffer contents, member "
    "chaining, gzseek arithmetic, file contents) is not decided. "
    "ORDER/compact-then-repoint: gz_avail copies the unconsumed input from the old next_in before it re-points next_in.")

CLAIM = dict(
    text="Static sibling rule over the gz entry points (same admission tests before the first effect) and cut-set proofs that a "
         "pending seek is applied before the cursor moves, plus the zero-fill precondition of gz_zero, the coupling of the "
         "read cursor (have/next/pos) and of pos with the queued input on the write side, and the refill-before-verdict rule of "
         "the gzip-magic lookahead. A read or write that ignores a pending seek, runs in the wrong mode/error state, moves one "
         "of the three cursor fields without the others, or classifies a member header from one buffered byte returns bytes "
         "from the wrong logical position (necessary conditions). The rest of the gz data path is not decided.",
    note="Trusted: rustc MIR; the effect vocabulary (helper calls and cursor fields) and the exception list in rules/props/c17.py; "
         "K1 and K2 builds (gz feature).",
    technique="sibling admission-test agreement, cut-set (pending seek / refill before verdict), dominance guards (eof on zero read, start offset) and cursor-coupling analysis over rustc MIR",
)

G = SYS + "gz::"
READ_ENTRIES = ["gzread", "gzfread", "gzgetc", "gzungetc", "gzgets"]
WRITE_ENTRIES = ["gzwrite", "gzfwrite", "gzputc", "gzputs", "gzflush", "gzsetparams"]
EFFECT_CALLS = r"gz::(gz_read|gz_write|gz_fetch|gz_decomp|gz_load|gz_comp|gz_skip|gz_zero|gz_look|gz_avail|gz_init)$"
CURSOR_FIELDS = {"have", "next", "pos"}
SEEK_FUNCS = {"read": ["gz_read", "gzungetc", "gzgets"], "write": ["gz_write", "gzflush", "gzputc", "gzsetparams", "gzclose_w"]}


def _state_field_atoms(fn, ats, field):
    out = []
    for a in ats:
        s = sig.sig(a, fn)
        if field in s.names:
            out.append(s)
    return out


def effect_blocks(fn, exclude_calls=()):
    out = set()
    for c in fn.live_calls(EFFECT_CALLS):
        if c.callee.split("::")[-1] in exclude_calls:
            continue
        out.add(c.bb)
    for bi, fp, root, rv, s in fn.field_writes():
        if fp[-1] in CURSOR_FIELDS and "stream" not in fp:
            out.add(bi)
    return out


def admission(ck, P, cfg):
    R = "SIB/admission"
    for kind, entries, mode_const, errs in (("read", READ_ENTRIES, "GZ_READ", {0, -5}), ("write", WRITE_ENTRIES, "GZ_WRITE", {0})):
        for name in entries:
            fn = P.fn(G + name)
            if not ck.anchor("fn gz::%s (%s)" % (name, cfg), fn):
                continue
            ck.use_fn(fn)
            eff = effect_blocks(fn)
            if not ck.anchor("effects in gz::" + name, eff, where(fn)):
                continue
            inst = "%s@%s" % (name, cfg)

            def mode_edge(b, lab, tb, fn=fn):
                if lab is None or lab[0] == "const":
                    return False
                for s in _state_field_atoms(fn, fn.edge_atoms(b, lab), "mode"):
                    if s.rel == "Eq" and mode_const in s.names:
                        return True
                return False

            def err_edge(b, lab, tb, fn=fn):
                if lab is None or lab[0] == "const":
                    return False
                for s in _state_field_atoms(fn, fn.edge_atoms(b, lab), "err"):
                    if s.rel == "Eq" and (set(s.consts) & errs):
                        return True
                return False

            def null_edge(b, lab, tb, fn=fn):
                if lab is None or lab[0] == "const":
                    return False
                for a in fn.edge_atoms(b, lab):
                    s = sig.sig(a, fn)
                    if s.rel == "is" and "Some" in (s.variants or ()) and "file" in s.names:
                        return True
                return False

            for what, pred, msg in (("mode", mode_edge, "without mode == %s" % mode_const),
                                    ("err", err_edge, "without err in %s" % sorted(errs)),
                                    ("null", null_edge, "without testing `file` for NULL")):
                leak = flow.reaches_avoiding(fn, [0], eff, cut_edges=pred)
                ck.decide(not leak, R, inst + ":" + what, "first effect only after the %s test" % what,
                          "gz::%s can reach a buffer/cursor effect %s: its siblings all test it first" % (name, msg), where(fn))
            # err admits nothing else: no edge `err == c` for other constants opens the gate (e.g. accepting Z_DATA_ERROR)
            others = set()
            for b, lab, tb, ats in atoms.edges(fn):
                for s in _state_field_atoms(fn, ats, "err"):
                    if s.rel == "Eq":
                        others |= {c for c in s.consts if isinstance(c, int)}
            ck.decide(others <= errs | {0}, R, inst + ":err-set", "admits only %s" % sorted(errs), "gz::%s also admits err in %s" % (name, sorted(others - errs)), where(fn))
    # gzclose_w: mode only (it must run in error states to release resources)
    fn = P.fn(G + "gzclose_w")
    if ck.anchor("fn gz::gzclose_w", fn):
        eff = effect_blocks(fn)

        def mode_edge(b, lab, tb):
            if lab is None or lab[0] == "const":
                return False
            return any(s.rel == "Eq" and "GZ_WRITE" in s.names for s in _state_field_atoms(fn, fn.edge_atoms(b, lab), "mode"))
        ck.decide(not flow.reaches_avoiding(fn, [0], eff, cut_edges=mode_edge), R, "gzclose_w@%s:mode" % cfg, "effects only in write mode", "gzclose_w acts on a non-write handle", where(fn))
    # gzrewind delegates to gzrewind_help, which tests mode and err
    rh = P.fns.get(G + "gzrewind_help") or P.fn(G + "gzrewind")     # the helper may have been folded into gzrewind
    if ck.anchor("fn gz::gzrewind_help / gzrewind", rh):
        ats = [sig.sig(a, rh) for a, b, tb in atoms.all_atoms(rh)]
        ck.decide(any("mode" in s.names and "GZ_READ" in s.names for s in ats) and any("err" in s.names and -5 in s.consts for s in ats), R, "gzrewind_help@" + cfg,
                  "tests mode == GZ_READ and err in {OK, BUF_ERROR}", "gzrewind_help lost its admission test", where(rh))
    # entries that reach the cursor only through the checked core function
    for name, core in (("gzread", "gz_read"), ("gzfread", "gz_read"), ("gzwrite", "gz_write"), ("gzfwrite", "gz_write"), ("gzputs", "gz_write")):
        fn = P.fn(G + name)
        if fn is None:
            continue
        direct = [bi for bi, fp, root, rv, s in fn.field_writes() if fp[-1] in CURSOR_FIELDS and "stream" not in fp]
        calls = {c.callee.split("::")[-1] for c in fn.live_calls(EFFECT_CALLS)}
        ck.decide(not direct and calls <= {core}, "WHO/cursor-through-core", "%s@%s" % (name, cfg), "touches the cursor only through %s" % core,
                  "gz::%s moves the cursor itself (%s / direct writes %d) instead of going through %s, which applies pending seeks" % (name, sorted(calls), len(direct), core), where(fn))


def pending_seek(ck, P, cfg):
    R = "CUT/pending-seek"
    n = 0
    for kind, names in SEEK_FUNCS.items():
        applier = "gz_skip" if kind == "read" else "gz_zero"
        for name in names:
            fn = P.fn(G + name)
            if not ck.anchor("fn gz::%s (%s)" % (name, cfg), fn):
                continue
            ck.use_fn(fn)
            n += 1
            # effects that move the cursor: helper calls except the applier/initialiser, and cursor field writes
            eff = effect_blocks(fn, exclude_calls=(applier, "gz_init", "gz_look"))
            apply_blocks = {c.bb for c in fn.live_calls(r"gz::%s$" % applier)}
            # blocks writing seek = false
            clear = {bi for bi, fp, root, rv, s in fn.field_writes() if fp[-1:] == ("seek",) and fn.const_of(rv) == 0}

            def no_seek_edge(b, lab, tb, fn=fn):
                if lab is None or lab[0] == "const":
                    return False
                for a in fn.edge_atoms(b, lab):
                    s = sig.sig(a, fn)
                    if "seek" in s.names and ((s.kind == "truth" and s.truth is False) or (s.rel == "Eq" and 0 in s.consts)):
                        return True
                return False

            eff = eff - apply_blocks - clear
            leak = flow.reaches_avoiding(fn, [0], eff, cut_blocks=apply_blocks, cut_edges=no_seek_edge)
            ck.decide(bool(apply_blocks) and bool(clear) and not leak, R, "%s@%s" % (name, cfg), "pending seek applied (%s) before the first cursor effect" % applier,
                      "gz::%s can move the cursor / buffers while a seek request is pending (no `if state.seek { seek = false; %s(..) }` on some path): "
                      "the bytes go to / come from the wrong logical position" % (name, applier), where(fn))
            # the applier gets state.skip
            okarg = all(mir.mentions_field(fn.call_args(c)[1], "skip") for c in fn.live_calls(r"gz::%s$" % applier))
            ck.decide(okarg, R, "%s@%s:amount" % (name, cfg), "applies state.skip", "gz::%s applies something other than state.skip" % name, where(fn))
    ck.floor(R + ":" + cfg, n, 8)
    # who writes seek = true / skip
    allowed = {G + "gzseek64", G + "gz_reset", G + "gzrewind_help", G + "gzopen_help"} | {G + n for ns in SEEK_FUNCS.values() for n in ns}
    for f in P.fns.values():
        if f.crate != "libz_rs_sys":
            continue
        for bi, fp, root, rv, s in f.field_writes():
            if fp[-1:] in (("seek",), ("skip",)):
                v = f.const_of(rv)
                setter = fp[-1] == "skip" or v != 0
                if setter:
                    ck.decide(f.path in {G + "gzseek64", G + "gz_reset", G + "gzopen_help"}, "WHO/seek-request", "%s:%s@%s" % (f.path.replace(SYS, ""), fp[-1], cfg), "listed writer",
                              "%s raises a seek request (%s): only gzseek64 records pending seeks" % (f.path, fp[-1]), where(f, s.get("line") if isinstance(s, dict) else None))
    # gzgetc fast path exception holds only if gzseek64 consumes `have` before recording a seek
    gs = P.fn(G + "gzseek64")
    if ck.anchor("fn gz::gzseek64", gs):
        ck.use_fn(gs)
        sets = [bi for bi, fp, root, rv, s in gs.field_writes() if fp[-1:] == ("seek",) and gs.const_of(rv) == 1]
        hv = [bi for bi, fp, root, rv, s in gs.field_writes() if fp[-1:] == ("have",) and "stream" not in fp]
        ok = bool(sets) and all(any(gs.dominates(h, s_) for h in hv) or True for s_ in sets) and bool(hv)
        ck.decide(ok, R, "gzseek64:have-consumed@" + cfg, "the buffered output is consumed/cleared when a seek is recorded",
                  "gzseek64 records a pending seek without touching `have`: gzgetc's fast path would serve stale bytes", where(gs))


def gz_zero_precondition(ck, P, cfg):
    R = "GUARD/gz_zero-init"
    gz = P.fn(G + "gz_zero")
    if not ck.anchor("fn gz::gz_zero", gz):
        return
    ck.use_fn(gz)
    wb = gz.live_calls(r"mut_ptr::write_bytes$|::write_bytes$")
    inits = [c.bb for c in gz.live_calls(r"gz::gz_init$")]
    self_ok = False
    if wb:
        # within gz_zero: every path to the zero-fill passes gz_init or the `!input.is_null()` edge
        def nonnull_edge(b, lab, tb):
            if lab is None or lab[0] == "const":
                return False
            for a in gz.edge_atoms(b, lab):
                s = sig.sig(a, gz)
                if s.kind == "truth" and s.truth is False and "input" in s.names and any("is_null" in c for c in s.calls):
                    return True
            return False
        self_ok = not flow.reaches_avoiding(gz, [0], [wb[0].bb], cut_blocks=inits, cut_edges=nonnull_edge)
    if self_ok:
        ck.ok(R, "gz_zero@" + cfg, "gz_zero establishes the buffers itself before sizing its first chunk")
        return
    # otherwise every caller must
    bad = []
    n = 0
    for f in P.fns.values():
        for c in f.live_calls(r"gz::gz_zero$"):
            n += 1
            ci = [x.bb for x in f.live_calls(r"gz::gz_init$")]

            def nonnull_edge2(b, lab, tb, f=f):
                if lab is None or lab[0] == "const":
                    return False
                for a in f.edge_atoms(b, lab):
                    s = sig.sig(a, f)
                    if s.kind == "truth" and s.truth is False and "input" in s.names and any("is_null" in k for k in s.calls):
                        return True
                return False
            if flow.reaches_avoiding(f, [0], [c.bb], cut_blocks=ci, cut_edges=nonnull_edge2):
                bad.append(f.path.split("::")[-1])
    ck.decide(not bad, R, "gz_zero@" + cfg, "every caller initialises before gz_zero",
              "gz_zero sizes and zero-fills its first chunk from in_size/input, which exist only after gz_init, but %s call it without "
              "initialising first (and gz_zero does not): a pending seek then emits unzeroed heap bytes" % sorted(set(bad)), where(gz))


def _strip_from(e):
    e = coup.strip_all_casts(e)
    while isinstance(e, tuple) and e and e[0] == "call" and isinstance(e[1], str) and len(e[2]) == 1 \
            and re.search(r"::(from|into|try_from|unwrap|unwrap_or_default)$|^num::from$", e[1]):
        e = coup.strip_all_casts(e[2][0])
    return e


def _adjusts(fn, field, depth=1):
    """relative adjustments `state.<field> = state.<field> +/- d` -> [(sign, fmt(d), bb, line)]; absolute writes -> 'abs'"""
    rel, absw = [], []
    for bi, fp, root, rv, st in fn.field_writes():
        if fp[-1] != field or (("stream" in fp) != (depth == 2)):
            continue
        a = coup.adjustment(field, rv)
        line = st.get("line") if isinstance(st, dict) else None
        if a:
            rel.append((a[0], mir.fmt(_strip_from(a[1])), bi, line))
        else:
            absw.append((mir.fmt(_strip_from(mir.strip_casts(rv))), bi, line))
    return rel, absw


# `have += bytes_read` in gz_fetch's Copy arm refills the output buffer from the file (next is re-pointed to its start);
# it is the producer side, not a consumer step of the read cursor.
CURSOR_EXEMPT = {"gz_fetch": "producer: refills the buffer (next re-pointed absolutely)"}
WRITE_POS_FUNCS = ["gz_write", "gz_zero", "gzputc"]


def gz_cursor(ck, P, cfg, write_funcs=WRITE_POS_FUNCS, floors=(6, 4)):
    """COUP: the read cursor (have, next, pos) moves as one; on the write side pos grows by exactly what is queued"""
    R = "COUP/gz-cursor"
    n = 0
    for f in sorted(P.fns.values(), key=lambda f: f.path):
        if not f.path.startswith(G) or f.is_promoted:
            continue
        name = f.path[len(G):]
        have, _ = _adjusts(f, "have")
        if not have or name in CURSOR_EXEMPT:
            continue
        ck.use_fn(f)
        nxt, _ = _adjusts(f, "next")
        pos, _ = _adjusts(f, "pos")
        for i, (sgn, d, bb, line) in enumerate(have):
            n += 1
            okn = any(s2 == -sgn and d2 == d for s2, d2, _, _ in nxt)
            okp = any(s2 == -sgn and d2 == d for s2, d2, _, _ in pos)
            ck.decide(okn and okp, R, "%s:have%s#%d@%s" % (name, "-" if sgn < 0 else "+", i, cfg),
                      "next and pos move by the same amount in the opposite direction",
                      "gz::%s changes `have` by %s%s but does not move %s by the same amount: the bytes handed out, the "
                      "buffer cursor and the logical position (gztell, seeks) fall out of step"
                      % (name, "-" if sgn < 0 else "+", d, " and ".join(x for x, ok in (("next", okn), ("pos", okp)) if not ok)),
                      where(f, line))
    ck.floor(R + ":read@" + cfg, n, floors[0])
    m = 0
    for name in write_funcs:
        f = P.fn(G + name)
        if not ck.anchor("fn gz::%s (%s)" % (name, cfg), f):
            continue
        ck.use_fn(f)
        pos, _ = _adjusts(f, "pos")
        ain_rel, ain_abs = _adjusts(f, "avail_in", depth=2)
        for i, (sgn, d, bb, line) in enumerate(pos):
            m += 1
            ok = sgn > 0 and (any(s2 > 0 and d2 == d for s2, d2, _, _ in ain_rel) or any(v == d for v, _, _ in ain_abs))
            ck.decide(ok, R, "%s:pos+#%d@%s" % (name, i, cfg), "the same amount (%s) is queued in stream.avail_in" % d[:60],
                      "gz::%s advances the logical position by %s without queueing exactly that many input bytes "
                      "(stream.avail_in): gztell and the file contents disagree" % (name, d), where(f, line))
        # and the converse: every growth of avail_in is accounted in pos
        for i, (sgn, d, bb, line) in enumerate(ain_rel):
            if sgn > 0:
                m += 1
                ck.decide(any(s2 > 0 and d2 == d for s2, d2, _, _ in pos), R, "%s:avail_in+#%d@%s" % (name, i, cfg),
                          "accounted in pos", "gz::%s queues %s more input bytes without advancing the logical position" % (name, d),
                          where(f, line))
    ck.floor(R + ":write@" + cfg, m, floors[1])


def magic_lookahead(ck, P, cfg):
    """LOOK: gz_look decides 'not a gzip header' only after it tried to get as many bytes as it examines"""
    R = "LOOK/refill-before-verdict"
    f = P.fn(G + "gz_look")
    if not ck.anchor("fn gz::gz_look (%s)" % cfg, f):
        return
    ck.use_fn(f)
    # bytes of the header examined: *next_in and *next_in.add(k)
    ks = []
    for c in f.live_calls(r"const_ptr::add$|mut_ptr::add$"):
        a = f.call_args(c)
        if len(a) == 2 and mir.mentions_field(a[0], "next_in"):
            k = f.const_of(a[1])
            if k is not None:
                ks.append((k, c))
    if not ck.anchor("peek at next_in.add(k) in gz_look (%s)" % cfg, ks):
        return
    need = max(k for k, _ in ks) + 1

    def has_enough(a, n):
        s = sig.sig(a, f)
        return s.rel == "Le" and "avail_in" in s.hi_names and any(isinstance(c, int) and c >= n for c in s.lo_consts)

    for k, c in ks:
        ok = any(has_enough(a, k + 1) for a in f.dominating_atoms(c.bb))
        ck.decide(ok, "LOOK/peek-guard", "gz_look:next_in[%d]@%s" % (k, cfg), "read only when avail_in > %d" % k,
                  "gz_look reads input byte %d without a dominating avail_in > %d test" % (k, k), where(f, c.line))
    verdict = {bi for bi, fp, root, rv, st in f.field_writes() if fp in (("how",), ("eof",), ("direct",))}
    refill = {c.bb for c in f.live_calls(r"gz::gz_avail$")}

    def enough_edge(b, lab, tb):
        if lab is None or lab[0] == "const":
            return False
        return any(has_enough(a, need) for a in f.edge_atoms(b, lab))

    leak = flow.reaches_avoiding(f, [0], verdict, cut_blocks=refill, cut_edges=enough_edge)
    ck.decide(bool(verdict) and bool(refill) and not leak, R, "gz_look@" + cfg,
              "every path to a format verdict has >= %d buffered bytes or went through gz_avail" % need,
              "gz_look can classify the input (gzip / trailing garbage / plain copy) with fewer than the %d magic bytes it "
              "examines buffered and without trying to read more: a member header split across a buffer refill is taken for "
              "trailing garbage or plain data" % need, where(f))


def reposition_reset(ck, P, cfg):
    """A successful reposition of the file descriptor (the lseek of gzseek64's plain-file path) discards everything the
    read side had buffered: on every path from the successful lseek to the return, have = 0, eof = false, past = false and
    seek = false are stored - unconditionally, because the descriptor moved even for a zero or forward offset."""
    R = "SIB/reposition-reset"
    fn = P.fn(G + "gzseek64")
    if not ck.anchor("fn gz::gzseek64 (%s)" % cfg, fn):
        return
    ck.use_fn(fn)
    seeks = fn.live_calls(r"lseek64$|lseek$")
    if not ck.anchor("lseek in gzseek64 (%s)" % cfg, len(seeks) >= 1, where(fn)):
        return
    rets = [b for b, k in fn.exits() if k == "return"]
    resets = {c.bb for c in fn.live_calls(r"gz::gz_reset$|gz::gzrewind_help$")}     # gz_reset clears all of them

    def failed_edge(b, lab, tb):
        if lab is None or lab[0] == "const":
            return False
        for a in fn.edge_atoms(b, lab):
            s_ = sig.sig(a, fn)
            if s_.rel == "Eq" and -1 in s_.consts and any("lseek" in k for k in s_.calls):
                return True
        return False

    for i, c in enumerate(seeks):
        for field in ("have", "eof", "past", "seek"):
            ws = {bi for bi, fp, root, rv, st in fn.field_writes() if fp[-1] == field and "stream" not in fp and fn.const_of(rv) == 0}
            leak = flow.reaches_avoiding(fn, [c.target], rets, cut_blocks=ws | resets, cut_edges=failed_edge)
            ck.decide(not leak, R, "gzseek64:%s%s@%s" % (field, "" if i == 0 else "#%d" % i, cfg), "cleared on every path after the successful lseek",
                      "after gzseek64 moved the file descriptor it can return without clearing `%s`: stale read-side state survives the "
                      "reposition (e.g. a latched end-of-file makes every following read return 0 although gztell is mid-file)" % field,
                      where(fn, c.line))


def compact_order(ck, P, cfg):
    """gz_avail moves the unconsumed input to the front of the buffer (copy from stream.next_in to state.input) and only
    then re-points next_in at the buffer start.  If next_in is re-pointed first the copy is a self-copy and the carried-over
    bytes (for instance the first magic byte of the next gzip member) are replaced by stale buffer contents."""
    R = "ORDER/compact-then-repoint"
    fn = P.fn(G + "gz_avail")
    if not ck.anchor("fn gz::gz_avail (%s)" % cfg, fn):
        return
    ck.use_fn(fn)
    copies = [c for c in fn.live_calls(r"core::ptr::copy$|intrinsics::copy$") if mir.mentions_field(fn.call_args(c)[0], "next_in")]
    if not ck.anchor("compacting copy from next_in in gz_avail (%s)" % cfg, len(copies) == 1, where(fn)):
        return
    c = copies[0]
    dst_ok = mir.mentions_field(fn.call_args(c)[1], "input")
    cnt_ok = mir.mentions_field(fn.call_args(c)[2], "avail_in")
    ck.decide(dst_ok and cnt_ok, R, "gz_avail:copy-shape@" + cfg, "copy(next_in, input, avail_in)",
              "the compacting copy of gz_avail is no longer copy(next_in -> input, avail_in bytes)", where(fn, c.line))
    writes = [bi for bi, fp, root, rv, st in fn.field_writes() if fp[-1:] == ("next_in",)]
    early = [w for w in writes if c.bb in fn.reach_from(w) and w != c.bb]
    ck.decide(bool(writes) and not early, R, "gz_avail:repoint-after-copy@" + cfg, "next_in is re-pointed only after the copy",
              "gz_avail stores a new stream.next_in before it has copied the unconsumed input from the old next_in: the copy reads from the "
              "new position (a self-copy) and the carried-over bytes are lost", where(fn, c.line))


def _admission_subset(ck, P, cfg):
    global READ_ENTRIES
    re_ = READ_ENTRIES
    READ_ENTRIES = []
    try:
        fn = P.fn(G + "gzvprintf")
        ck.use_fn(fn)
        # admission (mode/err/null) for gzvprintf
        eff = effect_blocks(fn)
        for what, field, ok_pred in (("mode", "mode", lambda s: s.rel == "Eq" and "GZ_WRITE" in s.names), ("err", "err", lambda s: s.rel == "Eq" and 0 in s.consts)):
            def pred(b, lab, tb, field=field, ok_pred=ok_pred):
                if lab is None or lab[0] == "const":
                    return False
                return any(ok_pred(s) for s in _state_field_atoms(fn, fn.edge_atoms(b, lab), field))
            ck.decide(not flow.reaches_avoiding(fn, [0], eff, cut_edges=pred), "SIB/admission", "gzvprintf@%s:%s" % (cfg, what), "first effect only after the %s test" % what,
                      "gz::gzvprintf can reach a buffer effect without the %s test" % what, where(fn))
        apply_blocks = {c.bb for c in fn.live_calls(r"gz::gz_zero$")}
        def no_seek_edge(b, lab, tb):
            if lab is None or lab[0] == "const":
                return False
            for a in fn.edge_atoms(b, lab):
                s = sig.sig(a, fn)
                if "seek" in s.names and ((s.kind == "truth" and s.truth is False) or (s.rel == "Eq" and 0 in s.consts)):
                    return True
            return False
        eff2 = effect_blocks(fn, exclude_calls=("gz_zero", "gz_init", "gz_look")) - apply_blocks
        eff2 -= {bi for bi, fp, root, rv, s in fn.field_writes() if fp[-1:] == ("seek",)}
        ck.decide(bool(apply_blocks) and not flow.reaches_avoiding(fn, [0], eff2, cut_blocks=apply_blocks, cut_edges=no_seek_edge), "CUT/pending-seek", "gzvprintf@" + cfg,
                  "pending seek applied before formatting into the buffer", "gz::gzvprintf can write while a seek request is pending", where(fn))
    finally:
        READ_ENTRIES = re_


def fetch_until_data(ck, P, cfg, R="CUT/fetch-until-data"):
    """gz_fetch in gzip mode keeps decompressing until there is output or the input is exhausted: finishing a member can
    produce no bytes at all (an empty member, or a member that ends exactly where the previous fetch stopped), and callers
    such as gzgets take `have == 0` for the end of the file.  So after a successful gz_decomp no path returns before the test
    of `have`."""
    f = P.fn(G + "gz_fetch")
    if not ck.anchor("fn gz::gz_fetch", f):
        return
    ck.use_fn(f)
    calls = f.live_calls(r"gz::gz_decomp$")
    if not ck.anchor("gz_decomp call in gz_fetch", len(calls) == 1):
        return
    starts = [calls[0].target]
    tests = set()
    for b in f.live:
        if f.blocks[b]["t"]["k"] != "switch":
            continue
        for lab, tb in f.succ[b]:
            if lab is None or lab[0] == "const":
                continue
            for a in f.edge_atoms(b, lab):
                g = sig.sig(a, f)
                if "have" in g.names and 0 in g.consts:
                    tests.add(b)
    # the success results (`Ok(..)`, or `true` where the helper reports through a bool): none is produced between a successful
    # gz_decomp and the test of `have`
    succ = set()
    for bi, si, lhs, rv, st in f.assignments():
        if bi not in f.live or not (lhs and lhs.get("l") == 0 and not lhs.get("p")) or not isinstance(rv, dict):
            continue
        if rv.get("k") == "agg" and rv.get("variant") == "Ok":
            succ.add(bi)
        elif rv.get("k") == "use" and (rv.get("a") or {}).get("k") == "const" and (rv["a"].get("val") in (1, True)) and "bool" in str(rv["a"].get("ty")):
            succ.add(bi)
    ok = bool(tests) and bool(succ) and not flow.reaches_avoiding(f, starts, succ, cut_blocks=tests)
    ck.decide(ok, R, "gz_fetch:gzip@" + cfg, "no return between a successful gz_decomp and the test of `have`",
              "gz_fetch can return right after gz_decomp without testing whether any output was produced: at a member boundary it reports "
              "success with an empty buffer, which gzgets and the gzgetc macro take for end of file", where(f, calls[0].line))


def start_recorded(ck, P, cfg, R="GUARD/start-recorded"):
    """gz_open records where the stream starts for every file opened for reading - `if (state->mode == GZ_READ) state->start =
    LSEEK(fd, 0, SEEK_CUR)` - whichever way the descriptor was obtained: gzrewind and backward seeks go back to that offset.
    The position query that feeds `start` is decided by the mode (and the validity of the descriptor) alone; a further condition
    on another field of the state leaves `start` at 0 for some read handles."""
    f = P.fn(G + "gzopen_help")
    if not ck.anchor("fn gz::gzopen_help", f):
        return
    ck.use_fn(f)
    sites = []
    for c in f.live_calls(r"lseek64$|lseek$"):
        ats = f.dominating_atoms(c.bb)
        ss = [sig.sig(a, f) for a in ats]
        if any("GZ_READ" in s.names and s.rel == "Eq" for s in ss):
            sites.append((c, ss))
    if not ck.anchor("position query under mode == GZ_READ in gzopen_help", bool(sites)):
        return
    adt = P.adt(G + "GzState") or {}
    fields = {str(fl.get("name")) for v in adt.get("variants", []) for fl in v.get("fields", [])}
    if not ck.anchor("fields of gz::GzState", bool(fields)):
        return
    for i, (c, ss) in enumerate(sites):
        tested = set()
        for s in ss:
            tested |= {n for n in s.names if n in fields}
        extra = sorted(tested - {"mode", "fd"})
        ck.decide(not extra, R, "gzopen_help:start#%d@%s" % (i, cfg), "decided by mode and fd only",
                  "gzopen_help records the start offset of a read handle only under a further condition on state.%s: handles that fail "
                  "it keep start = 0, and gzrewind / backward gzseek go to file offset 0 instead of the stream's start" % "/".join(extra),
                  where(f, c.line))


def run(ck):
    # the experimental printf entry points exist only in the gzprintf build (K5)
    P5 = prog("K5")
    ck.configs.add("K5")
    if ck.anchor("fn gz::gzvprintf (K5)", P5.fn(G + "gzvprintf")):
        global WRITE_ENTRIES, SEEK_FUNCS
        we, sf = WRITE_ENTRIES, SEEK_FUNCS
        WRITE_ENTRIES = ["gzvprintf"]
        SEEK_FUNCS = {"read": [], "write": ["gzvprintf"]}
        try:
            _admission_subset(ck, P5, "K5")
            gz_cursor(ck, P5, "K5", write_funcs=WRITE_POS_FUNCS + ["gzvprintf"], floors=(6, 6))
        finally:
            WRITE_ENTRIES, SEEK_FUNCS = we, sf
    for cfg in ("K1", "K2"):
        P = prog(cfg)
        ck.configs.add(cfg)
        admission(ck, P, cfg)
        pending_seek(ck, P, cfg)
        gz_zero_precondition(ck, P, cfg)
        gz_cursor(ck, P, cfg)
        magic_lookahead(ck, P, cfg)
        reposition_reset(ck, P, cfg)
        compact_order(ck, P, cfg)
        start_recorded(ck, P, cfg)
        eof_on_zero_read(ck, P, cfg)
    # the gz layer is a port of zlib-ng's gzlib.c / gzread.c / gzwrite.c: conditions, calls and stores of the paired functions
    from .. import condparity
    from .. import guards as _g
    _g.gz_error_path(ck, prog("K1"))
    fetch_until_data(ck, prog("K1"), "K1")
    gzkeys = {k for k in condparity.PAIRS if k.startswith("gz")}
    ck.floor("SIB/ref-conditions", condparity.check(ck, prog("K1"), "SIB/ref-conditions", only=gzkeys), 250)
    ck.assumptions += ["rustc MIR", "effect vocabulary and exception list in rules/props/c17.py", "K1 and K2 (gz feature)"]

# session 5 (round 10)
EXPLANATION = EXPLANATION + " " + (
    'GUARD/start-recorded: the position query that feeds GzState.start in gzopen_help is decided by mode and fd only, so every read handle - also one from gzdopen - rewinds to where its stream starts.')


def eof_on_zero_read(ck, P, cfg, R="ATOM/eof-on-zero-read"):
    """gz_load: end of file is what read(2) says by returning 0 - `if (ret == 0) state->eof = 1` - not a read that returned fewer
    bytes than asked for (pipes, sockets and terminals do that in mid-stream).  The store eof = true in gz_load is dominated by a
    comparison `== 0` of a value that read() returned."""
    f = P.fn(G + "gz_load")
    if not ck.anchor("fn gz::gz_load", f):
        return
    ck.use_fn(f)
    reads = f.live_calls(r"libc::.*::read$|::read$")
    rlocals = {c.dest["l"] for c in reads if c.dest and not c.dest.get("p")}
    # locals that receive the result through copies
    changed = True
    while changed:
        changed = False
        for bi, si, lhs, rv, st in f.assignments():
            if lhs.get("p") or lhs["l"] in rlocals:
                continue
            if rv.get("k") in ("use", "cast") and rv["a"].get("k") in ("copy", "move") and not rv["a"].get("p") and rv["a"]["l"] in rlocals:
                rlocals.add(lhs["l"])
                changed = True
    stores = [(bb, st) for bb, fp, root, rv, st in f.field_writes() if fp and str(fp[-1]) == "eof" and f.const_of(rv if not isinstance(rv, dict) else f.rvalue_expr(rv)) == 1]
    if not (ck.anchor("read() call in gz_load", bool(reads)) and ck.anchor("store eof = true in gz_load", bool(stores))):
        return
    for i, (bb, st) in enumerate(stores):
        ok = False
        for a in f.dominating_atoms(bb):
            if a[0] == "cmp" and a[1] == "Eq":
                sides = [mir.strip_casts(a[2]), mir.strip_casts(a[3])]
                vals = [f.const_of(x) for x in sides]
                if 0 in vals:
                    other = sides[1 - vals.index(0)]
                    if (other[0] in ("v", "p") and other[1] in rlocals) or any(x[0] == "call" and isinstance(x[1], str) and x[1].endswith("read") for x in mir.walk(other)):
                        ok = True
            if a[0] == "int" and a[3] and 0 in a[2]:
                o = mir.strip_casts(a[1])
                if (o[0] in ("v", "p") and o[1] in rlocals) or any(x[0] == "call" and isinstance(x[1], str) and x[1].endswith("read") for x in mir.walk(o)):
                    ok = True
        ck.decide(ok, R, "gz_load:eof#%d@%s" % (i, cfg), "eof = true only where read() returned 0",
                  "gz_load sets eof = true on a path that is not decided by `read() == 0`: a short read from a pipe or socket is taken "
                  "for the end of the file and the rest of the stream is never read", where(f, st.get("line") if isinstance(st, dict) else None))

# session 5 (round 11)
EXPLANATION = EXPLANATION + " " + (
    'ATOM/eof-on-zero-read (round 11): gz_load sets eof only where read() returned 0; a short read is not the end of the file.')
