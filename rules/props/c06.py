"""C06 — compression API never aborts, stays in bounds, makes progress.
Decided clause: no unjustified explicit abort construct reachable from a compression entry point;
raw copies to/from caller buffers are bounded by min(len, avail); forbid(unsafe_code) stays on the
match-finding drivers."""
import re

from .. import mir, sig, shape, atoms, abort, abort_table, flow
from ..core import where
from ..ctx import prog, Z, SYS

EXPLANATION = (
    "ABORT: every explicit panic/assert/unwrap/expect/unreachable reachable from the compression entry points (C API "
    "deflate*/compress*, Rust Deflate methods, compress_slice*) is in the justified table (exact keys, one reason each); "
    "debug-only assertions are gated only when they test an integer parameter of a public API function. GUARD: the raw "
    "copies in flush_pending, read_buf_window, read_buf_direct_copy, deflate_stored, Window::copy_and_initialize and "
    "deflate::get_dictionary have a count of the form min(.., avail_*) / range length. LINT: #![forbid(unsafe_code)] is in "
    "force for every function of fast, medium, slow, huff, quick, rle, hash_calc, trees_tbl (and inftrees). Progress "
    "(Finish reaches stream end) and implicit bounds checks are not decided. "
    "GUARD/signed-offset: `block_start as usize` in any function that can run in an algorithm which reaches fill_window (the only unguarded subtraction from block_start) is used only under block_start >= 0 (dominating test or `(block_start >= 0).then_some(..)`). "
    "TAINT/api-int-arith: the state fields that an API setter stores from its integer parameters without any range test (deflateTune's four knobs, discovered from the program) never feed an overflow-checked add/sub/mul that is not dominated by a comparison of that value (D24: max_chain 0 underflowed longest_match's chain counter). ORDER/slide-rebase: fill_window clamps `insert` against strstart only after strstart was rebased. SIB/ref-conditions: the elementary conditions and calls of the zlib-ng functions this code was ported from (oracles/condparity.json, frozen from the vendored C sources) keep a counterpart in the paired zlib-rs function.")

CLAIM = dict(
    text="Static: call-graph inventory of explicit abort constructs against a justified table; expression-shape guards on "
         "the six raw-copy sites of the compression path; lint-level query that unsafe code stays forbidden in the "
         "match-finding drivers. Necessary conditions of 'never aborts / stays in bounds'; progress and the numeric "
         "invariants behind the listed asserts are not decided. "
         "Also: the signed block_start is turned into a window offset only under block_start >= 0 wherever fill_window can have made it negative.",
    note="Trusted: rustc MIR, lint levels as reported by the compiler, the justified-abort table (rules/abort_table.py).",
    technique="call-graph abort inventory + count-expression guards + taint closure (unvalidated API integers to overflow-checked operators) + lint-level query over the compiler's program",
)

FORBID_MODULES = [
    Z + "deflate::algorithm::fast", Z + "deflate::algorithm::medium", Z + "deflate::algorithm::slow", Z + "deflate::algorithm::huff",
    Z + "deflate::algorithm::quick", Z + "deflate::algorithm::rle", Z + "deflate::hash_calc", Z + "inflate::inftrees",
]


def compress_roots(P):
    roots = []
    for f in P.fns.values():
        last = f.path.split("::")[-1]
        if f.crate == "libz_rs_sys" and f.is_extern_c and "::gz::" not in f.path and (last.startswith("deflate") or last.startswith("compress")):
            roots.append(f.path)
        if f.crate == "zlib_rs" and f.j.get("vis") == "Public" and (
                f.path.startswith(Z + "stable::Deflate") or last in ("compress_slice", "compress_slice_with_flush", "compress", "compress_with_flush", "compress_bound")):
            roots.append(f.path)
    return sorted(set(roots))


def _min_args(e):
    """arguments of min() calls inside e"""
    out = []
    for m in mir.calls_in(e, r"cmp::Ord::min$|cmp::min$|::min$"):
        out.append(m[2])
    return out


def _has_min_over(e, field):
    for args in _min_args(e):
        if any(mir.mentions_field(a, field) for a in args):
            return True
    return False


def copies(fn, rx=r"ptr::copy_nonoverlapping$|intrinsics::copy_nonoverlapping$|ptr::copy$"):
    return fn.live_calls(rx)


def guards(ck, P):
    R = "GUARD/raw-copy"
    # 1 flush_pending
    fp = P.fn(Z + "deflate::flush_pending")
    if ck.anchor("fn flush_pending", fp):
        ck.use_fn(fp)
        cs = copies(fp)
        if ck.anchor("copy in flush_pending", len(cs) == 1, where(fp)):
            src, dst, cnt = fp.call_args(cs[0])
            ck.decide(_has_min_over(cnt, "avail_out") and mir.mentions_field(dst, "next_out"), R, "flush_pending",
                      "copy_nonoverlapping(pending, next_out, min(pending.len(), avail_out))",
                      "flush_pending copies %s bytes to next_out: not bounded by min(.., avail_out)" % mir.fmt(cnt, fp)[:160], where(fp, cs[0].line))
            ck.call_sites += 1
    # 2 read_buf_window
    rb = P.fn(Z + "deflate::read_buf_window")
    if ck.anchor("fn read_buf_window", rb):
        ck.use_fn(rb)
        cs = rb.live_calls(r"deflate::window::Window::copy_and_initialize$")
        ck.floor(R + ":read_buf_window", len(cs), 1)
        for i, c in enumerate(cs):
            a = rb.call_args(c)
            rng = a[1]
            ok = _has_min_over(rng, "avail_in") and mir.mentions_field(a[2], "next_in")
            ck.decide(ok, R, "read_buf_window#%d" % i, "range length min(avail_in, size), source next_in",
                      "read_buf_window copies from next_in a range not bounded by min(avail_in, size): %s" % mir.fmt(rng, rb)[:160], where(rb, c.line))
            ck.call_sites += 1
    # 3 read_buf_direct_copy
    rd = P.fn(Z + "deflate::algorithm::stored::read_buf_direct_copy")
    if ck.anchor("fn read_buf_direct_copy", rd):
        ck.use_fn(rd)
        cs = copies(rd)
        ck.floor(R + ":read_buf_direct_copy", len(cs), 3)
        for i, c in enumerate(cs):
            src, dst, cnt = rd.call_args(c)
            ck.decide(_has_min_over(cnt, "avail_in"), R, "read_buf_direct_copy#%d" % i, "count min(avail_in, size)",
                      "read_buf_direct_copy copies %s bytes: not bounded by min(avail_in, size)" % mir.fmt(cnt, rd)[:120], where(rd, c.line))
            ck.call_sites += 1
    # 4 deflate_stored: window -> next_out
    ds = P.fn(Z + "deflate::algorithm::stored::deflate_stored")
    if ck.anchor("fn deflate_stored", ds):
        ck.use_fn(ds)
        cs = [c for c in copies(ds) if mir.mentions_field(ds.call_args(c)[1], "next_out")]
        if ck.anchor("window->next_out copy in deflate_stored", len(cs) == 1, where(ds)):
            src, dst, cnt = ds.call_args(cs[0])
            margs = _min_args(cnt)
            uses_len = any(any(atoms.leaf_name(a, ds) == "len" for a in args) for args in margs)
            # len itself is min(len, have) with have derived from avail_out
            len_ok = False
            have_ok = False
            for l, ds_ in ds.defs.items():
                nm = ds.local_name(l)
                for bi, si, rv in ds_:
                    if rv is None or bi not in ds.live:
                        continue
                    e = ds.call_expr(rv) if si == "call" else ds.rvalue_expr(rv)
                    if nm == "len" and any(any(atoms.leaf_name(a, ds) == "have" for a in args) for args in ([e[2]] if e[0] == "call" and isinstance(e[1], str) and e[1].endswith("::min") else [])):
                        len_ok = True
                    if nm == "have" and mir.mentions_field(e, "avail_out") and any(x[0] == "bin" and x[1] == "Sub" for x in mir.walk(e)):
                        have_ok = True
            ck.decide(uses_len and len_ok and have_ok, R, "deflate_stored:window-copy",
                      "count = min(left, len), len = min(len, have), have = avail_out - header",
                      "deflate_stored copies from the window to next_out without the min(left, len)/min(len, have) bound chain "
                      "(count %s; len bounded by have: %s; have from avail_out: %s)" % (mir.fmt(cnt, ds)[:100], len_ok, have_ok), where(ds, cs[0].line))
            ck.call_sites += 1
        # stored block header size: 3 header bits, padding to a byte boundary, LEN and NLEN =
        # ceil((bits_valid + 3) / 8) + 4 bytes = (bits_valid + 42) / 8; every place that reserves room for it must agree
        hdr = []
        for bi, si, lhs, rv, s in ds.assignments():
            e = mir.strip_casts(ds.rvalue_expr(rv))
            if e[0] == "bin" and e[1] in ("Div", "Shr") and mir.mentions_field(e[2], "bits_valid"):
                hdr.append((e, s.get("line")))
            elif e[0] == "bin" and mir.mentions_field(e, "bits_valid") and e[1] in ("Add", "AddWithOverflow") and not any(
                    x[0] == "bin" and x[1] in ("Div", "Shr") and atoms.cval(x[3]) in (8, 3) and atoms.cval(mir.strip_casts(x[2])[3] if mir.strip_casts(x[2])[0] == "bin" else ("c", None)) == 42
                    for x in mir.walk(e) if x[0] == "bin" and x[1] in ("Div", "Shr")):
                # some other arithmetic on bits_valid that yields a byte count (e.g. bits_valid / 8 + 5)
                if any(x[0] == "bin" and x[1] in ("Div", "Shr") for x in mir.walk(e)):
                    hdr.append((e, s.get("line")))
        okh = []
        for e, ln in hdr:
            inner = mir.strip_casts(e[2]) if e[1] in ("Div", "Shr") else None
            good = (inner is not None and inner[0] == "bin" and inner[1] in ("Add", "AddWithOverflow") and mir.mentions_field(inner[2], "bits_valid")
                    and atoms.cval(inner[3]) == 42 and ((e[1] == "Div" and atoms.cval(e[3]) == 8) or (e[1] == "Shr" and atoms.cval(e[3]) == 3)))
            okh.append(good)
            if not good:
                ck.bad("ATOM/stored-header-bytes", "deflate_stored:header-size-expr", "deflate_stored reserves `%s` bytes for the stored-block header; the header takes "
                       "(bits_valid + 42) / 8 bytes (3 header bits, padding to a byte, LEN, NLEN): with 6 or 7 pending bits the copy that follows overruns "
                       "next_out by the difference" % mir.fmt(e, ds)[:90], where(ds, ln))
        ck.floor("ATOM/stored-header-bytes", len(hdr), 2)
        if hdr and all(okh):
            ck.ok("ATOM/stored-header-bytes", "deflate_stored", "%d sites reserve (bits_valid + 42) / 8 header bytes" % len(hdr))
        # header room test
        ok = False
        for a, b, tb in atoms.all_atoms(ds):
            s = sig.sig(a, ds)
            if s.rel in ("Lt", "Le") and "avail_out" in s.names and "have" in s.names:
                ok = True
        ck.decide(ok, R, "deflate_stored:header-room", "breaks when avail_out < header bytes",
                  "deflate_stored no longer tests avail_out against the header size before subtracting", where(ds))
    # 5 Window::copy_and_initialize
    wc = P.fn(Z + "deflate::window::Window::copy_and_initialize")
    if ck.anchor("fn deflate Window::copy_and_initialize", wc):
        ck.use_fn(wc)
        cs = copies(wc)
        if ck.anchor("copy in copy_and_initialize", len(cs) == 1, where(wc)):
            src, dst, cnt = wc.call_args(cs[0])
            idx = bool(mir.calls_in(dst, r"index_mut$|IndexMut"))
            cn = mir.strip_casts(cnt)
            rngcnt = cn[0] == "bin" and cn[1] == "Sub" and mir.mentions_field(cn[2], "end") and mir.mentions_field(cn[3], "start")
            ck.decide(idx and rngcnt, R, "Window::copy_and_initialize", "destination is a checked sub-slice, count = end - start",
                      "copy_and_initialize does not index the window slice with the range before the raw copy (dst %s, count %s)"
                      % (mir.fmt(dst, wc)[:100], mir.fmt(cnt, wc)[:60]), where(wc, cs[0].line))
            ck.call_sites += 1
    get_dictionary_guard(ck, P, R)


def get_dictionary_guard(ck, P, R):
    """deflateGetDictionary copies min(strstart + lookahead, w_size) bytes (one window at most) ending at the current
    position, and returns that count"""
    gd = P.fn(Z + "deflate::get_dictionary")
    if ck.anchor("fn deflate::get_dictionary", gd):
        ck.use_fn(gd)
        cs = copies(gd)
        if ck.anchor("copy in deflate::get_dictionary", len(cs) == 1, where(gd)):
            src, dst, cnt = gd.call_args(cs[0])
            ck.decide(_has_min_over(cnt, "w_size") and _has_min_over(cnt, "strstart"), R, "deflate::get_dictionary",
                      "count = min(strstart + lookahead, w_size)", "get_dictionary copies %s bytes: not min(strstart+lookahead, w_size)" % mir.fmt(cnt, gd)[:120],
                      where(gd, cs[0].line))
            ss = shape.dominating_sigs(gd, cs[0].bb)
            ck.decide(any(s.kind == "truth" and s.truth is False and "dictionary" in s.names for s in ss), R, "deflate::get_dictionary:null",
                      "skipped for a null destination", "get_dictionary copies without testing the destination for null", where(gd, cs[0].line))
            # source = window + (strstart + lookahead - len): the bytes that end at the current position
            okoff = mir.mentions_field(src, "strstart") and mir.mentions_field(src, "lookahead") and \
                any(x[0] == "bin" and x[1] in ("Sub", "SubWithOverflow") for x in mir.walk(src))
            ck.decide(okoff, R, "deflate::get_dictionary:source", "source = window + (strstart + lookahead - len)",
                      "get_dictionary copies from %s: not the bytes that end at the current position" % mir.fmt(src, gd)[:120], where(gd, cs[0].line))
            ck.call_sites += 1


def lint(ck, P):
    R = "LINT/forbid-unsafe"
    for mod in FORBID_MODULES:
        fns = [f for f in P.fns.values() if f.module == mod]
        if not ck.anchor("module " + mod, len(fns) >= 1):
            continue
        bad = [f for f in fns if f.j.get("unsafe_code_lint") != "Forbid"]
        ck.decide(not bad, R, mod.replace(Z, ""), "%d functions under forbid(unsafe_code)" % len(fns),
                  "#![forbid(unsafe_code)] is no longer in force in %s (e.g. %s has level %s): unchecked accesses become possible in a "
                  "match-finding driver" % (mod, bad[0].path if bad else "", bad[0].j.get("unsafe_code_lint") if bad else ""),
                  where(bad[0]) if bad else None)
        # and indeed: no unsafe fn, no raw deref calls
        uns = [f for f in fns if f.is_unsafe]
        ck.decide(not uns, R, mod.replace(Z, "") + ":no-unsafe-fn", "no unsafe fn", "unsafe fn %s in a forbid(unsafe_code) module" % (uns[0].path if uns else ""))
    # crate-level unsafe_op_in_unsafe_fn = deny
    bad = [f for f in P.fns.values() if f.crate == "zlib_rs" and f.j.get("unsafe_op_lint") not in ("Deny", "Forbid")]
    ck.decide(not bad, "LINT/unsafe-op-in-unsafe-fn", "zlib_rs", "deny(unsafe_op_in_unsafe_fn) for all functions",
              "unsafe_op_in_unsafe_fn is no longer denied (e.g. %s)" % (bad[0].path if bad else ""))


def _uses_of(fn, loc):
    """(bb, kind, node) for every operand reading the whole local `loc`"""
    out = []

    def scan(node, bb, ctx):
        if isinstance(node, dict):
            if node.get("l") == loc and node.get("k") in ("copy", "move") and not node.get("p"):
                out.append((bb, ctx))
            for k, v in node.items():
                if k != "lhs":
                    scan(v, bb, ctx)
        elif isinstance(node, list):
            for v in node:
                scan(v, bb, ctx)
    for bi in fn.live:
        b = fn.blocks[bi]
        for st in b["s"]:
            scan(st.get("rv"), bi, ("stmt", st))
        scan({k: v for k, v in b["t"].items() if k != "dest"}, bi, ("term", b["t"]))
    return out


def signed_offsets(ck, P):
    """block_start is signed and becomes negative when fill_window slides the window while a block is open.  Its use
    as a window offset (`block_start as usize`) in any function that can run in an algorithm which calls fill_window
    must therefore be conditional on `block_start >= 0` (dominating test, or `(block_start >= 0).then_some(..)`)."""
    R = "GUARD/signed-offset"
    FIELD = "block_start"
    # who can make it negative: a subtraction from the field that is not guarded by a comparison of the field
    neg = set()
    for f in P.fns.values():
        if f.crate != "zlib_rs" or f.is_promoted:
            continue
        for bi, fp, root, rv, st in f.field_writes():
            if fp[-1] != FIELD:
                continue
            e = mir.strip_casts(rv)
            sub = (e[0] == "bin" and e[1] in ("Sub", "SubWithOverflow")) or \
                  (e[0] == "call" and isinstance(e[1], str) and re.search(r"::(wrapping_sub\w*|sub|checked_sub\w*)$", e[1]))
            if not sub or not mir.mentions_field(e, FIELD):
                continue
            guarded = any(FIELD in sig.sig(a, f).names and sig.sig(a, f).rel in ("Le", "Lt") for a in f.dominating_atoms(bi))
            if not guarded:
                neg.add(f.path)
    if not ck.anchor("a writer that can make block_start negative (fill_window)", bool(neg)):
        return
    roots = sorted(f.path for f in P.fns.values() if re.search(r"deflate::algorithm::\w+::deflate_\w+$", f.path) and not f.is_promoted)
    ck.floor(R + ":algorithms", len(roots), 6)
    exposed = set()
    for r in roots:
        reach = P.reachable_from([r])
        if reach & neg:
            exposed |= reach
    n = 0
    for f in sorted(P.fns.values(), key=lambda f: f.path):
        if f.crate != "zlib_rs" or f.is_promoted or f.path not in exposed:
            continue
        for bi, si, lhs, rv, st in f.assignments():
            if not (rv.get("k") == "cast" and rv.get("ty") == "usize" and rv.get("from_ty") == "isize") or lhs.get("p"):
                continue
            e = f.rvalue_expr(rv)
            inner = mir.strip_casts(e)
            root, fp = mir.field_path(inner)
            if not fp or fp[-1] != FIELD:
                continue
            n += 1
            ck.use_fn(f)
            t = lhs["l"]
            bad_uses = []
            for ub, (kind, node) in _uses_of(f, t):
                if any(FIELD in sig.sig(a, f).names and sig.sig(a, f).rel == "Le" and 0 in sig.sig(a, f).lo_consts
                       for a in f.dominating_atoms(ub)):
                    continue
                if kind == "term" and node.get("k") == "call":
                    ce = f.call_expr(node)
                    if isinstance(ce[1], str) and ce[1].endswith("bool::then_some") and len(ce[2]) == 2:
                        c0 = mir.strip_casts(ce[2][0])
                        if c0[0] == "bin" and c0[1] == "Ge" and mir.mentions_field(c0[2], FIELD) and f.const_of(c0[3]) == 0:
                            continue
                        if c0[0] == "bin" and c0[1] == "Le" and mir.mentions_field(c0[3], FIELD) and f.const_of(c0[2]) == 0:
                            continue
                bad_uses.append(ub)
            ck.decide(not bad_uses, R, "%s:%s-as-usize" % (f.path.replace(Z, ""), FIELD),
                      "used only under block_start >= 0",
                      "%s turns the signed block_start into a window offset without a `block_start >= 0` condition; the field is "
                      "negative after fill_window (%s) slid the window over an open block, so the offset is out of range "
                      "(abort in a slice index, or a stored block emitted from the wrong bytes)"
                      % (f.path.replace(Z, ""), ", ".join(sorted(x.replace(Z, "") for x in neg))), where(f, st.get("line")))
    ck.floor(R, n, 1)


def slide_order(ck, P, R="ORDER/slide-rebase"):
    """fill_window's slide rebases strstart by the window size and then clamps `insert` to the rebased strstart
    (zlib: `s->strstart -= wsize; ... if (s->insert > s->strstart) s->insert = s->strstart;`).  A clamp evaluated against
    the un-rebased strstart never takes effect, and `strstart - insert` underflows a few lines later."""
    fn = P.fn(Z + "deflate::fill_window")
    if not ck.anchor("fn deflate::fill_window", fn):
        return
    ck.use_fn(fn)
    reb, clamp = [], []
    for bi, si, lhs, rv, st in fn.assignments():
        pe = fn.place_expr(lhs)
        root, fp = mir.field_path(pe)
        if not fp:
            continue
        e = fn.rvalue_expr(rv)
        if fp[-1] == "strstart" and coup_adjust("strstart", e) == -1:
            reb.append((bi, si, st))
        if fp[-1] == "insert" and mir.mentions_field(e, "strstart") and coup_adjust("insert", e) is None:
            clamp.append((bi, si, st))
    for c in fn.live_calls(r"::min$"):
        if c.dest and fn.place_expr(c.dest) and mir.field_path(fn.place_expr(c.dest))[1][-1:] == ("insert",) \
                and any(mir.mentions_field(a, "strstart") for a in fn.call_args(c)):
            clamp.append((c.bb, 10 ** 6, c.raw))
    if not (ck.anchor("rebase `strstart -= wsize` in fill_window", len(reb) == 1, where(fn)) and
            ck.anchor("clamp of `insert` against strstart in fill_window", len(clamp) >= 1, where(fn))):
        return
    rb, rs, rst = reb[0]
    for i, (cb, cs_, cst) in enumerate(clamp):
        after = (cb == rb and (cs_ if isinstance(cs_, int) else 10 ** 6) > (rs if isinstance(rs, int) else -1)) or (cb != rb and fn.dominates(rb, cb))
        ck.decide(after, R, "fill_window:insert-clamp#%d" % i, "evaluated after strstart was rebased",
                  "fill_window clamps `insert` against strstart before strstart has been rebased by the window size: the clamp has no "
                  "effect and `strstart - insert` can underflow (abort) once the pending inserts exceed the rebased position",
                  where(fn, cst.get("line") if isinstance(cst, dict) else None))


def coup_adjust(field, e):
    from .. import coup
    a = coup.adjustment(field, e)
    return a[0] if a else None


def run(ck):
    P = prog("K1")
    ck.configs.add("K1")
    # round 10: the copy's symbol buffer is the whole buffer (push_lit relies on zero distance bytes)
    from . import c14 as _c14w
    _c14w.whole_buffer_clones(ck, P)
    # the two header-CRC bytes are written only when both fit (Pending::extend asserts the room; round 9)
    from . import c20 as _c20s
    _c20s.resume_from_gzindex(ck, P)
    roots = compress_roots(P)
    ck.floor("ABORT:roots", len(roots), 25)
    api = {f.path for f in P.fns.values() if f.crate == "zlib_rs" and f.j.get("vis") == "Public" and P.callers_of(f.path) & set(roots)}
    abort.check(ck, P, roots, "ABORT/compress", abort_table.JUSTIFIED, api_fns=api, label="compression")
    from .. import condparity
    from .. import guards as _g
    _g.finished_early_return(ck, P)
    _g.prime_room(ck, P)
    from .. import taint as _t
    _t.api_int_arith(ck, P, roots)
    ck.floor("SIB/ref-conditions", condparity.check(ck, P, "SIB/ref-conditions", only={"deflate.c:deflateSetDictionary", "deflate.c:lm_init", "deflate.c:deflateReset", "deflate.c:deflateResetKeep", "deflate_fast.c:deflate_fast", "deflate_slow.c:deflate_slow", "deflate_medium.c:deflate_medium", "deflate_medium.c:emit_match", "deflate_medium.c:insert_match", "deflate_medium.c:fizzle_matches", "deflate_quick.c:deflate_quick", "deflate_rle.c:deflate_rle", "deflate_huff.c:deflate_huff", "match_tpl.h:LONGEST_MATCH", "deflate.c:flush_pending", "deflate.c:read_buf", "deflate.c:deflate", "deflate_stored.c:deflate_stored", "deflate.c:fill_window"}), 50)
    guards(ck, P)
    signed_offsets(ck, P)
    slide_order(ck, P)
    from . import c12 as _c12, c15 as _c15
    _c12.heuristics(ck, P, __import__("oracles.zlibng_ref", fromlist=["load"]).load(), only={"quick:pending-room"})
    _c15.avoid_spurious_buferror(ck, P)
    lint(ck, P)
    ck.assumptions += ["rustc MIR, lint levels", "justified-abort table confirmed by reading", "host target x86_64; K1"]


def run_thorough(ck):
    for cfg in ("K2", "K4"):
        P = prog(cfg)
        ck.configs.add(cfg)
        abort.check(ck, P, compress_roots(P), "ABORT/compress@" + cfg, abort_table.JUSTIFIED, api_fns=None, label="compression")
        lint(ck, P)

# session 5 (round 9, D24)
EXPLANATION = EXPLANATION + " " + (
    'SIB/resume-gzindex (shared with C20): the two header-CRC bytes are appended only when the pending buffer has room for both (Pending::extend asserts the room).')

# session 5 (round 10)
EXPLANATION = EXPLANATION + " " + (
    'COPY/whole-buffer (shared with C14): deflateCopy copies the whole symbol buffer (push_lit relies on zero distance bytes).')

# session 5 (round 11)
EXPLANATION = EXPLANATION + " " + (
    'The pins of deflateSetDictionary (round 11, shared with C13/C16): block_start and insert are cleared before a window-sized dictionary is loaded.')
