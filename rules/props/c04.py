"""C04 — decompression outcome is independent of input/output chunking and flush mode.
Decided clause: the duplicated length/distance logic is one specification (sibling fingerprints
agree modulo listed exceptions); every suspension point writes the resume state back; the mode
enum is handled totally; the per-call BufError rule has its documented shape."""
from .. import mir, sig, shape, atoms, flow, decoders
from ..core import where
from ..ctx import prog, Z

EXPLANATION = (
    "SIB: arms Lit, LenExt, Dist, DistExt, Match of dispatch and of len_and_friends have equal fingerprints (error messages, "
    "integer constants in branch atoms, state fields written, vocabulary callees) modulo a frozen exception table; the slow "
    "Len logic and the fast function agree on messages and masks. PAIR/CUT: in len_and_friends every return after the "
    "writer was taken out of self is preceded on all paths by writes of self.mode, self.writer, self.bit_reader; the fast "
    "functions restore bit_reader and writer on their way out; in dispatch every path from an assignment of the local mode to a "
    "return passes a write of self.mode. MODE: the mode switches of dispatch and back cover all variants. ATOM: inflate() turns "
    "Ok into BufError exactly under ((in_read==0 && out_written==0) || flush==Finish). Which copy runs depends on the schedule, "
    "so disagreement or a lost write-back makes two schedules of one input differ. Arithmetic equality inside siblings is not decided. "
    "PAIR/handover-after-suspension: in every arm, after the local `mode` has been set to another arm no input request (need_bits/pull_byte suspension exit) is reachable inside the same arm - otherwise a split input resumes in the successor and skips the rest of the arm. "
    "SIB/arms window-geometry: the fast decoder and both Match arms take the window geometry from the same Window accessors. GUARD/checksum-update (shared with C08).")

CLAIM = dict(
    text="Static sibling-agreement (set fingerprints over MIR arm regions) of the schedule-selected copies of the symbol "
         "decoder, cut-set proofs that every suspension writes the resume state back, totality of the mode switch, and the "
         "shape of the per-call BufError rule. Necessary conditions of chunking independence; value-level equality of the "
         "copies is not decided. "
         "Also: an arm names its successor only after its last input request.",
    note="Trusted: rustc MIR; the sibling exception table (each with a reason) in rules/props/c04.py.",
    technique="sibling fingerprint comparison over MIR arm regions + cut-set (take/restore) analysis",
)

ARMS = ["Lit", "LenExt", "Dist", "DistExt", "Match"]

# exceptions: (kind, arm or '*', side, item) -> reason
SIB_EXCEPT = {
    ("fields", "*", "len_and_friends", "mode"): "restore!() before each return writes the locals back",
    ("fields", "*", "len_and_friends", "bit_reader"): "restore!()",
    ("fields", "*", "len_and_friends", "writer"): "restore!()",
    ("calls", "*", "dispatch", "State::inflate_leave"): "dispatch leaves through inflate_leave; len_and_friends returns ControlFlow",
    ("calls", "Dist", "dispatch", "State::dist_table_get"): "dispatch indexes through the accessor; len_and_friends hoists the table slice",
    ("calls", "*", "len_and_friends", "ControlFlow::Break"): "return type",
    ("calls", "*", "dispatch", "State::bad"): "dispatch sets mode via bad(); same message set is compared separately",
    ("calls", "*", "len_and_friends", "State::bad"): "as above",
}


# table accessors of State: whether an arm goes through the accessor, indexes the slice it returns, or uses a slice that
# was hoisted out of the loop is a matter of spelling, not of what the arm decodes
ACCESSORS = {"State::dist_table_get", "State::len_table_get", "State::dist_table_ref", "State::len_table_ref"}


def _exc(kind, arm, side, item):
    if kind == "calls" and item in ACCESSORS:
        return True
    return (kind, arm, side, item) in SIB_EXCEPT or (kind, "*", side, item) in SIB_EXCEPT


_CMP_NOISE = {"Writer::new", "replace", "take", "swap"}


def _arm_cmps(fn, blocks):
    from .. import condparity as CP
    out = set()
    for a, b, tb in atoms.all_atoms(fn):
        if b not in blocks:
            continue
        g = sig.sig(a, fn)
        st = CP.structural(g)
        calls = tuple(c for c in st["calls"] if c not in _CMP_NOISE)
        if any(c.endswith(("pull_byte", "need_bits")) for c in calls):
            continue
        if not (st["names"] or calls):
            continue
        cls = "ord" if g.rel in CP.ORD_RELS else "eq"
        # an ordering against one constant in canonical form: the threshold t of `x >= t` (or of its negation), so that
        # `x > 286` and `x >= 287` are one decision
        if g.rel in ("Le", "Lt") and bool(g.lo_consts) != bool(g.hi_consts):
            ks = [k_ for k_ in (g.lo_consts or g.hi_consts) if isinstance(k_, int)]
            if len(ks) == 1:
                k_ = ks[0]
                t_ = k_ if (g.rel, bool(g.lo_consts)) in (("Le", True), ("Lt", False)) else k_ + 1
                st = dict(st)
                st["consts"] = [str(t_)]
        # a named constant (`MAX_DIST_SYMBOLS`) and the literal it stands for are the same decision
        names = tuple(n_ for n_ in st["names"] if not (n_.isupper() or (n_[:1].isupper() and "_" in n_ and n_.upper() == n_)))
        if not (names or calls):
            continue
        out.add((cls, calls, names, tuple(st["consts"]), tuple(st.get("variants", ()))))
    return out


def siblings(ck, P):
    R = "SIB/arms"
    d = P.fn(decoders.DISPATCH)
    l = P.fn(decoders.LEN_AND_FRIENDS)
    if not (ck.anchor("fn dispatch", d) and ck.anchor("fn len_and_friends", l)):
        return
    ck.use_fn(d)
    ck.use_fn(l)
    rd = decoders.mode_regions(d, 20)
    rl = decoders.mode_regions(l, 4)
    if not (ck.anchor("mode switch of dispatch", rd) and ck.anchor("mode switch of len_and_friends", rl)):
        return
    for arm in ARMS:
        if not (ck.anchor("arm %s in dispatch" % arm, arm in rd and len(rd[arm]) > 1) and ck.anchor("arm %s in len_and_friends" % arm, arm in rl and len(rl[arm]) > 1)):
            continue
        a = decoders.arm_fingerprint(d, rd[arm])
        b = decoders.arm_fingerprint(l, rl[arm])
        for kind in ("fields", "consts", "calls", "msgs"):
            only_d = {x for x in a[kind] - b[kind] if not _exc(kind, arm, "dispatch", x)}
            only_l = {x for x in b[kind] - a[kind] if not _exc(kind, arm, "len_and_friends", x)}
            inst = "%s:%s" % (arm, kind)
            ck.decide(not only_d and not only_l, R, inst, "equal (%d items)" % len(a[kind] & b[kind]),
                      "the two copies of arm %s disagree on %s: only in dispatch %s, only in len_and_friends %s — a schedule that suspends "
                      "inside this arm decodes differently from one that does not" % (arm, kind, sorted(map(str, only_d)), sorted(map(str, only_l))),
                      where(d))
        ck.sample("arm %s: fields %s consts %s" % (arm, sorted(a["fields"]), sorted(a["consts"])))
        # the decisions of the two copies: comparisons over state fields and vocabulary calls (working locals excluded; the
        # suspension machinery and the local copy of the writer differ by construction)
        ca, cb = _arm_cmps(d, rd[arm]), _arm_cmps(l, rl[arm])
        ck.decide(ca == cb, R, "%s:decisions" % arm, "same comparisons (%d)" % len(ca & cb),
                  "the two copies of arm %s decide differently: only in dispatch %s, only in len_and_friends %s - a schedule that suspends "
                  "inside this arm decodes differently from one that does not" % (arm, sorted(ca - cb), sorted(cb - ca)), where(d))
    # Len (slow) vs fast function: masks and messages
    f = P.fn(decoders.FAST)
    if ck.anchor("fn inflate_fast_help_impl", f) and "Len" in rl:
        ck.use_fn(f)
        lenfp = decoders.arm_fingerprint(l, set().union(*[rl[a] for a in ("Len", "Dist", "DistExt", "Match", "LenExt", "Lit") if a in rl]))
        fastfp = decoders.arm_fingerprint(f, f.live)
        need_masks = {16, 32, 64}
        ck.decide(need_masks <= fastfp["consts"] and need_masks <= lenfp["consts"] | {16}, R, "Len~fast:masks", "op masks 16/32/64 in both",
                  "the fast decoder and the slow Len logic do not test the same op masks (fast %s)" % sorted(c for c in fastfp["consts"] if c < 300))
        msgs_l = {m for m in lenfp["msgs"] if m.startswith("invalid")}
        msgs_f = {m for m in fastfp["msgs"] if m.startswith("invalid")}
        ck.decide(msgs_l == msgs_f, R, "Len~fast:msgs", "same rejection messages %s" % sorted(msgs_l),
                  "slow and fast symbol decoders reject different things: slow only %s, fast only %s" % (sorted(msgs_l - msgs_f), sorted(msgs_f - msgs_l)))
    # window geometry: the fast decoder and the slow Match arms locate the source of a match in the same window, so they
    # take its size / write position / fill from the same place (the Window object) - never from a second derivation
    def geometry(fn, blocks):
        src = set()
        for c in fn.live_calls(r"window::Window::\w+$"):
            if c.bb in blocks:
                src.add("Window::" + c.callee.split("::")[-1])
        for bi, si, lhs, rv, st in fn.assignments():
            if bi in blocks and mir.mentions_field(fn.rvalue_expr(rv), "wbits"):
                src.add("state.wbits")
        return src
    if f and "Match" in rl and "Match" in rd:
        gs = {"dispatch:Match": geometry(d, rd["Match"]), "len_and_friends:Match": geometry(l, rl["Match"]), "fast": geometry(f, f.live)}
        ref_g = gs["len_and_friends:Match"]
        for k, g in gs.items():
            ck.decide(g == ref_g and bool(g), R, "window-geometry:" + k, "window geometry from %s" % sorted(g),
                      "the match copy in %s takes the window geometry from %s, the slow Match arm from %s: the copies locate a match's "
                      "source differently (it shows once the window has wrapped, i.e. only for some chunkings)" % (k, sorted(g), sorted(ref_g)),
                      where(f if k == "fast" else (d if k.startswith("dispatch") else l)))
    fb = P.fn(decoders.FAST_BACK)
    if f and fb:
        a = decoders.arm_fingerprint(f, f.live)
        b = decoders.arm_fingerprint(fb, fb.live)
        ck.decide(a["msgs"] == b["msgs"] and a["consts"] == b["consts"], R, "fast~fast_back", "same messages and constants",
                  "inflate_fast_help_impl and inflate_fast_back differ: msgs %s / consts %s" % (sorted(a["msgs"] ^ b["msgs"]), sorted(a["consts"] ^ b["consts"])))


def _blocks_writing(fn, field, root_param=1):
    out = set()
    for bi, fp, root, rv, s in fn.field_writes():
        if fp[-1:] == (field,) and len(fp) == 1 and root == ("p", root_param):
            out.add(bi)
    return out


def write_back(ck, P):
    R = "PAIR/write-back"
    l = P.fn(decoders.LEN_AND_FRIENDS)
    if l:
        takes = [c for c in l.live_calls(r"core::mem::replace$") if mir.field_path(l.call_args(c)[0])[1][-1:] == ("writer",)]
        if ck.anchor("mem::replace(&mut self.writer, ..) in len_and_friends", len(takes) == 1, where(l)):
            t = takes[0]
            rets = [b for b, k in l.exits() if k == "return"]
            for field in ("mode", "writer", "bit_reader"):
                wb = _blocks_writing(l, field)
                leak = flow.reaches_avoiding(l, [t.target], rets, cut_blocks=wb)
                ck.decide(not leak and bool(wb), R, "len_and_friends:" + field, "%d write-back sites cut every path to return" % len(wb),
                          "len_and_friends can return after taking the writer out of self without writing self.%s back: the resume "
                          "state is lost for schedules that suspend there" % field, where(l))
            n_wb = len(_blocks_writing(l, "writer"))
            ck.floor(R + ":len_and_friends:restore-sites", n_wb, 12)
    for path in (decoders.FAST, decoders.FAST_BACK):
        f = P.fn(path)
        if not ck.anchor("fn " + path, f):
            continue
        swaps = f.live_calls(r"core::mem::(swap|replace|take)$")
        ck.decide(len(swaps) == 2, R, path.replace(Z, "") + ":swaps", "bit_reader and writer taken out of the state at entry (mem::swap/replace/take)",
                  "expected the two state members (bit_reader, writer) to be taken out with mem::swap/replace/take, found %d such calls" % len(swaps), where(f))
        rets = [b for b, k in f.exits() if k == "return"]
        for field in ("bit_reader", "writer"):
            wb = set()
            for bi, fp, root, rv, s in f.field_writes():
                if fp == (field,) and root == ("p", 1):
                    wb.add(bi)
            start = swaps[-1].target if swaps else 0
            leak = flow.reaches_avoiding(f, [start], rets, cut_blocks=wb)
            ck.decide(not leak and bool(wb), R, path.replace(Z, "") + ":" + field, "restored on every exit",
                      "%s can return without storing %s back into the state" % (path, field), where(f))
    d = P.fn(decoders.DISPATCH)
    if d:
        # kill blocks: assignments of a Mode constant to the local `mode`
        loc = None
        for i, lc in enumerate(d.locals):
            if lc.get("name") == "mode" and "inflate::Mode" in lc["ty"]:
                loc = i
                break
        if ck.anchor("local mode in dispatch", loc is not None):
            kills = {bi for bi, si, rv in d.defs.get(loc, []) if bi in d.live and rv is not None and si != "call"
                     and d.enum_const(d.rvalue_expr(rv)) is not None}
            wb = _blocks_writing(d, "mode")
            rets = [b for b, k in d.exits() if k == "return"]
            leaks = [k for k in sorted(kills) if flow.reaches_avoiding(d, [k], rets, cut_blocks=wb - {k})]
            ck.floor(R + ":dispatch:mode-assignments", len(kills), 20)
            ck.decide(not leaks and bool(wb), R, "dispatch:mode", "%d assignments of the local mode, each followed by self.mode = mode before any return" % len(kills),
                      "dispatch can return after `mode = …` (lines %s) without `self.mode = mode`" % sorted({d.blocks[k]["s"][0].get("line") if d.blocks[k]["s"] else None for k in leaks})[:5],
                      where(d))
            ck.rule_counts[R + ":dispatch"] = {"matched": len(kills), "floor": 40, "write_back_sites": len(wb)}


def resume_atomicity(ck, P):
    """A suspension (need_bits / pull_byte running out of input) re-enters the same arm from its top on the
    next call.  So between a checkpoint (arm entry, or the success edge of the previous need_bits/pull_byte) and
    a suspension exit, input bits may be consumed (drop_bits/advance/init_bits) only together with a write of
    persistent state that records the progress; otherwise the consumed symbol is lost for exactly the schedules
    that suspend there."""
    R = "PAIR/resume-atomicity"
    for path, mt in ((decoders.DISPATCH, 20), (decoders.LEN_AND_FRIENDS, 4)):
        fn = P.fn(path)
        if not ck.anchor("fn " + path, fn):
            continue
        sws = fn.enum_switches("inflate::Mode", mt)
        if not ck.anchor("mode switch in " + path, len(sws) == 1):
            continue
        sw = sws[0]
        sus_calls = fn.live_calls(r"BitReader::(need_bits|pull_byte)$")
        checkpoints = {sw}
        exits = set()
        for c in sus_calls:
            # success / failure edges of the Result switch that follows the call
            cur = c.target
            for _ in range(4):
                t = fn.blocks[cur]["t"]
                if t["k"] == "switch":
                    for lab, tb in fn.succ[cur]:
                        if lab is None or lab[0] == "const":
                            continue
                        for a in fn.edge_atoms(cur, lab):
                            if a[0] != "is":
                                continue
                            vs = set(a[2])
                            # (`pull_byte()?` in an extracted helper tests the ControlFlow that Try::branch makes of the Result)
                            if (a[3] and vs in ({"Ok"}, {"Continue"})) or (not a[3] and vs in ({"Err"}, {"Break"})):
                                checkpoints.add(tb)
                            elif (a[3] and vs in ({"Err"}, {"Break"})) or (not a[3] and vs in ({"Ok"}, {"Continue"})):
                                exits.add(tb)
                    break
                su = fn.succ[cur]
                if len(su) != 1:
                    break
                cur = su[0][1]
        ck.floor(R + ":suspension-points:" + path.split("::")[-1], len(exits), 20 if mt == 20 else 6)
        drops = {c.bb for c in fn.live_calls(r"BitReader::(drop_bits|advance|init_bits)$")}
        commits = set()
        for bi, fp, root, rv, s in fn.field_writes():
            # `back` only counts bits for inflateMark: it records no progress that a re-entry of the arm would pick up
            if root == ("p", 1) and fp[0] not in ("bit_reader", "mode", "back"):
                commits.add(bi)
        for c in fn.live_calls(r"Writer::(push|extend|extend_from_window|copy_match)$|Flags::update$"):
            commits.add(c.bb)
        # local mode changes hand over to another arm: also a commit
        for i, lc in enumerate(fn.locals):
            if lc.get("name") == "mode" and "inflate::Mode" in lc["ty"]:
                for bi, si, rv in fn.defs.get(i, []):
                    if bi in fn.live and rv is not None and si != "call" and fn.enum_const(fn.rvalue_expr(rv)) is not None:
                        commits.add(bi)
        bad = []
        for start in sorted(checkpoints):
            # search (block, dropped, committed)
            seen = set()
            first = (start in drops, start in commits)
            work = [(tb, first[0], first[1]) for lab, tb in fn.succ[start]]
            while work:
                b, d, cm = work.pop()
                if (b, d, cm) in seen:
                    continue
                seen.add((b, d, cm))
                d2 = d or (b in drops)
                c2 = cm or (b in commits)
                if b in exits:
                    if d2 and not c2:
                        bad.append((start, b))
                    continue
                if b in checkpoints:
                    continue
                for lab, tb in fn.succ[b]:
                    work.append((tb, d2, c2))
        short = path.split("::")[-1]
        if bad:
            lines = sorted({fn.blocks[b]["t"].get("line") for _, b in bad if fn.blocks[b]["t"].get("line")})
            ck.bad(R, short, "%s can suspend (run out of input) after consuming bits without having recorded the progress in the state "
                            "(suspension exits near lines %s): on the next call the arm restarts from its top and the consumed symbol is lost — "
                            "the outcome then depends on where the input was split" % (short, lines[:4]), where(fn, lines[0] if lines else None))
        else:
            ck.ok(R, short, "%d suspension exits, %d checkpoints: bits are consumed before a suspension only together with a state commit" % (len(exits), len(checkpoints)))


def suspension_structure(fn, mt):
    """(switch block, checkpoints, suspension exits) of a mode loop"""
    sws = fn.enum_switches("inflate::Mode", mt)
    if len(sws) != 1:
        return None
    sw = sws[0]
    checkpoints, exits = {sw}, set()
    for c in fn.live_calls(r"BitReader::(need_bits|pull_byte)$"):
        cur = c.target
        for _ in range(4):
            t = fn.blocks[cur]["t"]
            if t["k"] == "switch":
                for lab, tb in fn.succ[cur]:
                    if lab is None or lab[0] == "const":
                        continue
                    for a in fn.edge_atoms(cur, lab):
                        if a[0] != "is":
                            continue
                        vs = set(a[2])
                        if (a[3] and vs == {"Ok"}) or (not a[3] and vs == {"Err"}):
                            checkpoints.add(tb)
                        elif (a[3] and vs == {"Err"}) or (not a[3] and vs == {"Ok"}):
                            exits.add(tb)
                break
            su = fn.succ[cur]
            if len(su) != 1:
                break
            cur = su[0][1]
    return sw, checkpoints, exits


def handover_after_suspension(ck, P, R="PAIR/handover-after-suspension", arms=None):
    """The local `mode` is what a suspension writes back to the state.  An arm that names its successor
    (`mode = Next`) and can still run out of input afterwards (inside the same arm) is re-entered at `Next` on the
    following call: whatever the arm does after its last input request (compare a trailer, store a length) is skipped
    for exactly the schedules that split the input there."""
    n = 0
    res = {}
    for path, mt in ((decoders.DISPATCH, 20), (decoders.LEN_AND_FRIENDS, 4)):
        fn = P.fn(path)
        if not ck.anchor("fn " + path, fn):
            continue
        st = suspension_structure(fn, mt)
        if not ck.anchor("mode switch in " + path, st is not None):
            continue
        sw, checkpoints, exits = st
        regions = fn.arm_regions(sw)
        short = path.split("::")[-1]
        for i, lc in enumerate(fn.locals):
            if not (lc.get("name") == "mode" and "inflate::Mode" in lc["ty"]):
                continue
            for bi, si, rv in fn.defs.get(i, []):
                if bi not in fn.live or rv is None or si == "call":
                    continue
                ec = fn.enum_const(fn.rvalue_expr(rv))
                if ec is None:
                    continue
                target = P.variant_name(ec[0], ec[1]) if not isinstance(ec[1], str) else ec[1]
                owner = [a for a, blocks in regions.items() if bi in blocks]
                if len(owner) != 1 or owner[0] == target:
                    continue
                if arms is not None and owner[0] not in arms:
                    continue
                n += 1
                leak = flow.reaches_avoiding(fn, [bi], exits, cut_blocks={sw})
                line = fn.blocks[bi]["s"][si].get("line") if isinstance(si, int) else None
                res.setdefault((short, owner[0], target), []).append((leak, line, fn))
    for (short, own, target), lst in sorted(res.items()):
        leaks = [(line, fn) for leak, line, fn in lst if leak]
        ck.decide(not leaks, R, "%s:%s->%s" % (short, own, target),
                  "no input request follows the hand-over inside the arm (%d assignment(s))" % len(lst),
                  "arm %s of %s sets mode = %s and can afterwards still run out of input inside the same arm: the suspension "
                  "stores %s, so the rest of arm %s is skipped when the input is split there" % (own, short, target, target, own),
                  where(leaks[0][1], leaks[0][0]) if leaks else where(lst[0][2], lst[0][1]))
    return n


def voluntary_leave(ck, P, R="PAIR/leave-after-handover"):
    """Besides running out of input, an arm can leave on request: `inflate(.., Z_BLOCK / Z_TREES)` stops at block
    boundaries and after block headers.  Such a leave writes the local `mode` back like a suspension does, so the next
    call re-enters the arm it names.  If the arm consumed input bits before the leave, it must have named its successor
    (`mode = Next`) first - otherwise the next call parses the following bytes as the same header again, and the outcome
    depends on the flush mode."""
    fn = P.fn(decoders.DISPATCH)
    if not ck.anchor("fn " + decoders.DISPATCH, fn):
        return
    sws = fn.enum_switches("inflate::Mode", 20)
    if not ck.anchor("mode switch in dispatch", len(sws) == 1):
        return
    sw = sws[0]
    regions = fn.arm_regions(sw)
    leave_blocks = {c.bb for c in fn.live_calls(r"State::inflate_leave$")}
    drops = {c.bb for c in fn.live_calls(r"BitReader::(drop_bits|advance|init_bits)$")}
    hand = {}
    for i, lc in enumerate(fn.locals):
        if lc.get("name") == "mode" and "inflate::Mode" in lc["ty"]:
            for bi, si, rv in fn.defs.get(i, []):
                if bi in fn.live and rv is not None and si != "call":
                    ec = fn.enum_const(fn.rvalue_expr(rv))
                    if ec is not None:
                        hand.setdefault(bi, set()).add(P.variant_name(ec[0], ec[1]) if not isinstance(ec[1], str) else ec[1])
    n = 0

    def back_to_switch(x):
        return x == sw or flow.reaches_avoiding(fn, [x], {sw})
    for b in sorted(fn.live):
        t = fn.blocks[b]["t"]
        if t["k"] != "switch" or b in fn.debug_branches or b == sw:
            continue
        owner = [a for a, blocks in regions.items() if b in blocks]
        if len(owner) != 1:
            continue
        arm = owner[0]
        entry = [tb2 for _l, tb2 in fn.succ[sw] if tb2 in regions[arm]]
        guarded = {}
        for lab, tb in fn.succ[b]:
            if lab is None or lab[0] == "const":
                continue
            ats = [a for a in fn.edge_atoms(b, lab, expand=True) if a[0] == "is" and a[3] and str(a[4]).endswith("InflateFlush")
                   and isinstance(a[1], tuple) and a[1][0] == "f" and a[1][-1] == "flush"]
            if ats and not back_to_switch(tb):
                guarded.setdefault(tb, set()).update(*[set(a[2]) for a in ats])
        for tb, which in sorted(guarded.items()):
            which = "/".join(sorted(which))
            n += 1
            seen, bad = set(), False
            work = [(e, False, False, False) for e in entry]
            while work:
                x, d, h, past = work.pop()
                if (x, d, h, past) in seen or (not past and x not in regions[arm]):
                    continue
                seen.add((x, d, h, past))
                d2 = d or x in drops
                h2 = h or bool(hand.get(x, set()) - {arm})
                if past and not fn.succ[x]:
                    if d2 and not h2:
                        bad = True
                    continue
                if x == b and not past:
                    work.append((tb, d2, h2, True))
                    for _l, y in fn.succ[x]:
                        if y != tb:
                            work.append((y, d2, h2, False))
                    continue
                for _l, y in fn.succ[x]:
                    work.append((y, d2, h2, past))
            ck.decide(not bad, R, "dispatch:%s:%s" % (arm, which), "bits consumed before the requested leave only after the hand-over",
                      "arm %s of dispatch leaves on request (flush %s) after consuming input bits, with `mode` still %s: the next call re-enters "
                      "%s from its top and parses the following input as the same header again - the outcome depends on the flush mode"
                      % (arm, which, arm, arm), where(fn, t.get("line")))
    ck.floor(R, n, 4)
    return n


def mode_total(ck, P):
    R = "MODE/total"
    adt = P.adt(Z + "inflate::Mode")
    if not ck.anchor("enum inflate::Mode", adt):
        return
    nvar = len(adt["variants"])
    for path in (decoders.DISPATCH, decoders.BACK):
        fn = P.fn(path)
        if not fn:
            continue
        sws = fn.enum_switches("inflate::Mode", 20)
        if not ck.anchor("mode switch in " + path, len(sws) == 1):
            continue
        t = fn.blocks[sws[0]]["t"]
        ck.decide(len(t["targets"]) >= nvar - 1, R, path.replace(Z, ""), "%d of %d variants have explicit targets" % (len(t["targets"]), nvar),
                  "mode switch covers %d of %d Mode variants" % (len(t["targets"]), nvar), where(fn))
    # every Mode constant assigned in dispatch has a non-trivial arm
    d = P.fn(decoders.DISPATCH)
    if d:
        regs = decoders.mode_regions(d, 20) or {}
        produced = set()
        for bi, si, lhs, rv, s in d.assignments():
            e = d.rvalue_expr(rv)
            v = d.enum_const(e)
            if v and v[0].endswith("inflate::Mode"):
                produced.add(v[1])
        missing = [m for m in produced if m not in regs]
        ck.decide(not missing, R, "dispatch:produced", "every produced mode (%d) has an arm" % len(produced), "modes %s are produced but have no arm" % missing, where(d))


def buf_error_shape(ck, P):
    R = "ATOM/buf-error"
    fn = P.fn(Z + "inflate::inflate")
    if not ck.anchor("fn inflate::inflate", fn):
        return
    ck.use_fn(fn)
    sites = []
    for bi, si, lhs, rv, s in fn.assignments():
        if lhs["l"] == 0 and "p" not in lhs:
            v = fn.enum_const(fn.rvalue_expr(rv))
            if v and v[1] == "BufError":
                sites.append(bi)
    if not ck.anchor("BufError result in inflate()", len(sites) == 1, where(fn)):
        return
    # the epilogue condition ((a && b) || c) && d is a disjunction: collect the atoms of the whole
    # epilogue region (everything dominated by the statement after the decoding_state() call)
    ds_calls = fn.live_calls(r"State::decoding_state$")
    if not ck.anchor("decoding_state() call in inflate()", len(ds_calls) == 1, where(fn)):
        return
    start = ds_calls[0].target
    region = {b for b in fn.live if fn.dominates(start, b)}
    ss = []
    for b, lab, tb, ats in atoms.edges(fn):
        if b in region:
            ss.extend(sig.sig(a, fn) for a in ats)
    ck.decide(sites[0] in region, R, "site", "BufError decided in the epilogue", "BufError is produced outside the epilogue of inflate()", where(fn))
    def has(p):
        return any(sig.sym_match(s, p) for s in ss)
    ck.decide(has(dict(rel="Eq", names={"Ok"})), R, "err==Ok", "only an Ok result is turned into BufError",
              "BufError is produced without testing err == Ok", where(fn))
    ck.decide(has(dict(rel="Eq", names={"Finish"})) or has(dict(rel="is", variants={"Finish"})), R, "flush==Finish", "Finish alternative present",
              "the `flush == Finish` alternative of the BufError rule is gone", where(fn))
    zero = [s for s in ss if s.rel == "Eq" and 0 in s.consts]
    names = set()
    for s in zero:
        names |= set(s.names)
    ck.decide({"out_available"} <= names or "total" in names or len(zero) >= 2, R, "no-progress", "in_read == 0 && out_written == 0",
              "the no-progress alternative (in_read == 0 && out_written == 0) of the BufError rule is gone (%d zero tests)" % len(zero), where(fn))


def run(ck):
    P = prog("K1")
    ck.configs.add("K1")
    siblings(ck, P)
    write_back(ck, P)
    resume_atomicity(ck, P)
    n = handover_after_suspension(ck, P)
    ck.floor("PAIR/handover-after-suspension", n, 20)
    # the decoder's decisions are those of the reference
    from .. import condparity as _cp
    ck.floor("SIB/ref-conditions", _cp.check(ck, P, "SIB/ref-conditions", only={"inflate.c:inflate", "inffast_tpl.h:INFLATE_FAST"}), 50)
    voluntary_leave(ck, P)
    mode_total(ck, P)
    buf_error_shape(ck, P)
    from . import c08
    c08.checksum_update_guard(ck, P)
    # what one call leaves in the window is what the next call's matches copy: every part of the output reaches it
    c08.extend_siblings(ck, P)
    ck.assumptions += ["rustc MIR", "sibling exception table (rules/props/c04.py) confirmed by reading", "host target; K1"]

# session 5 (round 10)
EXPLANATION = EXPLANATION + " " + (
    'PAIR/resume-atomicity does not take a store of `back` (the bit count inflateMark reports) for a record of progress: bits consumed before a suspension exit need a store that the re-entered arm picks up.')
