"""C14 — copied streams behave identically and independently; reset equals fresh init.

Decided clause (static, for all histories): field coverage of the reset call chains, field-wise
identity of deflate::copy, pointer re-pointing of inflate::copy.  See DESIGN.md §4 C14.
"""
import re

from .. import mir, flow
from ..core import where
from ..ctx import prog, writes, Z

EXPLANATION = (
    "FIELD rules: (1) every leaf field of deflate::State / inflate::State is written on every path of "
    "the reset call chain (interprocedural must-write dataflow over MIR), or is listed as configuration "
    "or dead-on-reset with its reason; (2) every field of the State aggregate built in deflate::copy is "
    "the same field of the source, or a listed re-pointed buffer built from the new allocation; "
    "(3) inflate::copy overwrites every owning pointer field after the raw struct copy; "
    "(4) the Rust wrappers' reset zero both totals and call the core reset; (5) COPY whole-buffer: each buffer "
    "type's clone_to (Pending, SymBuf, inflate Window) copies, from the first byte of the source buffer, exactly as "
    "many elements as the new buffer is long (SymBuf::push_lit stores one byte per three-byte advance, so bytes "
    "beyond `filled` are read later). Decides the structural "
    "necessary condition only, not behavioural equality. "
    "SIB/ref-writes: deflateResetKeep, inflateResetKeep, inflateReset2, lm_init, lm_set_level assign every field their zlib-ng counterparts assign. "
    "SIB/ref-conditions: the elementary conditions and calls of the zlib-ng functions this code was ported from (oracles/condparity.json, frozen from the vendored C sources) keep a counterpart in the paired zlib-rs function.")

CLAIM = dict(
    text="Static field-coverage proof obligations over MIR: every leaf field of the deflate/inflate state is written on "
         "every success path of the reset call chain or is a listed configuration/dead field; deflateCopy's State "
         "aggregate is field-wise the source or a buffer rebuilt on the new allocation; buffer clones copy the whole "
         "buffer; inflateCopy re-points every owning pointer. Holds for all histories because it is a statement about program text; behavioural equality "
         "of copies/resets beyond this clause is not decided.",
    note="Trusted: rustc's MIR; the classification tables (configuration / dead-on-reset / re-pointed / non-owning) "
         "confirmed by reading, one reason each; host target only.",
    technique="interprocedural must-write dataflow + aggregate field classification over rustc MIR",
)

STOP = (Z + "weak_slice::WeakSliceMut", Z + "weak_slice::WeakArrayMut")

# ---- deflate::State: fields that survive reset by contract, with the reason -------------------
DEFLATE_CONFIG = {
    ("strategy",): "chosen at init/params; survives reset as in zlib",
    ("w_size",): "window size fixed at init",
    ("lit_bufsize",): "fixed at init",
    ("window", "buf"): "allocation",
    ("window", "window_bits"): "fixed at init",
    ("prev",): "allocation (pointer/len); entries are linked only after being written at insertion",
    ("head",): "allocation pointer; contents are cleared (checked separately)",
    ("sym_buf", "buf"): "allocation pointer; contents cleared by SymBuf::clear (checked)",
    ("bit_writer", "pending", "buf"): "allocation",
    ("bit_writer", "pending", "_marker"): "zero-sized marker",
    ("gzhead",): "deflateSetHeader persists over reset, as in zlib",
    ("allocation_start",): "allocation",
    ("total_allocation_size",): "allocation",
    ("_cache_line_0",): "zero-sized marker",
    ("_cache_line_1",): "zero-sized marker",
    ("_cache_line_2",): "zero-sized marker",
    ("_cache_line_3",): "zero-sized marker",
    ("_padding_0",): "padding, never read",
}
# dead on reset: (reason, witness) — witness = (function regex, field path that must be written there)
DEFLATE_DEAD = {
    ("prev_match",): ("only reader deflate_slow, after `prev_match = match_start` at the top of the same iteration",
                      (r"deflate::algorithm::slow::deflate_slow$", ("prev_match",))),
    ("gzindex",): ("zeroed in deflate() when status leaves GZip before its readers (Extra, flush_bytes)",
                   (r"zlib_rs::deflate::deflate$", ("gzindex",))),
    ("crc_fold", "fold", "fold"): ("re-created in reset_keep when wrap==2 and on entering status GZip; unused otherwise",
                                   (r"zlib_rs::deflate::deflate$", ("crc_fold",))),
    ("crc_fold", "value"): ("as crc_fold.fold", (r"zlib_rs::deflate::deflate$", ("crc_fold",))),
    ("l_desc", "dyn_tree"): ("freq cleared by init_block (checked); len/code/dad rebuilt by build_tree before use", None),
    ("d_desc", "dyn_tree"): ("as l_desc", None),
    ("bl_desc", "dyn_tree"): ("as l_desc", None),
    ("l_desc", "max_code"): ("written by build_tree before send_*/compress_block read it",
                             (r"zlib_rs::deflate::build_tree$", ("max_code",))),
    ("d_desc", "max_code"): ("as l_desc", (r"zlib_rs::deflate::build_tree$", ("max_code",))),
    ("bl_desc", "max_code"): ("as l_desc", (r"zlib_rs::deflate::build_tree$", ("max_code",))),
}
# contents that must be cleared on every reset path
DEFLATE_CONTENTS = [("head", "<contents>"), ("sym_buf", "buf", "<contents>")]

INFLATE_CONFIG = {
    ("window", "buf"): "allocation (or caller's buffer for inflateBack)",
    ("chunksize",): "configuration",
    ("allocation_start",): "allocation",
    ("total_allocation_size",): "allocation",
}
INFLATE_PERCALL = {
    ("flush",): "assigned at the top of inflate() before dispatch",
    ("writer", "buf"): "rebuilt at the top of every inflate() call",
    ("writer", "filled"): "rebuilt at the top of every inflate() call",
    ("in_available",): "assigned at the top of inflate()",
    ("out_available",): "assigned at the top of inflate()",
}
INFLATE_DEAD = {
    ("ncode",): "arm Table writes it before LenLens reads",
    ("nlen",): "arm Table writes it before CodeLens reads",
    ("ndist",): "arm Table writes it before CodeLens reads",
    ("have",): "arm Table zeroes it before LenLens; sync writes it on entering Sync",
    ("length",): "ExLen/Stored/Len write before Extra/CopyBlock/LenExt read; Extra and Name end with length=0",
    ("offset",): "written by Dist before DistExt/Match read",
    ("extra",): "written by Len/Dist before LenExt/DistExt read",
    ("was",): "written by LenExt before Match/mark read",
    ("crc_fold", "fold", "fold"): "re-created in arm HCrc / Head before any fold when checking gzip",
    ("crc_fold", "value"): "as crc_fold.fold",
    ("codes_codes",): "filled by inflate_table before Len… read; fixed blocks use the statics",
    ("len_codes",): "as codes_codes",
    ("dist_codes",): "as codes_codes",
    ("lens",): "filled by LenLens/CodeLens before inflate_table reads",
    ("work",): "scratch of inflate_table",
}
# witnesses for inflate dead/per-call classes: field must be written somewhere in these functions
INFLATE_WITNESS = {
    ("ncode",): r"inflate::State::dispatch$", ("nlen",): r"inflate::State::dispatch$",
    ("ndist",): r"inflate::State::dispatch$", ("have",): r"inflate::State::dispatch$",
    ("length",): r"inflate::State::dispatch$", ("offset",): r"inflate::State::dispatch$",
    ("extra",): r"inflate::State::dispatch$", ("was",): r"inflate::State::dispatch$",
    ("flush",): r"zlib_rs::inflate::inflate$", ("in_available",): r"zlib_rs::inflate::inflate$",
    ("out_available",): r"zlib_rs::inflate::inflate$", ("writer", "buf"): r"zlib_rs::inflate::inflate$",
}

# deflate::copy: fields of the State aggregate that are rebuilt rather than copied
COPY_REPOINTED = {
    "window": "Window::from_raw_parts on the new allocation after copying capacity() bytes",
    "prev": "WeakSliceMut::from_raw_parts_mut on the new allocation after copying",
    "head": "WeakArrayMut::from_ptr on the new allocation after copying",
    "sym_buf": "SymBuf::clone_to the new allocation",
    "bit_writer": "BitWriter::from_pending(Pending::clone_to(..)) + scalar fields from the source",
    "allocation_start": "the new allocation",
    "total_allocation_size": "size of the new allocation",
    "gzhead": "None, then patched by ptr::copy from source_state.gzhead",
}
COPY_MARKERS = {"_cache_line_0", "_cache_line_1", "_cache_line_2", "_cache_line_3"}

# inflate::copy: pointer-carrying fields that need no re-pointing, with the reason
INFLATE_COPY_NONOWNING = {
    "bit_reader": "points into the caller's input; rebuilt at the start of every inflate() call",
    "writer": "points into the caller's output; rebuilt at the start of every inflate() call",
    "head": "caller-owned gz_header, shared by design as in zlib",
    "error_message": "&'static str",
}


def _may_written_fields(W, fn):
    """set of field-name tuples (param root stripped) possibly written in fn or callees"""
    out = set()
    for q, p in W.may(fn):
        out.add(p)
    return out


CONSTRUCTORS = re.compile(r"::(init|new|copy|back_init|from_raw_parts|from_raw_parts_mut|clone_to|empty|default)$")


def _constructed_only(P, state_adt, leaf):
    """a leaf that nothing but constructors ever stores (directly or as part of an aggregate) cannot hold a value left by
    earlier use: between init and reset it never changes.  (Covers configuration fields that were renamed or regrouped.)"""
    mod = state_adt.rsplit("::", 1)[0]
    name = leaf[-1]
    writers = set()
    for f in P.fns.values():
        if not f.path.startswith(Z) or f.is_promoted:
            continue
        for bi, fp, root, rv, st in f.field_writes():
            if fp and fp[-1] == name and (len(leaf) < 2 or leaf[-2] in fp or len(fp) == 1):
                writers.add(f.path)
        # deref-writes of the whole sub-struct also count as writers of its leaves
        if len(leaf) >= 2:
            for bi, fp, root, rv, st in f.field_writes():
                if fp and fp[-1] == leaf[-2]:
                    writers.add(f.path)
    return bool(writers) is False or all(CONSTRUCTORS.search(w) and (w.startswith(mod) or True) for w in writers)


def reset_cover(ck, P, W, entry_path, state_adt, config, dead, percall, label, prefix=("state",), floor_written=10):
    fn = P.fn(entry_path)
    if not ck.anchor("fn " + entry_path, fn):
        return
    ck.use_fn(fn)
    must = W.must(fn)
    written = {p[len(prefix):] for q, p in must if q == 1 and p[:len(prefix)] == prefix}
    lvs = flow.leaves(P, state_adt, stop=STOP)
    if not ck.anchor("adt " + state_adt, len(lvs) > 5):
        return
    n_written = 0
    for leaf in lvs:
        name = ".".join(leaf)
        inst = "%s.%s" % (state_adt.replace(Z, ""), name)
        if flow.covered(leaf, written):
            n_written += 1
            ck.ok("FIELD/reset-cover", inst, "written on every path of %s" % label)
        elif leaf in config:
            ck.ok("FIELD/reset-cover", inst, "configuration: " + config[leaf])
        elif leaf in percall:
            ck.ok("FIELD/reset-cover", inst, "per-call: " + percall[leaf])
        elif leaf in dead:
            r = dead[leaf]
            ck.ok("FIELD/reset-cover", inst, "dead on reset: " + (r[0] if isinstance(r, tuple) else r))
        elif _constructed_only(P, state_adt, leaf):
            ck.ok("FIELD/reset-cover", inst, "configuration by construction: stored only by init/new/copy, never modified afterwards")
        else:
            ck.bad("FIELD/reset-cover", inst,
                   "field is not written on every path through %s and is not classified as configuration/dead "
                   "— a value left by earlier use survives the reset" % label, where(fn))
    ck.floor("FIELD/reset-cover:%s:written" % label, n_written, floor_written)
    ck.sample("reset-cover %s: %d leaves, %d must-written, e.g. %s" % (
        label, len(lvs), n_written, ", ".join(".".join(x) for x in sorted(written)[:6])))
    # stale table entries: a listed exception for a field that no longer exists is harmless; skip
    return written


def reset_flags(ck, P):
    """inflate::reset_keep sets every defined flag bit (a reset stream asks for its dictionary again, is not at its last block, is sane)"""
    rk = P.fn(Z + "inflate::reset_keep")
    if not ck.anchor("fn inflate::reset_keep", rk):
        return
    ck.use_fn(rk)
    # all three defined flag bits are updated
    want = {"IS_LAST_BLOCK": 0, "HAVE_DICT": 0, "SANE": 1}
    got = {}
    for c in rk.live_calls(r"inflate::Flags::update$"):
        a = rk.call_args(c)
        if len(a) == 3 and a[1][0] == "c" and a[1][2]:
            got[a[1][2].split("::")[-1]] = rk.const_of(a[2])
    for k, v in want.items():
        ck.decide(got.get(k) == v, "FIELD/reset-flags", "inflate::Flags::" + k,
                  "reset_keep sets %s=%s" % (k, bool(v)),
                  "reset_keep does not set flag %s to %s (found %r)" % (k, bool(v), got.get(k)), where(rk))


def run(ck):
    P = prog("K1")
    W = writes("K1")
    ck.configs.add("K1")
    ck.assumptions += [
        "rustc MIR construction at mir-opt-level 0 (facts are read from the compiler, nothing is executed)",
        "classification tables 'configuration' / 'dead on reset' / 're-pointed' are confirmed by reading; each "
        "entry carries its reason (rules/props/c14.py)",
        "host target x86_64 only",
    ]

    # ---------------- (1) deflate reset ---------------------------------------------------------
    written = reset_cover(ck, P, W, Z + "deflate::reset", Z + "deflate::State", DEFLATE_CONFIG, DEFLATE_DEAD, {},
                          "deflate::reset", floor_written=28)
    if written is not None:
        for c in DEFLATE_CONTENTS:
            ck.decide(c in written, "FIELD/reset-contents", "deflate::State." + ".".join(c),
                      "buffer contents cleared on every reset path",
                      "buffer contents are no longer cleared on every path of deflate::reset (stale hash heads / "
                      "symbol bytes survive)", where(P.fn(Z + "deflate::reset")))
    # stream-level fields
    fn = P.fn(Z + "deflate::reset")
    if fn:
        must = W.must(fn)
        top = {p for q, p in must if q == 1 and len(p) == 1}
        for f in ("total_in", "total_out", "msg", "data_type", "adler"):
            ck.decide((f,) in top, "FIELD/reset-stream", "DeflateStream." + f, "written on every path",
                      "stream field not reset on every path of deflate::reset", where(fn))
    # witnesses for the dead classes
    for leaf, (reason, wit) in DEFLATE_DEAD.items():
        if not wit:
            continue
        rx, fpath = wit
        f = P.one_fn(rx)
        if not ck.anchor("witness fn %s for dead field %s" % (rx, ".".join(leaf)), f):
            continue
        ck.use_fn(f)
        mw = _may_written_fields(W, f)
        ok = any(p[-len(fpath):] == fpath or fpath[0] in p for p in mw)
        ck.decide(ok, "FIELD/dead-witness", "deflate::State." + ".".join(leaf),
                  "re-initialising write exists in %s" % f.path,
                  "the write that justifies treating this field as dead on reset (%s) no longer exists in %s"
                  % (reason, f.path), where(f))
    # init_block clears freq of all three trees
    ib = P.fn(Z + "deflate::State::init_block")
    if ck.anchor("fn deflate::State::init_block", ib):
        ck.use_fn(ib)
        need = {"l_desc": 286, "d_desc": 30, "bl_desc": 19}
        found = {}
        for c in ib.live_calls(r"index_mut$|IndexMut"):
            args = ib.call_args(c)
            if not args:
                continue
            root, fp = mir.field_path(args[0])
            if len(fp) >= 2 and fp[-1] == "dyn_tree" and fp[-2] in need:
                # range end constant
                consts = [x[1] for x in mir.consts_in(args[1]) if isinstance(x[1], int)] if len(args) > 1 else []
                found.setdefault(fp[-2], []).extend(consts)
        has_freq = bool(ib.live_calls(r"Value::freq_mut$"))
        for d, n in need.items():
            ok = has_freq and any(v >= n for v in found.get(d, []))
            ck.decide(ok, "FIELD/init-block-freq", "deflate::State.%s.dyn_tree[..%d].freq" % (d, n),
                      "cleared by init_block over at least %d entries" % n,
                      "init_block no longer clears the symbol frequencies of %s over its %d codes" % (d, n), where(ib))

    # ---------------- (2) inflate reset ---------------------------------------------------------
    written_i = reset_cover(ck, P, W, Z + "inflate::reset_with_config", Z + "inflate::State", INFLATE_CONFIG,
                            INFLATE_DEAD, INFLATE_PERCALL, "inflate::reset_with_config", floor_written=18)
    # reset (without config) and reset_keep must still cover everything but wrap/wbits (resp. + window/error_message)
    for entry, extra_cfg in ((Z + "inflate::reset", {("wrap",), ("wbits",)}),):
        f = P.fn(entry)
        if ck.anchor("fn " + entry, f):
            must = W.must(f)
            wr = {p[1:] for q, p in must if q == 1 and p[:1] == ("state",)}
            for leaf in flow.leaves(P, Z + "inflate::State", stop=STOP):
                if leaf in INFLATE_CONFIG or leaf in INFLATE_DEAD or leaf in INFLATE_PERCALL or leaf in extra_cfg:
                    continue
                if not flow.covered(leaf, wr) and _constructed_only(P, Z + "inflate::State", leaf):
                    continue
                ck.decide(flow.covered(leaf, wr), "FIELD/reset-cover", "inflate::State.%s@reset" % ".".join(leaf),
                          "written on every path of inflate::reset",
                          "field is not written on every path through inflate::reset", where(f))
    for leaf, rx in INFLATE_WITNESS.items():
        f = P.one_fn(rx)
        if not ck.anchor("witness fn %s for inflate field %s" % (rx, ".".join(leaf)), f):
            continue
        ck.use_fn(f)
        mw = _may_written_fields(W, f)
        ok = any(p[-len(leaf):] == leaf or (p and leaf[:len(p[-1:])] == p[-1:]) for p in mw)
        ck.decide(ok, "FIELD/dead-witness", "inflate::State." + ".".join(leaf),
                  "re-initialising write exists in %s" % f.path,
                  "the write that justifies treating this field as dead/per-call no longer exists in %s" % f.path,
                  where(f))
    rk = P.fn(Z + "inflate::reset_keep")
    if ck.anchor("fn inflate::reset_keep", rk):
        ck.use_fn(rk)
        reset_flags(ck, P)
        fm = W.must(P.fn(Z + "inflate::reset_with_config"))
        top = {p for q, p in fm if q == 1 and len(p) == 1}
        for f in ("total_in", "total_out", "msg"):
            ck.decide((f,) in top, "FIELD/reset-stream", "InflateStream." + f, "written on every path",
                      "stream field not reset on every path of inflate reset", where(rk))

    copy_identity(ck, P)

    # ---------------- (4) inflate::copy pointer patch --------------------------------------------
    icp = P.fn(Z + "inflate::copy")
    if ck.anchor("fn inflate::copy", icp):
        ck.use_fn(icp)
        patched = {}
        for c in icp.live_calls(r"core::ptr::write$|ptr::mut_ptr::<impl \*mut T>::write$"):
            a = icp.call_args(c)
            if not a:
                continue
            tgt = mir.strip_casts(a[0])
            root, fp = mir.field_path(tgt)
            if fp:
                patched[fp[-1]] = (a[1] if len(a) > 1 else None, c)
                for comp in fp[:-1]:
                    # a pointer inside a nested member: overwriting it re-points the member
                    patched.setdefault(comp, (a[1] if len(a) > 1 else None, c))
        adt = P.adt(Z + "inflate::State")
        n = 0
        for f in adt["variants"][0]["fields"]:
            flags = set(f["flags"])
            if not flags & {"rawptr", "ref", "nonnull"}:
                continue
            n += 1
            inst = "inflate::State." + f["name"]
            if f["name"] in patched:
                ck.ok("FIELD/pointer-patch", inst, "overwritten after the raw struct copy")
            elif f["name"] in INFLATE_COPY_NONOWNING:
                ck.ok("FIELD/pointer-patch", inst, "non-owning: " + INFLATE_COPY_NONOWNING[f["name"]])
            else:
                ck.bad("FIELD/pointer-patch", inst,
                       "pointer-carrying field is bit-copied from the source by inflate::copy and never re-pointed: "
                       "the two streams share (and will double-free / cross-write) that memory", where(icp))
        ck.floor("FIELD/pointer-patch", n, 6)
        ck.decide("state" in patched, "FIELD/pointer-patch", "InflateStream.state",
                  "dest.state set to the new State", "dest.state is not overwritten: dest aliases source's state", where(icp))
        # provenance of the patched values
        if "window" in patched and patched["window"][0] is not None:
            v = patched["window"][0]
            ok = bool(mir.calls_in(v, r"inflate::window::Window::clone_to$"))
            ck.decide(ok, "FIELD/pointer-patch", "inflate::State.window:value", "Window::clone_to(new allocation)",
                      "window is patched with a value that is not a clone into the new allocation: %s" % mir.fmt(v, icp), where(icp))
        if "allocation_start" in patched and patched["allocation_start"][0] is not None:
            v = patched["allocation_start"][0]
            ok = bool(mir.calls_in(v, r"allocate_slice_raw$|allocate_"))
            ck.decide(ok, "FIELD/pointer-patch", "inflate::State.allocation_start:value", "pointer of the new allocation",
                      "allocation_start is patched with something other than the new allocation: %s" % mir.fmt(v, icp), where(icp))

    # ---------------- (5) Rust wrappers -----------------------------------------------------------
    for path, core_rx in ((Z + "stable::Deflate::reset", r"zlib_rs::deflate::reset$"),
                          (Z + "stable::Inflate::reset", r"zlib_rs::inflate::reset_with_config$")):
        f = P.fn(path)
        if not ck.anchor("fn " + path, f):
            continue
        ck.use_fn(f)
        must = W.must(f)
        names = {p for q, p in must if q == 1}
        ck.decide(("total_in",) in names and ("total_out",) in names, "CUT/wrapper-reset", path.replace(Z, "") + ":totals",
                  "both totals zeroed on every path", "wrapper reset does not zero both totals on every path", where(f))
        calls = f.live_calls(core_rx)
        ok = bool(calls) and not flow.reaches_avoiding(f, [0], [b for b, k in f.exits() if k == "return"],
                                                         cut_blocks=[c.bb for c in calls])
        ck.decide(ok, "CUT/wrapper-reset", path.replace(Z, "") + ":core", "core reset called on every path",
                  "wrapper reset can return without calling the core reset", where(f))
    whole_buffer_clones(ck, P)
    # ---------------- (6) no bitwise duplication through the type system ---------------------------
    owners = [Z + "deflate::State", Z + "inflate::State", Z + "deflate::DeflateStream", Z + "inflate::InflateStream",
              Z + "stable::Deflate", Z + "stable::Inflate", Z + "deflate::pending::Pending", Z + "deflate::sym_buf::SymBuf",
              Z + "inflate::window::Window", Z + "deflate::window::Window", Z + "weak_slice::WeakSliceMut", Z + "inflate::writer::Writer"]
    for o in owners:
        if not ck.anchor("adt " + o, P.adt(o)):
            continue
        bad = [i for i in P.impls if i["trait"] in ("core::clone::Clone", "core::marker::Copy") and mir.strip_ty(i["for"]) == o]
        ck.decide(not bad, "WHO/no-clone", o.replace(Z, ""), "neither Clone nor Copy: duplication only through copy()",
                  "%s implements %s: safe code can make a bitwise duplicate that shares (and double-frees) the allocation" % (o, [b["trait"] for b in bad]))
    from .. import condparity
    from .. import guards as _g
    _g.published_reset(ck, P)
    ck.floor("SIB/ref-conditions", condparity.check(ck, P, "SIB/ref-conditions", only={"inflate.c:inflateResetKeep", "inflate.c:inflateReset", "deflate.c:deflateReset", "deflate.c:lm_init", "deflate.c:deflateCopy", "inflate.c:inflateCopy", "deflate.c:deflateResetKeep", "inflate.c:inflateReset2", "inflate.c:inflateInit2", "deflate.c:deflateInit2"}), 12)
    from .. import refwrites
    ck.floor("SIB/ref-writes", refwrites.check(ck, P, "SIB/ref-writes", only={"deflate.c:deflateResetKeep", "inflate.c:inflateResetKeep",
             "inflate.c:inflateReset2", "deflate.c:lm_init", "deflate.c:lm_set_level"}), 30)
    ck.call_sites += sum(len(f.calls) for f in (P.fn(p) for p in list(ck.fns_analysed)) if f)


def copy_identity(ck, P):
    """deflate::copy builds the new State field by field: every field is the same field of the source (or a listed
    re-pointed buffer / marker)"""
    # ---------------- (3) deflate::copy identity -------------------------------------------------
    cp = P.fn(Z + "deflate::copy")
    if ck.anchor("fn deflate::copy", cp):
        ck.use_fn(cp)
        aggs = []
        for bi, si, lhs, rv, s in cp.assignments():
            if rv["k"] == "agg" and rv.get("adt") == Z + "deflate::State":
                aggs.append((bi, rv, s))
        if ck.anchor("State aggregate in deflate::copy", len(aggs) == 1, where(cp)):
            bi, rv, s = aggs[0]
            e = cp.rvalue_expr(rv)
            fields = dict(e[3])
            adt = P.adt(Z + "deflate::State")
            all_fields = [f["name"] for f in adt["variants"][0]["fields"]]
            n_same = 0
            for name in all_fields:
                inst = "deflate::State." + name
                fe = fields.get(name)
                if fe is None:
                    ck.bad("FIELD/copy-identity", inst, "field missing from the aggregate", where(cp, s.get("line")))
                    continue
                src = _source_field(fe)
                if src is not None and src[-1] == name and "state" in src[:-1]:
                    n_same += 1
                    ck.ok("FIELD/copy-identity", inst, "source_state." + name)
                elif name in COPY_REPOINTED:
                    ck.ok("FIELD/copy-identity", inst, "re-pointed: " + COPY_REPOINTED[name])
                elif name in COPY_MARKERS:
                    ck.ok("FIELD/copy-identity", inst, "zero-sized marker")
                else:
                    ck.bad("FIELD/copy-identity", inst,
                           "copy initialises this field from `%s`, not from the same field of the source — the copy "
                           "diverges from the original in histories that read it" % mir.fmt(fe, cp),
                           where(cp, s.get("line")))
            ck.floor("FIELD/copy-identity:same", n_same, 30)
            ck.sample("deflate::copy aggregate: %d fields, %d identical to source" % (len(all_fields), n_same))
            _check_copy_repointed(ck, P, cp, fields)


def whole_buffer_clones(ck, P):
    """buffer clones copy the whole buffer (what the allocator left in the rest is observable)"""
    # ---------------- (5b) buffer clones copy the whole buffer -------------------------------------
    # A buffer type's clone_to hands the copy a buffer of the same capacity; every byte of it is observable unless a
    # liveness argument says otherwise (SymBuf::push_lit stores one byte and advances the cursor by three: it
    # relies on the bytes beyond `filled` being zero, so a clone that copies only the filled part diverges).
    # Rule: the element count of the raw copy is the same expression as the length of the slice the clone is
    # built from, and the copy starts at the buffer's first byte.
    clones = [f for f in P.fns.values() if f.path.startswith(Z) and f.path.endswith("::clone_to")]
    ck.floor("COPY/whole-buffer:clone_to fns", len(clones), 3)
    for f in clones:
        ck.use_fn(f)
        name = f.path.replace(Z, "")
        cps = f.live_calls(r"copy_from_nonoverlapping$|copy_nonoverlapping$|copy_to_nonoverlapping$")
        mk = f.live_calls(r"WeakSliceMut::from_raw_parts_mut$|slice::from_raw_parts_mut$")
        if not (ck.anchor("raw copy in " + name, len(cps) == 1) and ck.anchor("slice construction in " + name, len(mk) == 1)):
            continue
        cargs, margs = f.call_args(cps[0]), f.call_args(mk[0])
        count, newlen = cargs[-1], margs[-1]
        src = cargs[0] if cps[0].callee.endswith("::copy_nonoverlapping") and "mut_ptr" not in cps[0].callee \
            and "const_ptr" not in cps[0].callee else cargs[1]
        if "copy_to_nonoverlapping" in cps[0].callee:
            src = cargs[0]
        same = mir.fmt(mir.strip_casts(count)) == mir.fmt(mir.strip_casts(newlen))
        src_ok = bool(mir.calls_in(src, r"as_ptr$|as_mut_ptr$")) and not any(x[0] == "call" and isinstance(x[1], str)
                      and re.search(r"::(add|offset|wrapping_add|sub)$", x[1]) for x in mir.walk(src))
        partial = [g.path.replace(Z, "") for g in P.fns.values()
                   if g.path.startswith(f.path.rsplit("::", 1)[0] + "::") and _advance_exceeds_store(g)]
        ck.decide(same and src_ok, "COPY/whole-buffer", name,
                  "copies %s elements from the start of the source buffer = length of the new buffer%s"
                  % (mir.fmt(count), (" (tail observable: %s)" % ",".join(partial)) if partial else ""),
                  "the clone copies %s elements (source %s) but the new buffer has %s: bytes of the copy's buffer are "
                  "left as the allocator returned them%s" % (mir.fmt(count), mir.fmt(src), mir.fmt(newlen),
                  ("; %s stores fewer bytes than it advances the cursor, so those bytes are read later" % ",".join(partial))
                  if partial else ""), where(f, cps[0].line))


def _source_field(e):
    """if e is `<anything>.state.<f>` possibly wrapped in clone()/copies: field name path"""
    e = mir.strip_casts(e)
    if e[0] == "call" and isinstance(e[1], str) and e[1].endswith("::clone") and e[2]:
        e = mir.strip_casts(mir.deref_ref(e[2][0]))
    e = mir.deref_ref(e)
    root, fp = mir.field_path(e)
    if root[0] in ("p",) and fp:
        return fp
    return None


def _check_copy_repointed(ck, P, cp, fields):
    """the re-pointed fields of deflate::copy are built from the new allocation with the source's sizes"""
    w = where(cp)

    def has_call(e, rx):
        return bool(mir.calls_in(e, rx))

    def decide(name, ok, good, bad):
        ck.decide(ok, "FIELD/copy-repoint", "deflate::State." + name, good, bad + ": " + mir.fmt(fields[name], cp)[:200], w)

    decide("window", has_call(fields["window"], r"deflate::window::Window::from_raw_parts$"),
           "Window::from_raw_parts", "window of the copy is not built by Window::from_raw_parts on the new buffer")
    decide("prev", has_call(fields["prev"], r"WeakSliceMut::from_raw_parts_mut$"),
           "from_raw_parts_mut", "prev of the copy is not rebuilt on the new buffer")
    decide("head", has_call(fields["head"], r"WeakArrayMut::from_ptr$"), "from_ptr",
           "head of the copy is not rebuilt on the new buffer")
    decide("sym_buf", has_call(fields["sym_buf"], r"SymBuf::clone_to$"), "SymBuf::clone_to",
           "sym_buf of the copy is not a clone_to of the source")
    decide("allocation_start", has_call(fields["allocation_start"], r"allocate_") or fields["allocation_start"][0] in ("v", "dc", "f"),
           "new allocation", "allocation_start of the copy is not the new allocation")
    tas = fields["total_allocation_size"]
    root, fp = mir.field_path(tas)
    decide("total_allocation_size", fp[-1:] == ("total_size",), "allocs.total_size",
           "total_allocation_size of the copy is not the size that was allocated")
    # the copied regions: window/prev/head copies from the source precede the rebuild
    srcs = set()
    for c in cp.live_calls(r"copy_from_nonoverlapping$"):
        a = cp.call_args(c)
        if len(a) >= 2:
            r, fp2 = mir.field_path(flow.receiver_root(a[1]))
            if fp2:
                srcs.add(fp2[-1])
    for nm in ("window", "prev", "head"):
        ck.decide(nm in srcs, "FIELD/copy-repoint", "deflate::State.%s:contents" % nm,
                  "contents copied from source." + nm,
                  "the %s contents of the source are not copied into the new allocation" % nm, w)
    # bit_writer scalars
    bw = P.adt(Z + "deflate::BitWriter")
    scal = {}
    for bi, fp, root, rv, s in cp.field_writes():
        if len(fp) == 1 and root[0] == "v":
            src = _source_field(rv)
            scal[fp[0]] = src
    for f in bw["variants"][0]["fields"]:
        if f["name"] == "pending":
            continue
        src = scal.get(f["name"])
        ok = src is not None and src[-1] == f["name"] and "bit_writer" in src
        ck.decide(ok, "FIELD/copy-identity", "deflate::BitWriter." + f["name"],
                  "source_state.bit_writer." + f["name"],
                  "bit writer field of the copy is not taken from the same field of the source (found %r)" % (src,), w)
    pend_ok = False
    for c in cp.live_calls(r"deflate::BitWriter::from_pending$"):
        a = cp.call_args(c)
        if a and mir.calls_in(a[0], r"pending::Pending::clone_to$"):
            pend_ok = True
    ck.decide(pend_ok, "FIELD/copy-repoint", "deflate::BitWriter.pending", "from_pending(Pending::clone_to(..))",
              "pending buffer of the copy is not a clone_to of the source's", w)
    # gzhead patch
    gz_ok = False
    for c in cp.live_calls(r"core::ptr::copy$|core::intrinsics::copy$"):
        a = cp.call_args(c)
        if len(a) >= 2:
            r0, f0 = mir.field_path(a[0])
            r1, f1 = mir.field_path(mir.strip_casts(a[1]))
            if f0[-1:] == ("gzhead",) and f1[-1:] == ("gzhead",):
                gz_ok = True
    ck.decide(gz_ok, "FIELD/copy-repoint", "deflate::State.gzhead", "patched by ptr::copy from source_state.gzhead",
              "gzhead of the copy is not patched from the source after the State write", w)
    # clone_to helpers: non-buffer fields are the source's
    for path, adtp in ((Z + "deflate::pending::Pending::clone_to", Z + "deflate::pending::Pending"),
                       (Z + "deflate::sym_buf::SymBuf::clone_to", Z + "deflate::sym_buf::SymBuf")):
        f = P.fn(path)
        if not ck.anchor("fn " + path, f):
            continue
        ck.use_fn(f)
        agg = None
        for bi, si, lhs, rv, s in f.assignments():
            if rv["k"] == "agg" and rv.get("adt") == adtp:
                agg = f.rvalue_expr(rv)
        if not ck.anchor("aggregate in " + path, agg is not None):
            continue
        fl = dict(agg[3])
        for fd in P.adt(adtp)["variants"][0]["fields"]:
            nm = fd["name"]
            if nm == "buf" or "phantom" in fd["flags"] and not set(fd["flags"]) - {"phantom"}:
                continue
            src = _self_field(fl.get(nm))
            ck.decide(src == nm, "FIELD/copy-identity", adtp.replace(Z, "") + "." + nm, "self." + nm,
                      "clone_to initialises %s from %s, not from the same field of the source" % (nm, mir.fmt(fl.get(nm), f)),
                      where(f))


def _self_field(e):
    if e is None:
        return None
    e = mir.strip_casts(e)
    root, fp = mir.field_path(e)
    if root == ("p", 1) and len(fp) == 1:
        return fp[0]
    return None


def _advance_exceeds_store(g):
    """a method that advances the `filled` cursor by a constant k while storing fewer than k buffer bytes"""
    k = None
    for bi, fp, root, val, st in g.field_writes():
        if fp and fp[-1] == "filled":
            e = mir.strip_casts(val)
            if e[0] == "bin" and e[1] in ("Add", "AddWithOverflow"):
                cs = [x[1] for x in mir.consts_in(e) if isinstance(x[1], int)]
                if cs:
                    k = max(cs)
    if not k:
        return False
    stores = 0
    for bi, si, lhs, rv, st in g.assignments(True):
        if any(pr.get("k") in ("index", "constindex") or "index" in str(pr.get("k", "")) for pr in lhs.get("p", []) if isinstance(pr, dict)):
            stores += 1
    stores += 2 * len(g.live_calls(r"write_unaligned$"))
    return 0 < stores < k
