"""A small abstract interpreter over the MIR facts of one loop-free function.

Abstract value of an integer local:  an interval [lo, hi] over the mathematical integers, plus (optionally) a
polynomial over named symbols with coefficients modulo M to which the value is congruent (mod M), plus a `taint`
saying that the value is parameter i shifted right by s bits (used to introduce the symbols of a precondition), plus
`parts` for a value assembled as low | (high << k).

It is an analysis of the program text (MIR) - nothing is executed: every assignment is given its abstract effect,
branches refine the intervals of the compared locals on both edges, and values are joined (interval hull, equal
polynomial or none) where paths merge.  Machine arithmetic is only allowed to stand for integer arithmetic when the
interval proves that it cannot wrap: every Add/Mul/Shl result must fit the type and every Sub must stay >= 0, otherwise
an `obligation` failure is recorded (this is also the proof that the overflow assertions of a debug build are dead and
that a release build does not wrap).

Used by C09 for adler32_combine (rules/props/c09.py)."""

U = {"u8": 8, "u16": 16, "u32": 32, "u64": 64, "usize": 64, "u128": 128}


class Poly:
    """polynomial with integer coefficients modulo m: {monomial(tuple of sorted symbol names): coef}"""
    __slots__ = ("m", "t")

    def __init__(self, m, t=None):
        self.m = m
        self.t = {k: v % m for k, v in (t or {}).items() if v % m}

    @staticmethod
    def const(m, c):
        return Poly(m, {(): c})

    @staticmethod
    def sym(m, name):
        return Poly(m, {(name,): 1})

    def add(self, o):
        t = dict(self.t)
        for k, v in o.t.items():
            t[k] = t.get(k, 0) + v
        return Poly(self.m, t)

    def neg(self):
        return Poly(self.m, {k: -v for k, v in self.t.items()})

    def sub(self, o):
        return self.add(o.neg())

    def mul(self, o):
        t = {}
        for k1, v1 in self.t.items():
            for k2, v2 in o.t.items():
                k = tuple(sorted(k1 + k2))
                t[k] = t.get(k, 0) + v1 * v2
        return Poly(self.m, t)

    def __eq__(self, o):
        return isinstance(o, Poly) and self.m == o.m and self.t == o.t

    def __repr__(self):
        if not self.t:
            return "0"
        return " + ".join(("%d" % v if not k else ("%s" % "*".join(k) if v == 1 else "%d*%s" % (v, "*".join(k))))
                          for k, v in sorted(self.t.items()))


class AV:
    __slots__ = ("lo", "hi", "poly", "taint", "parts", "tup")

    def __init__(self, lo, hi, poly=None, taint=None, parts=None, tup=None):
        self.lo, self.hi, self.poly, self.taint, self.parts, self.tup = lo, hi, poly, taint, parts, tup

    def copy(self):
        return AV(self.lo, self.hi, self.poly, self.taint, self.parts, self.tup)

    def __repr__(self):
        return "[%d, %d]%s" % (self.lo, self.hi, (" == %r (mod %d)" % (self.poly, self.poly.m)) if self.poly is not None else "")


def top(ty):
    bits = U.get(ty)
    if bits:
        return AV(0, (1 << bits) - 1)
    if ty == "bool":
        return AV(0, 1)
    return AV(-(1 << 127), (1 << 127))


def join(a, b):
    if a is None:
        return b
    if b is None:
        return a
    return AV(min(a.lo, b.lo), max(a.hi, b.hi), a.poly if (a.poly is not None and a.poly == b.poly) else None,
              a.taint if a.taint == b.taint else None,
              (join(a.parts[0], b.parts[0]), join(a.parts[1], b.parts[1]), a.parts[2]) if (a.parts and b.parts and a.parts[2] == b.parts[2]) else None)


class Interp:
    def __init__(self, fn, modulus, param_syms=None, mask_hook=None):
        """param_syms: {param local index: symbol name} - parameters that enter the polynomial as themselves.
        mask_hook(taint, mask) -> (symbol name, hi) or None: precondition on masked parameter parts."""
        self.fn = fn
        self.M = modulus
        self.param_syms = param_syms or {}
        self.mask_hook = mask_hook
        self.failed = []     # (line, text) obligations that could not be discharged
        self.ops = 0         # arithmetic operations whose no-wrap obligation was discharged
        self.notes = []

    # ---- operands ----------------------------------------------------------------------------
    def operand(self, env, op):
        if op.get("k") == "const":
            v = op.get("val")
            if isinstance(v, int):
                return AV(v, v, Poly.const(self.M, v))
            return top(op.get("ty", ""))
        l = op.get("l")
        pr = op.get("p") or []
        av = env.get(l)
        if av is None:
            return top(self.fn.locals[l].get("ty", ""))
        if not pr:
            return av
        if len(pr) == 1 and "f" in pr[0] and av.tup is not None:
            return av.tup if pr[0]["f"] == 0 else AV(0, 1)
        return top(pr[-1].get("ty", ""))

    def fits(self, av, ty, line, what):
        bits = U.get(ty)
        if bits is None:
            self.failed.append((line, "%s: result type %s is not an unsigned integer the analysis models" % (what, ty)))
            return False
        if av.lo < 0 or av.hi >= (1 << bits):
            self.failed.append((line, "%s can leave the range of %s: abstract value %r" % (what, ty, av)))
            return False
        self.ops += 1
        return True

    # ---- rvalues -----------------------------------------------------------------------------
    def rvalue(self, env, rv, ty, line):
        k = rv.get("k")
        if k == "use":
            return self.operand(env, rv["a"]).copy()
        if k == "cast" and rv.get("cast") == "IntToInt":
            a = self.operand(env, rv["a"])
            tb, fb = U.get(rv.get("ty")), U.get(rv.get("from_ty"))
            if tb and fb and tb >= fb:
                return a.copy()
            if tb and a.lo >= 0 and a.hi < (1 << tb):
                return a.copy()      # narrowing that provably keeps the value
            if tb:
                self.failed.append((line, "narrowing cast to %s of a value that may not fit: %r" % (rv.get("ty"), a)))
                r = top(rv.get("ty", ""))
                r.parts = a.parts
                return r
            return top(rv.get("ty", ""))
        if k == "bin":
            a, b = self.operand(env, rv["a"]), self.operand(env, rv["b"])
            op = rv["op"]
            with_ovf = op.endswith("WithOverflow")
            if with_ovf:
                op = op[:-len("WithOverflow")]
            r = self.binop(op, a, b, rv, line)
            if r is None:
                r = top(ty if not with_ovf else "u64")
            if with_ovf:
                return AV(0, 0, tup=r)
            return r
        return top(ty)

    def binop(self, op, a, b, rv, line):
        M = self.M
        pa, pb = a.poly, b.poly
        if op == "Add":
            return AV(a.lo + b.lo, a.hi + b.hi, pa.add(pb) if pa is not None and pb is not None else None)
        if op == "Sub":
            return AV(a.lo - b.hi, a.hi - b.lo, pa.sub(pb) if pa is not None and pb is not None else None)
        if op == "Mul":
            if a.lo >= 0 and b.lo >= 0:
                return AV(a.lo * b.lo, a.hi * b.hi, pa.mul(pb) if pa is not None and pb is not None else None)
            return None
        if op == "Rem":
            if b.lo == b.hi and b.lo > 0 and a.lo >= 0:
                m = b.lo
                if a.hi < m:
                    return a.copy()
                return AV(0, m - 1, pa if (m == M and pa is not None) else None)
            return None
        if op == "BitAnd":
            if b.lo == b.hi and b.lo >= 0 and a.lo >= 0:
                mask = b.lo
                if a.taint is not None and self.mask_hook:
                    h = self.mask_hook(a.taint, mask)
                    if h:
                        name, hi = h
                        return AV(0, hi, Poly.sym(M, name))
                if a.hi <= mask and (mask & (mask + 1)) == 0:
                    return a.copy()
                return AV(0, min(a.hi, mask))
            return None
        if op == "Shr":
            if b.lo == b.hi and a.lo >= 0:
                s = b.lo
                t = (a.taint[0], a.taint[1] + s) if a.taint is not None else None
                return AV(a.lo >> s, a.hi >> s, None, taint=t)
            return None
        if op == "Shl":
            if b.lo == b.hi and a.lo >= 0:
                s = b.lo
                r = AV(a.lo << s, a.hi << s, pa.mul(Poly.const(M, 1 << s)) if pa is not None else None)
                r.parts = (None, a.copy(), s)
                return r
            return None
        if op == "BitOr":
            # low | (high << s) with low < 2^s: disjoint bits, so it is the sum
            for x, y in ((a, b), (b, a)):
                if y.parts and y.parts[0] is None and x.lo >= 0:
                    if x.hi >= (1 << y.parts[2]):
                        self.failed.append((line, "the low part of `low | (high << %d)` can reach %d: it overlaps the high part" % (y.parts[2], x.hi)))
                    r = AV(x.lo + y.lo, x.hi + y.hi, None)
                    r.parts = (x.copy(), y.parts[1], y.parts[2])
                    return r
            if a.lo >= 0 and b.lo >= 0:
                return AV(0, (1 << max(a.hi.bit_length(), b.hi.bit_length())) - 1)
            return None
        if op in ("Eq", "Ne", "Lt", "Le", "Gt", "Ge"):
            return AV(0, 1)
        return None

    # ---- refinement ---------------------------------------------------------------------------
    @staticmethod
    def _refine(av, op, c_lo, c_hi, truth):
        """av `op` [c_lo,c_hi] is `truth`; returns the refined av or None when infeasible"""
        if not truth:
            op = {"Ge": "Lt", "Gt": "Le", "Le": "Gt", "Lt": "Ge", "Eq": "Ne", "Ne": "Eq"}[op]
        lo, hi = av.lo, av.hi
        if op == "Ge":
            lo = max(lo, c_lo)
        elif op == "Gt":
            lo = max(lo, c_lo + 1)
        elif op == "Le":
            hi = min(hi, c_hi)
        elif op == "Lt":
            hi = min(hi, c_hi - 1)
        elif op == "Eq":
            lo, hi = max(lo, c_lo), min(hi, c_hi)
        if lo > hi:
            return None
        r = av.copy()
        r.lo, r.hi = lo, hi
        return r

    # ---- driver ----------------------------------------------------------------------------------
    def run(self):
        fn = self.fn
        order = self._topo()
        if order is None:
            self.failed.append((fn.line, "the function has a loop: outside the loop-free fragment this analysis handles"))
            return None
        init = {}
        for i in range(1, fn.arg_count + 1):
            av = top(fn.locals[i].get("ty", ""))
            av.taint = (i, 0)
            if i in self.param_syms:
                av.poly = Poly.sym(self.M, self.param_syms[i])
            init[i] = av
        inn = {0: init}
        result = None
        for b in order:
            env = inn.get(b)
            if env is None:
                continue
            env = dict(env)
            blk = fn.blocks[b]
            cmpdef = {}     # bool temp -> (op, a_operand, b_operand)
            alias = dict(env.get("@alias", {}))      # temp -> source local (plain copies, flow-sensitive)
            env["@alias"] = alias
            for s in blk["s"]:
                if s.get("k") != "assign":
                    continue
                lhs = s["lhs"]
                if lhs.get("p"):
                    continue
                l = lhs["l"]
                rv = s["rv"]
                ty = fn.locals[l].get("ty", "")
                av = self.rvalue(env, rv, ty, s.get("line"))
                if rv.get("k") == "bin" and not rv["op"].endswith("WithOverflow") and rv["op"] in ("Add", "Sub", "Mul", "Shl") and ty in U:
                    self.fits(av, ty, s.get("line"), "`%s`" % rv["op"])
                if rv.get("k") == "bin" and rv["op"].endswith("WithOverflow"):
                    ety = ty.strip("()").split(",")[0].strip()
                    self.fits(av.tup, ety, s.get("line"), "`%s`" % rv["op"][:-len("WithOverflow")])
                for t_, src in list(alias.items()):
                    if src == l or t_ == l:
                        del alias[t_]
                cmpdef.pop(l, None)
                if rv.get("k") == "use" and rv["a"].get("k") in ("copy", "move") and not rv["a"].get("p"):
                    alias[l] = alias.get(rv["a"]["l"], rv["a"]["l"])
                if rv.get("k") == "bin" and rv["op"] in ("Eq", "Ne", "Lt", "Le", "Gt", "Ge"):
                    cmpdef[l] = (rv["op"], rv["a"], rv["b"])
                env[l] = av
            t = blk["t"]
            k = t["k"]
            if k == "return":
                result = join(result, env.get(0))
                continue
            if k in ("goto",):
                self._flow(inn, t["t"], env)
            elif k == "assert":
                self._flow(inn, t["t"], env)        # arithmetic obligations are checked where the value is computed
            elif k == "switch":
                d = t["discr"]
                cd = cmpdef.get(d.get("l")) if not d.get("p") else None
                edges = [(v, tb) for v, tb in t["targets"]] + [(None, t["otherwise"])]
                vals = [v for v, _ in t["targets"]]
                for v, tb in edges:
                    e2 = dict(env)
                    e2["@alias"] = dict(alias)
                    feasible = True
                    if cd and t.get("discr_ty") == "bool" and set(vals) <= {0, 1}:
                        truth = (v == 1) if v is not None else (0 in vals)
                        op, A, B = cd
                        a, bb_ = self.operand(env, A), self.operand(env, B)
                        flip = {"Ge": "Le", "Gt": "Lt", "Le": "Ge", "Lt": "Gt", "Eq": "Eq", "Ne": "Ne"}
                        for X, other, o in ((A, bb_, op), (B, a, flip[op])):
                            if X.get("k") in ("copy", "move") and not X.get("p"):
                                x = X["l"]
                                r = self._refine(e2.get(x, top(fn.locals[x].get("ty", ""))), o, other.lo, other.hi, truth)
                                if r is None:
                                    feasible = False
                                    break
                                e2[x] = r
                                # every local that currently holds the same value (copies of one source) is refined with it
                                src = alias.get(x, x)
                                same = {y for y, sy in alias.items() if sy == src} | {src}
                                for y in same - {x}:
                                    if y in e2:
                                        r2 = self._refine(e2[y], o, other.lo, other.hi, truth)
                                        if r2 is None:
                                            feasible = False
                                            break
                                        e2[y] = r2
                                if not feasible:
                                    break
                    if feasible:
                        self._flow(inn, tb, e2)
            elif k in ("call", "tailcall", "drop"):
                # calls are outside the fragment: the destination becomes unknown - except lossless integer conversions
                # (u64::from(x), x.into()), which are the identity on the value
                fname = (t.get("func") or {}).get("resolved") or (t.get("func") or {}).get("fn") or ""
                conv = bool(__import__("re").search(r"convert::(From|Into)(<[^>]*>)?>?::(from|into)$|::num::<impl .*From<.*> for .*>::from$", fname)) and len(t.get("args", [])) == 1
                if t.get("dest") and not t["dest"].get("p"):
                    dl = t["dest"]["l"]
                    dty = fn.locals[dl].get("ty", "")
                    if conv and dty in U:
                        a = self.operand(env, t["args"][0])
                        if a.lo >= 0 and a.hi < (1 << U[dty]):
                            env[dl] = a.copy()
                        else:
                            env[dl] = top(dty)
                    else:
                        env[dl] = top(dty)
                if not conv:
                    self.notes.append("call at line %s treated as unknown" % t.get("line"))
                if t.get("t") is not None:
                    self._flow(inn, t["t"], env)
            else:
                for _, tb in fn.succ[b]:
                    self._flow(inn, tb, env)
        return result

    def _flow(self, inn, tb, env):
        cur = inn.get(tb)
        if cur is None:
            inn[tb] = dict(env)
            inn[tb]["@alias"] = dict(env.get("@alias", {}))
            return
        out = {}
        for l in set(cur) | set(env):
            if l == "@alias":
                continue
            if l in cur and l in env:
                out[l] = join(cur[l], env[l])
        a1, a2 = cur.get("@alias", {}), env.get("@alias", {})
        out["@alias"] = {k: v for k, v in a1.items() if a2.get(k) == v}
        inn[tb] = out

    def _topo(self):
        fn = self.fn
        seen, order, onstack = set(), [], set()
        loop = [False]

        def dfs(b):
            stack = [(b, iter([tb for _, tb in fn.succ[b] if tb in fn.live]))]
            seen.add(b)
            onstack.add(b)
            while stack:
                node, it = stack[-1]
                adv = False
                for nb in it:
                    if nb in onstack:
                        loop[0] = True
                        continue
                    if nb not in seen:
                        seen.add(nb)
                        onstack.add(nb)
                        stack.append((nb, iter([tb for _, tb in fn.succ[nb] if tb in fn.live])))
                        adv = True
                        break
                if not adv:
                    order.append(node)
                    onstack.discard(node)
                    stack.pop()
        dfs(0)
        if loop[0]:
            return None
        return list(reversed(order))
