"""Justified explicit abort constructs (rule ABORT), exact keys: kind|function|message-or-receiver#ordinal.
Each was confirmed by reading the pinned tree; the reason is the invariant that makes it unreachable or the
documented contract that makes it acceptable.  A construct not listed here is a violation."""

JUSTIFIED = {
    'assert_eq|crc32::pclmulqdq::Accumulator::fold_help|dst and src must be the same length':
        'callers give >= 64 bytes on the first fold and equal-length copy slices',
    'assert_eq|deflate::DeflateStream::new|#1':
        'documented panic of the safe constructor on an invalid configuration',
    'assert_eq|deflate::deflate|bi_buf not flushed':
        "reached only with wrap > 0, i.e. right after this call wrote the trailer through flush_pending (GUARD/finished-early-return; D21 reached it on a finished stream)",
    'assert_eq|inflate::InflateStream::new|#1':
        'documented panic of the safe constructor on an invalid configuration',
    "assert_eq|inflate::bitreader::BitReader<'_> as std::io::Read>::read|bit buffer not cleared before read":
        'std::io::Read helper used only by tests/tools; not reachable from (de)compression entry points',
    'assert_eq|inflate::infback::back_init|#1':
        'callers validate windowBits in [8,15] before calling',
    'assert_ne|allocate::Allocator::deallocate|#1':
        'internal callers pass (n, 1) layouts with n <= u32::MAX, alignments <= 64 and non-zero lengths',
    'assert_ne|deflate::algorithm::slow::deflate_slow|no flush?':
        "numeric invariant inherited from zlib's Assert(); listed, not proved (value-range reasoning is outside static reach)",
    'assert|adler32::avx2::adler32_avx2|#1':
        'safe wrapper asserts the CPU probe its caller already checked (FEAT rule)',
    'assert|allocate::Allocator::allocate_layout_zeroed|#1':
        'internal callers pass (n, 1) layouts with n <= u32::MAX, alignments <= 64 and non-zero lengths',
    'assert|allocate::Allocator::allocate_layout|#1':
        'internal callers pass (n, 1) layouts with n <= u32::MAX, alignments <= 64 and non-zero lengths',
    'assert|crc32::pclmulqdq::Accumulator::fold_help|#1':
        'callers give >= 64 bytes on the first fold and equal-length copy slices',
    'assert|crc32::pclmulqdq::Accumulator::fold_help|#2':
        'callers give >= 64 bytes on the first fold and equal-length copy slices',
    'assert|deflate::BitWriter::send_tree| 3_6?':
        "numeric invariant inherited from zlib's Assert(); listed, not proved (value-range reasoning is outside static reach)",
    'assert|deflate::State::tally_dist|tally_dist: bad match':
        "numeric invariant inherited from zlib's Assert(); listed, not proved (value-range reasoning is outside static reach)",
    'assert|deflate::algorithm::rle::deflate_rle|wild scan':
        "numeric invariant inherited from zlib's Assert(); listed, not proved (value-range reasoning is outside static reach)",
    'assert|deflate::compare256::rust::compare256_rle|#1':
        "numeric invariant inherited from zlib's Assert(); listed, not proved (value-range reasoning is outside static reach)",
    'assert|deflate::encode_dist|bad d_code':
        "numeric invariant inherited from zlib's Assert(); listed, not proved (value-range reasoning is outside static reach)",
    'assert|deflate::encode_len|bad l_code':
        "numeric invariant inherited from zlib's Assert(); listed, not proved (value-range reasoning is outside static reach)",
    'assert|deflate::fill_window|more < 2':
        "numeric invariant inherited from zlib's Assert(); listed, not proved (value-range reasoning is outside static reach)",
    'assert|deflate::fill_window|not enough room for search':
        "numeric invariant inherited from zlib's Assert(); listed, not proved (value-range reasoning is outside static reach)",
    'assert|deflate::gen_codes|code length must be 1-15':
        "numeric invariant inherited from zlib's Assert(); listed, not proved (value-range reasoning is outside static reach)",
    'assert|deflate::gen_codes|inconsistent bit counts':
        "numeric invariant inherited from zlib's Assert(); listed, not proved (value-range reasoning is outside static reach)",
    'assert|deflate::pending::Pending::extend|buf.len() must fit in remaining()':
        'pending-buffer sizing invariant (pending_buf_size covers the largest block); D1 reached extend through a stale read offset, D16 through deflatePrime without a room test (GUARD/prime-room), both fixed',
    'assert|deflate::pending::Pending::rewind|rewinding past then start':
        'pending-buffer sizing invariant (pending_buf_size covers the largest block); D1 reached extend through a stale read offset, fixed',
    'assert|deflate::send_all_trees|not enough codes':
        "numeric invariant inherited from zlib's Assert(); listed, not proved (value-range reasoning is outside static reach)",
    'assert|deflate::send_all_trees|too many codes':
        "numeric invariant inherited from zlib's Assert(); listed, not proved (value-range reasoning is outside static reach)",
    'assert|deflate::zng_tr_flush_block|lost buf':
        "numeric invariant inherited from zlib's Assert(); listed, not proved (value-range reasoning is outside static reach)",
    'assert|inflate::bitreader::BitReader::return_unused_bytes|#1':
        'at most 7 whole bytes are ever returned (bits_used <= 63)',
    'assert|inflate::inflate|#1':
        'every message literal ends in NUL (checked at the single call site of bad())',
    'assert|inflate::window::Window::buffer_size|#1':
        'window lengths are fixed at init (power of two, or power of two + padding)',
    'assert|inflate::window::Window::size|#1':
        'window lengths are fixed at init (power of two, or power of two + padding)',
    'expect|inflate::writer::Writer::copy_chunked_within|in bounds':
        'callers pass offset <= filled after the `dist > written` split',
    'panic|ReturnCode as core::convert::From<i32>>::from|#1':
        'not called from exported entry points (WHO); used by tests/tools',
    'panic|inflate::State::dispatch|INFLATE_ALLOW_INVALID_DISTANCE_TOOFAR_ARRR':
        'unsupported zlib mode; reachable only with Flags::SANE cleared, which rule WHO/sane-constant forbids',
    'panic|inflate::State::len_and_friends|INFLATE_ALLOW_INVALID_DISTANCE_TOOFAR_ARRR':
        'unsupported zlib mode; reachable only with Flags::SANE cleared, which rule WHO/sane-constant forbids',
    'panic|inflate::infback::inflate_fast_back|INFLATE_ALLOW_INVALID_DISTANCE_TOOFAR_ARRR':
        'unsupported zlib mode; reachable only with Flags::SANE cleared, which rule WHO/sane-constant forbids',
    'panic|inflate::inflate_fast_help_impl|INFLATE_ALLOW_INVALID_DISTANCE_TOOFAR_ARRR':
        'unsupported zlib mode; reachable only with Flags::SANE cleared, which rule WHO/sane-constant forbids',
    'unreachable_unchecked|inflate::State::len_and_friends|#1':
        'the local mode is only ever one of the six matched variants (MODE rule C02/len-modes)',
    'unreachable|adler32::avx2::adler32_avx2_help|#1':
        'safe wrapper asserts the CPU probe its caller already checked (FEAT rule)',
    'unreachable|deflate::deflate|condition of inner surrounding if':
        'excluded by the enclosing conditions on `flush` (NoFlush/Finish cannot reach BlockDone handling)',
    'unreachable|deflate::deflate|condition of outer surrounding if':
        'excluded by the enclosing conditions on `flush` (NoFlush/Finish cannot reach BlockDone handling)',
    'unreachable|deflate::init|we should have initialized the stream properly':
        'only under cfg!(debug_assertions), after state pointer and allocator were just stored (from_stream_mut cannot fail)',
    'unreachable|deflate::sym_buf::SymBuf::iter::{closure#0}|chunks are exactly 3 elements wide':
        'chunks_exact(3) yields slices of exactly three elements',
    'unreachable|inflate::State::dispatch|BitReader::bits(2) only yields a value of two bits, so this ':
        'match on a 2-bit value with the four values handled explicitly',
    'unreachable|inflate::infback::back|BitReader::bits(2) only yields a value of two bits, so this ':
        'match on a 2-bit value with the four values handled explicitly',
    'unreachable|stable::Deflate::set_dictionary|#1':
        'return codes the core cannot produce for the safe API (no files, no version check, no dictionaries on this path)',
    'unreachable|stable::Deflate::set_level|#1':
        'return codes the core cannot produce for the safe API (no files, no version check, no dictionaries on this path)',
    'unreachable|stable::Inflate::decompress_uninit|the rust API does not use files':
        'return codes the core cannot produce for the safe API (no files, no version check, no dictionaries on this path)',
    'unreachable|stable::Inflate::decompress_uninit|the rust API does not use the version':
        'return codes the core cannot produce for the safe API (no files, no version check, no dictionaries on this path)',
    'unreachable|stable::Inflate::set_dictionary|#1':
        'return codes the core cannot produce for the safe API (no files, no version check, no dictionaries on this path)',
    'unreachable|stable::from|compression does not use dictionary':
        'return codes the core cannot produce for the safe API (no files, no version check, no dictionaries on this path)',
    'unreachable|stable::from|the rust API does not use files':
        'return codes the core cannot produce for the safe API (no files, no version check, no dictionaries on this path)',
    'unreachable|stable::from|the rust API does not use the version':
        'return codes the core cannot produce for the safe API (no files, no version check, no dictionaries on this path)',
    'unwrap|allocate::zalloc_rust_calloc|from_size_align#1':
        'internal callers pass (n, 1) layouts with n <= u32::MAX, alignments <= 64 and non-zero lengths',
    'unwrap|allocate::zalloc_rust|from_size_align#1':
        'internal callers pass (n, 1) layouts with n <= u32::MAX, alignments <= 64 and non-zero lengths',
    'unwrap|allocate::zfree_rust|from_size_align#1':
        'internal callers pass (n, 1) layouts with n <= u32::MAX, alignments <= 64 and non-zero lengths',
    'unwrap|crc32::pclmulqdq::Accumulator::progress::{closure#0}|next#1':
        'callers give >= 64 bytes on the first fold and equal-length copy slices',
    'unwrap|deflate::algorithm::fast::deflate_fast|try_into#1':
        'slice of exactly 4/8 bytes (range start..start+N) converted to an array',
    'unwrap|deflate::algorithm::quick::deflate_quick|try_from#1':
        'dist <= max_dist() < 2^15 on this path (GUARD/max-dist), fits u16',
    'unwrap|deflate::algorithm::quick::deflate_quick|try_into#1':
        'slice of exactly 4/8 bytes (range start..start+N) converted to an array',
    'unwrap|deflate::algorithm::quick::deflate_quick|try_into#2':
        'slice of exactly 4/8 bytes (range start..start+N) converted to an array',
    'unwrap|deflate::compare256::compare256_slice|first_chunk#1':
        'both slices have at least 256 bytes: MIN_LOOKAHEAD slack behind strstart/match_start',
    'unwrap|deflate::compare256::compare256_slice|first_chunk#2':
        'both slices have at least 256 bytes: MIN_LOOKAHEAD slack behind strstart/match_start',
    'unwrap|deflate::compare256::rust::compare256_rle|try_into#1':
        'slice of exactly 4/8 bytes (range start..start+N) converted to an array',
    'unwrap|deflate::hash_calc::StandardHashCalc::insert_string|try_into#1':
        'slice of exactly 4/8 bytes (range start..start+N) converted to an array',
    'unwrap|deflate::hash_calc::StandardHashCalc::quick_insert_string|try_into#1':
        'slice of exactly 4/8 bytes (range start..start+N) converted to an array',
    'unwrap|deflate::init|zalloc#1':
        'dominated by the `is_none()` early return',
    'unwrap|deflate::init|zfree#1':
        'dominated by the `is_none()` early return',
    'unwrap|deflate::zng_tr_flush_block|#1':
        "window_offset is Some on the stored-block branch by construction of the caller's argument",
    'unwrap|inflate::infback::back_init|zalloc#1':
        'dominated by the `is_none()` early return',
    'unwrap|inflate::infback::back_init|zfree#1':
        'dominated by the `is_none()` early return',
    'unwrap|inflate::init|zalloc#1':
        'dominated by the `is_none()` early return',
    'unwrap|inflate::init|zfree#1':
        'dominated by the `is_none()` early return',
    'assert|deflate::longest_match::longest_match_help|need lookahead':
        "numeric invariant inherited from zlib's Assert(); listed, not proved (value-range reasoning is outside static reach)",
    'assert|deflate::longest_match::longest_match_help|wild scan':
        "numeric invariant inherited from zlib's Assert(); listed, not proved (value-range reasoning is outside static reach)",
    'panic|deflate::longest_match::longest_match_help|index out of bounds':
        'slice pattern on scan[len-4..] with len >= STD_MIN_MATCH+1 on this path (longest_match_slow only)',
    'panic|deflate::longest_match::longest_match_help|invalid scan':
        'scan.get(..best_len+1) with best_len < lookahead; MIN_LOOKAHEAD slack (longest_match_slow only)',
    'unwrap|deflate::longest_match::longest_match_help|try_into#1':
        'slice of exactly 8 bytes (from_raw_parts(_, 8)) converted to an array',
    'unwrap|deflate::longest_match::longest_match_help|try_into#2':
        'slice of exactly 8 bytes (from_raw_parts(_, 8)) converted to an array',
}
