"""Transparent helpers.

The rule tables name functions of the tree they were written against (oracles/known_fns.json, all build
configurations).  A local function that is *not* in that list did not exist then: it is a helper somebody extracted
(or a mutant introduced).  Calls to such functions are inlined into their callers' MIR before any rule runs, so that an
extracted helper leaves every verdict unchanged and a defect hidden in a new helper is still seen in its caller.
On a tree whose functions are all known nothing is inlined.

Inlining at the level of the fact JSON: the callee's locals and blocks are appended to the caller (indices shifted),
the call terminator becomes argument assignments plus a goto to the callee's entry, each `return` of the callee becomes
`dest = _0; goto <continuation>`.  Cleanup blocks are dropped, unwind edges ignored (the loader prunes them anyway).
Depth limit 3, recursion refused, at most 40 inlinings per function."""
import copy
import json
import os

from .mir import strip_generics

KNOWN = os.path.join(os.path.dirname(os.path.abspath(__file__)), "..", "oracles", "known_fns.json")
LOCAL_CRATES = ("zlib_rs", "libz_rs_sys")
_known = None


_table = None


def table():
    global _table
    if _table is None:
        try:
            with open(KNOWN) as fh:
                _table = json.load(fh)
        except OSError:
            _table = {}
    return _table


def known():
    t = table()
    return set(t["fns"]) if t.get("fns") else None


def _walk(node, fn):
    if isinstance(node, dict):
        fn(node)
        for v in node.values():
            _walk(v, fn)
    elif isinstance(node, list):
        for v in node:
            _walk(v, fn)


def rename_back(facts, config=None):
    """Map renamed private functions and renamed struct fields back to the names the rule tables use.
    A function of the frozen list that is missing from this build, and exactly one unknown function in the same module
    with the same parameter and return types: that is a rename.  A struct whose field list differs from the frozen one
    only in names (same position and type, or a unique type match among the unmatched names): those are renames."""
    t = table()
    log = []
    if not t.get("sigs"):
        return log
    index = {}
    for cname, c in facts.items():
        for f in c["fns"]:
            index[strip_generics(f["path"])] = f
    kn = set(t["fns"])
    cfg_known = set(t.get("by_config", {}).get(config, [])) if config else kn
    missing = [p for p in (cfg_known or kn) if p not in index and p.split("::")[0] in LOCAL_CRATES]
    new = [p for p in index if p not in kn and p.split("::")[0] in LOCAL_CRATES and "{closure" not in p]
    fn_alias = {}
    for k in missing:
        sig_k = t["sigs"].get(k)
        if not sig_k:
            continue
        parent_k = k.rsplit("::", 1)[0]
        cands = [u for u in new if u.rsplit("::", 1)[0] == parent_k and [index[u].get("module"), index[u].get("inputs"), index[u].get("output")] == sig_k
                 and u not in fn_alias]
        if len(cands) == 1:
            fn_alias[cands[0]] = k
    if fn_alias:
        for u, k in fn_alias.items():
            index[u]["path"] = k
            log.append(("fn", u, k))

        def fix(node):
            if node.get("k") == "const" and "fn" in node:
                cur = strip_generics(node.get("resolved") or node["fn"])
                if cur in fn_alias:
                    node["fn"] = fn_alias[cur]
                    node.pop("resolved", None)
        for cname, c in facts.items():
            for f in c["fns"]:
                if f.get("mir"):
                    _walk(f["mir"], fix)
                for pr in f.get("promoted", []) or []:
                    _walk(pr, fix)
    # struct fields
    field_alias = {}     # (adt path, new name) -> old name
    for cname, c in facts.items():
        for a in c["adts"]:
            old = t.get("adts", {}).get(a["path"])
            if not old or a.get("kind") != "struct" or not a.get("variants"):
                continue
            cur = a["variants"][0]["fields"]
            old_names = [n for n, _ in old]
            cur_names = [fl["name"] for fl in cur]
            if old_names == cur_names:
                continue
            lost = [(n, ty) for n, ty in old if n not in cur_names]
            fresh = [fl for fl in cur if fl["name"] not in old_names]
            for fl in fresh:
                same_ty = [n for n, ty in lost if ty == fl["ty"]]
                if len(same_ty) == 1 and len([g for g in fresh if g["ty"] == fl["ty"]]) == 1:
                    field_alias[(a["path"], fl["name"])] = same_ty[0]
                    log.append(("field", a["path"] + "." + fl["name"], same_ty[0]))
            for fl in cur:
                if (a["path"], fl["name"]) in field_alias:
                    fl["name"] = field_alias[(a["path"], fl["name"])]
    if field_alias:
        def fixf(node):
            if "f" in node and "name" in node and "adt" in node and (node["adt"], node["name"]) in field_alias:
                node["name"] = field_alias[(node["adt"], node["name"])]
            if node.get("k") == "agg" and node.get("agg") == "adt" and isinstance(node.get("fields"), list):
                node["fields"] = [field_alias.get((node.get("adt"), n), n) for n in node["fields"]]
        for cname, c in facts.items():
            for f in c["fns"]:
                if f.get("mir"):
                    _walk(f["mir"], fixf)
                for pr in f.get("promoted", []) or []:
                    _walk(pr, fixf)
    return log


def _callee_path(term):
    f = term.get("func", {})
    if f.get("k") == "const" and "fn" in f:
        return strip_generics(f.get("resolved") or f["fn"])
    return None


def _shift(node, loff, boff, caller_path, poff):
    """deep copy of a JSON node with locals shifted by loff and block indices by boff"""
    if isinstance(node, dict):
        out = {}
        for k, v in node.items():
            if k in ("l", "idx") and isinstance(v, int):
                out[k] = v + loff
            elif k in ("t", "otherwise", "unwind") and isinstance(v, int):
                out[k] = v + boff
            elif k == "targets" and isinstance(v, list):
                out[k] = [[a, b + boff] for a, b in v]
            elif k == "ts" and isinstance(v, list):
                out[k] = [b + boff for b in v]
            elif k == "promoted" and isinstance(v, int):
                out[k] = v + poff
            else:
                out[k] = _shift(v, loff, boff, caller_path, poff)
        if "promoted" in node and isinstance(node.get("promoted"), int) and "def" in node:
            out["def"] = caller_path
        return out
    if isinstance(node, list):
        return [_shift(v, loff, boff, caller_path, poff) for v in node]
    return node


def _inline_one(fj, bi, gj):
    """inline callee JSON gj at block bi of caller JSON fj (both fact dicts with 'mir')"""
    m, g = fj["mir"], gj["mir"]
    term = m["blocks"][bi]["t"]
    loff = len(m["locals"])
    boff = len(m["blocks"])
    poff = len(fj.get("promoted", []) or [])
    if gj.get("promoted"):
        fj.setdefault("promoted", [])
        fj["promoted"] = list(fj["promoted"]) + copy.deepcopy(gj["promoted"])
    for lc in g["locals"]:
        m["locals"].append(dict(lc))
    cont = term.get("t")
    dest = term.get("dest")
    line = term.get("line")
    for b in g["blocks"]:
        nb = _shift(b, loff, boff, fj["path"], poff)
        if nb.get("cleanup"):
            nb = {"s": [], "t": {"k": "unreachable"}, "cleanup": True}
        elif nb["t"].get("k") == "return":
            if dest is not None:
                nb["s"] = list(nb["s"]) + [{"k": "assign", "lhs": copy.deepcopy(dest), "rv": {"k": "use", "a": {"l": loff, "k": "move"}},
                                            "line": line, "file": term.get("file")}]
            nb["t"] = {"k": "goto", "t": cont, "line": line, "file": term.get("file")} if cont is not None else {"k": "unreachable"}
        m["blocks"].append(nb)
    stmts = list(m["blocks"][bi]["s"])
    for i, a in enumerate(term.get("args", [])):
        stmts.append({"k": "assign", "lhs": {"l": loff + 1 + i}, "rv": {"k": "use", "a": copy.deepcopy(a)}, "line": line, "file": term.get("file")})
    m["blocks"][bi] = {"s": stmts, "t": {"k": "goto", "t": boff, "line": line, "file": term.get("file")}}


def _const_bool(rv):
    if rv.get("k") == "use" and rv["a"].get("k") == "const" and rv["a"].get("ty") == "bool" and isinstance(rv["a"].get("val"), int):
        return rv["a"]["val"]
    return None


_CORE_ENUMS = {"core::ops::control_flow::ControlFlow", "core::option::Option", "core::result::Result"}


def thread_bools(m):
    """Jump threading for boolean results of inlined predicates: a block that stores a constant into a local and then
    falls (through copy-only blocks) into `switch` on that local (or on its negation) jumps straight to the selected
    target.  Semantics-preserving; it makes `if !state.can_read() { return }` as precise as the spelled-out test."""
    blocks = m["blocks"]
    changed = 0
    for pi, pb in enumerate(blocks):
        if pb.get("cleanup") or pb["t"].get("k") != "goto":
            continue
        known = {}
        variants = {}
        for st in pb["s"]:
            if st.get("k") == "assign" and not st["lhs"].get("p"):
                v = _const_bool(st["rv"])
                if v is not None:
                    known[st["lhs"]["l"]] = v
                else:
                    known.pop(st["lhs"]["l"], None)
                # a freshly built value of a two-variant core enum (the result of an inlined helper that reports through
                # ControlFlow / Option / Result): its discriminant is the variant's index
                rv_ = st["rv"]
                if rv_.get("k") == "agg" and rv_.get("agg") == "adt" and rv_.get("adt") in _CORE_ENUMS and isinstance(rv_.get("vi"), int):
                    variants[st["lhs"]["l"]] = rv_["vi"]
                else:
                    variants.pop(st["lhs"]["l"], None)
        if not known and not variants:
            continue
        cur = pb["t"]["t"]
        env = dict(known)
        ints = {}
        target = None
        chain = []
        for _ in range(6):
            chain.append(cur)
            b = blocks[cur]
            if b.get("cleanup"):
                break
            ok = True
            for st in b["s"]:
                if st.get("k") != "assign" or st["lhs"].get("p"):
                    ok = False
                    break
                rv = st["rv"]
                l = st["lhs"]["l"]
                if rv.get("k") == "use" and rv["a"].get("k") in ("copy", "move") and not rv["a"].get("p") and rv["a"]["l"] in env:
                    env[l] = env[rv["a"]["l"]]
                elif rv.get("k") == "un" and rv.get("op") == "Not" and rv["a"].get("k") in ("copy", "move") and not rv["a"].get("p") and rv["a"]["l"] in env:
                    env[l] = 1 - env[rv["a"]["l"]]
                elif _const_bool(rv) is not None:
                    env[l] = _const_bool(rv)
                elif rv.get("k") == "discr" and not rv["place"].get("p") and rv["place"]["l"] in variants:
                    ints[l] = variants[rv["place"]["l"]]
                elif rv.get("k") == "use" and rv["a"].get("k") in ("copy", "move") and not rv["a"].get("p") and rv["a"]["l"] in variants:
                    variants[l] = variants[rv["a"]["l"]]
                else:
                    ok = False
                    break
            if not ok:
                break
            t = b["t"]
            if t.get("k") == "goto":
                cur = t["t"]
                continue
            if t.get("k") == "switch" and t.get("discr_ty") == "bool" and t["discr"].get("k") in ("copy", "move") and not t["discr"].get("p") \
                    and t["discr"]["l"] in env:
                v = env[t["discr"]["l"]]
                target = t["otherwise"]
                for val, tb in t["targets"]:
                    if val == v:
                        target = tb
            elif t.get("k") == "switch" and t["discr"].get("k") in ("copy", "move") and not t["discr"].get("p") and t["discr"]["l"] in ints:
                v = ints[t["discr"]["l"]]
                target = t["otherwise"]
                for val, tb in t["targets"]:
                    if val == v:
                        target = tb
            break
        if target is not None:
            pb["t"] = dict(pb["t"], t=target)
            changed += 1
            # the constant stores that only fed the skipped switch are dead now: drop them, so that the local keeps a single
            # (non-constant) definition and stays transparent to the expression builder
            for loc in list(known):
                if not _read_outside(blocks, loc, set(chain)):
                    pb["s"] = [st for st in pb["s"] if not (st.get("k") == "assign" and not st["lhs"].get("p") and st["lhs"]["l"] == loc
                                                             and _const_bool(st["rv"]) is not None)]
    return changed


def _read_outside(blocks, loc, chain):
    def reads(node):
        if isinstance(node, dict):
            if node.get("l") == loc and node.get("k") in ("copy", "move"):
                return True
            return any(reads(v) for k, v in node.items() if k != "lhs")
        if isinstance(node, list):
            return any(reads(v) for v in node)
        return False
    for bi, b in enumerate(blocks):
        if bi in chain or b.get("cleanup"):
            continue
        if reads(b["s"]) or reads(b["t"]):
            return True
        for st in b["s"]:
            lhs = st.get("lhs") or {}
            if lhs.get("l") == loc and lhs.get("p"):
                return True
    return False


def apply(facts, config=None):
    kn = known()
    if kn is None:
        return facts, []
    rlog = rename_back(facts, config)
    index = {}
    for cname, c in facts.items():
        for f in c["fns"]:
            index[strip_generics(f["path"])] = f
    new = {p for p, f in index.items() if p.split("::")[0] in LOCAL_CRATES and p not in kn and "{closure" not in p and f.get("mir")}
    if not new:
        return facts, rlog
    log = list(rlog)
    pristine = {p: copy.deepcopy(index[p]) for p in new}
    for p, f in index.items():
        m = f.get("mir")
        if not m:
            continue
        count = 0
        changed = True
        depth = 0
        while changed and depth < 3 and count < 40:
            changed = False
            depth += 1
            for bi in range(len(m["blocks"])):
                b = m["blocks"][bi]
                t = b["t"]
                if b.get("cleanup") or t.get("k") != "call":
                    continue
                cp = _callee_path(t)
                if cp in new and cp != p and len(t.get("args", [])) == pristine[cp]["mir"]["arg_count"]:
                    _inline_one(f, bi, pristine[cp])
                    log.append((p, cp))
                    count += 1
                    changed = True
                    if count >= 40:
                        break
        if count:
            for _ in range(3):
                if not thread_bools(m):
                    break
    # a new function all of whose call sites were inlined is no longer a function of the analysed program
    still_called = set()
    for pth, f in index.items():
        m = f.get("mir")
        if not m:
            continue
        for b in m["blocks"]:
            t = b["t"]
            if t.get("k") in ("call", "tailcall") and not b.get("cleanup"):
                cp = _callee_path(t)
                if cp in new:
                    still_called.add(cp)
    inlined_away = ({e[1] for e in log if len(e) == 2} & new) - still_called
    if inlined_away:
        for cname, c in facts.items():
            c["fns"] = [f for f in c["fns"] if strip_generics(f["path"]) not in inlined_away]
    return facts, log


def frozen_callers(path):
    return list(table().get("callers", {}).get(path, []))


def is_known(path):
    kn = known()
    return kn is not None and path in kn
