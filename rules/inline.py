"""Transparent helpers.

The rule tables name functions of the tree they were written against (oracles/known_fns.json, all build
configurations).  A local function that is *not* in that list did not exist then: it is a helper somebody extracted
(or a mutant introduced).  Calls to such functions are inlined into their callers' MIR before any rule runs, so that an
extracted helper leaves every verdict unchanged and a defect hidden in a new helper is still seen in its caller.
On a tree whose functions are all known nothing is inlined.

Inlining at the level of the fact JSON: the callee's locals and blocks are appended to the caller (indices shifted),
the call terminator becomes argument assignments plus a goto to the callee's entry, each `return` of the callee becomes
`dest = _0; goto <continuation>`.  Cleanup blocks are dropped, unwind edges ignored (the loader prunes them anyway).
Depth limit 3, recursion refused, at most 40 inlinings per function."""
import copy
import json
import os

from .mir import strip_generics

KNOWN = os.path.join(os.path.dirname(os.path.abspath(__file__)), "..", "oracles", "known_fns.json")
LOCAL_CRATES = ("zlib_rs", "libz_rs_sys")
_known = None


def known():
    global _known
    if _known is None:
        try:
            with open(KNOWN) as fh:
                _known = set(json.load(fh)["fns"])
        except OSError:
            _known = None
    return _known


def _callee_path(term):
    f = term.get("func", {})
    if f.get("k") == "const" and "fn" in f:
        return strip_generics(f.get("resolved") or f["fn"])
    return None


def _shift(node, loff, boff, caller_path, poff):
    """deep copy of a JSON node with locals shifted by loff and block indices by boff"""
    if isinstance(node, dict):
        out = {}
        for k, v in node.items():
            if k in ("l", "idx") and isinstance(v, int):
                out[k] = v + loff
            elif k in ("t", "otherwise", "unwind") and isinstance(v, int):
                out[k] = v + boff
            elif k == "targets" and isinstance(v, list):
                out[k] = [[a, b + boff] for a, b in v]
            elif k == "ts" and isinstance(v, list):
                out[k] = [b + boff for b in v]
            elif k == "promoted" and isinstance(v, int):
                out[k] = v + poff
            else:
                out[k] = _shift(v, loff, boff, caller_path, poff)
        if "promoted" in node and isinstance(node.get("promoted"), int) and "def" in node:
            out["def"] = caller_path
        return out
    if isinstance(node, list):
        return [_shift(v, loff, boff, caller_path, poff) for v in node]
    return node


def _inline_one(fj, bi, gj):
    """inline callee JSON gj at block bi of caller JSON fj (both fact dicts with 'mir')"""
    m, g = fj["mir"], gj["mir"]
    term = m["blocks"][bi]["t"]
    loff = len(m["locals"])
    boff = len(m["blocks"])
    poff = len(fj.get("promoted", []) or [])
    if gj.get("promoted"):
        fj.setdefault("promoted", [])
        fj["promoted"] = list(fj["promoted"]) + copy.deepcopy(gj["promoted"])
    for lc in g["locals"]:
        m["locals"].append(dict(lc))
    cont = term.get("t")
    dest = term.get("dest")
    line = term.get("line")
    for b in g["blocks"]:
        nb = _shift(b, loff, boff, fj["path"], poff)
        if nb.get("cleanup"):
            nb = {"s": [], "t": {"k": "unreachable"}, "cleanup": True}
        elif nb["t"].get("k") == "return":
            if dest is not None:
                nb["s"] = list(nb["s"]) + [{"k": "assign", "lhs": copy.deepcopy(dest), "rv": {"k": "use", "a": {"l": loff, "k": "move"}},
                                            "line": line, "file": term.get("file")}]
            nb["t"] = {"k": "goto", "t": cont, "line": line, "file": term.get("file")} if cont is not None else {"k": "unreachable"}
        m["blocks"].append(nb)
    stmts = list(m["blocks"][bi]["s"])
    for i, a in enumerate(term.get("args", [])):
        stmts.append({"k": "assign", "lhs": {"l": loff + 1 + i}, "rv": {"k": "use", "a": copy.deepcopy(a)}, "line": line, "file": term.get("file")})
    m["blocks"][bi] = {"s": stmts, "t": {"k": "goto", "t": boff, "line": line, "file": term.get("file")}}


def apply(facts):
    kn = known()
    if kn is None:
        return facts, []
    index = {}
    for cname, c in facts.items():
        for f in c["fns"]:
            index[strip_generics(f["path"])] = f
    new = {p for p, f in index.items() if p.split("::")[0] in LOCAL_CRATES and p not in kn and "{closure" not in p and f.get("mir")}
    if not new:
        return facts, []
    log = []
    pristine = {p: copy.deepcopy(index[p]) for p in new}
    for p, f in index.items():
        m = f.get("mir")
        if not m:
            continue
        count = 0
        changed = True
        depth = 0
        while changed and depth < 3 and count < 40:
            changed = False
            depth += 1
            for bi in range(len(m["blocks"])):
                b = m["blocks"][bi]
                t = b["t"]
                if b.get("cleanup") or t.get("k") != "call":
                    continue
                cp = _callee_path(t)
                if cp in new and cp != p and len(t.get("args", [])) == pristine[cp]["mir"]["arg_count"]:
                    _inline_one(f, bi, pristine[cp])
                    log.append((p, cp))
                    count += 1
                    changed = True
                    if count >= 40:
                        break
    return facts, log
