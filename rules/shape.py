"""Small structural queries over function bodies used by several properties."""
import re
from . import mir, sig, atoms


def fn_int_consts(fn, live_only=True):
    out = set()
    for bi in (fn.live if live_only else range(len(fn.blocks))):
        b = fn.blocks[bi]
        for s in b["s"]:
            if s["k"] == "assign":
                for x in mir.consts_in(fn.rvalue_expr(s["rv"])):
                    if isinstance(x[1], int):
                        out.add(x[1])
        t = b["t"]
        if t["k"] == "call":
            for a in t["args"]:
                for x in mir.consts_in(fn.operand_expr(a)):
                    if isinstance(x[1], int):
                        out.add(x[1])
        elif t["k"] == "switch":
            for v, _ in t["targets"]:
                out.add(v)
    return out


def fn_ops(fn):
    out = set()
    for bi in fn.live:
        for s in fn.blocks[bi]["s"]:
            if s["k"] == "assign":
                for x in mir.walk(fn.rvalue_expr(s["rv"])):
                    if x[0] in ("bin", "un"):
                        out.add(x[1])
    return out


def fn_named_consts(fn):
    """last path segments of named constants/statics referenced in live code"""
    out = set()
    for bi in fn.live:
        b = fn.blocks[bi]
        exprs = []
        for s in b["s"]:
            if s["k"] == "assign":
                exprs.append(fn.rvalue_expr(s["rv"]))
        t = b["t"]
        if t["k"] == "call":
            exprs.extend(fn.operand_expr(a) for a in t["args"])
        elif t["k"] == "switch":
            exprs.append(fn.operand_expr(t["discr"]))
        for e in exprs:
            for x in mir.walk(e):
                if x[0] == "c" and x[2]:
                    out.add(x[2].split("::")[-1])
    return out


def const_array_args(fn, callee_rx):
    """list of (call, [ints]) for calls whose first non-self argument is a constant array/slice"""
    out = []
    for c in fn.live_calls(callee_rx):
        for a in fn.call_args(c):
            e = mir.deref_ref(mir.strip_casts(a))
            e = mir.deref_ref(e)
            if e[0] == "cast":
                e = mir.deref_ref(e[1])
            if e[0] == "agg" and e[1] == "array":
                vals = [atoms.cval(x) for _, x in e[3]]
                out.append((c, vals, e))
    return out


def dominating_sigs(fn, bb, region=None):
    out = []
    for n in fn.dominators_of(bb):
        if n[0] == "e":
            _, b, k = n
            if region is not None and b not in region:
                continue
            lab, tb = fn.succ[b][k]
            if lab is None or lab[0] == "const":
                continue
            for a in fn.edge_atoms(b, lab):
                out.append(sig.sig(a, fn))
    return out
