"""Structural guards behind abort constructs and published state (added after the defect hunt of round 7, D16-D21).

Each rule states the structural fact that makes a listed abort construct unreachable, or a stale value unobservable, and
that the first version of the justification table only asserted in prose:

GUARD/finished-early-return   deflate(): the `bi_buf not flushed` assertion is dominated by `wrap > 0` - a stream whose trailer
                              has been written (or that has none) returns Z_STREAM_END before the trailer code (D21)
GUARD/prime-room              deflate::prime: every flush of the bit buffer into the pending buffer is dominated by a test of
                              the room left in it (D16)
ATOM/crc-fold-start           every Crc32Fold::fold call continues the fold state: its start argument is the constant 0,
                              never a state field (D18)
FIELD/published-reset         every state field that inflate() publishes into the z_stream after each call is stored by
                              reset_keep: what ResetKeep does not clear reappears in the stream on the next call (D19)
ABORT/gz-error-path           gz_error formats the file name without unwrapping a UTF-8 conversion of it (D20)
"""
from . import abort, mir, shape
from .core import where
from .ctx import Z


def _pos_wrap(g):
    if "wrap" not in g.names:
        return False
    if g.rel == "Le" and g.lo_consts and min(g.lo_consts) >= 1 and "wrap" in g.hi_names:
        return True
    if g.rel == "Lt" and g.lo_consts and min(g.lo_consts) >= 0 and "wrap" in g.hi_names:
        return True
    return False


def finished_early_return(ck, P, R="GUARD/finished-early-return"):
    f = P.fn(Z + "deflate::deflate")
    if not ck.anchor("fn deflate::deflate", f):
        return
    ck.use_fn(f)
    sites = [c for c in abort.constructs(f) if c["msg"] and "bi_buf" in c["msg"] and not c["debug_only"]]
    if not sites:
        # the assertion is gone or debug-only: nothing to guard
        ck.ok(R, "deflate:bi_buf", "no release-mode assertion on the bit buffer at the end of deflate()")
        return
    for c in sites:
        ok = any(_pos_wrap(g) for g in shape.dominating_sigs(f, c["bb"]))
        ck.decide(ok, R, "deflate:bi_buf", "assertion reached only with wrap > 0",
                  "deflate() can reach `assert_eq!(bits_valid, 0)` with wrap <= 0: on a finished stream (trailer written, wrap negated) a "
                  "deflatePrime followed by deflate(Z_FINISH) aborts the process; zlib returns Z_STREAM_END as soon as wrap <= 0",
                  where(f, c["line"]))


def prime_room(ck, P, R="GUARD/prime-room"):
    f = P.fn(Z + "deflate::prime")
    if not ck.anchor("fn deflate::prime", f):
        return
    ck.use_fn(f)
    calls = f.live_calls(r"BitWriter::flush_bits$")
    if not ck.anchor("flush_bits call in deflate::prime", bool(calls)):
        return
    for i, c in enumerate(calls):
        ok = any(any(x.endswith("remaining") for x in g.calls) and g.rel in ("Le", "Lt") for g in shape.dominating_sigs(f, c.bb))
        ck.decide(ok, R, "prime:flush_bits#%d" % i, "bit buffer flushed only after a test of the pending room",
                  "deflate::prime moves bytes of the bit buffer into the pending buffer without testing the room left in it: with the buffer "
                  "full Pending::extend's assertion aborts the process (zlib-ng returns Z_BUF_ERROR)", where(f, c.line))


def crc_fold_start(ck, P, R="ATOM/crc-fold-start"):
    n = 0
    for f in sorted(P.fns.values(), key=lambda f: f.path):
        if not f.path.startswith(Z) or f.path.startswith(Z + "crc32::"):
            continue
        for i, c in enumerate(f.live_calls(r"crc32::Crc32Fold::fold$")):
            a = f.call_args(c)
            if len(a) < 3:
                continue
            n += 1
            v = f.const_of(a[2])
            ck.decide(v == 0, R, "%s#%d" % (f.path.replace(Z, ""), i), "start argument is the constant 0",
                      "%s passes `%s` as the start value of Crc32Fold::fold: the running CRC lives in the fold state; a non-zero start is "
                      "folded in again (wrong check value) and trips the kernel's length assertion for short slices"
                      % (f.path.replace(Z, ""), mir.fmt(a[2], f)[:60]), where(f, c.line))
    ck.floor(R, n, 2)


def published_reset(ck, P, R="FIELD/published-reset"):
    inf = P.fn(Z + "inflate::inflate")
    rk = P.fn(Z + "inflate::reset_keep")
    if not ck.anchor("fn inflate::inflate", inf) or not ck.anchor("fn inflate::reset_keep", rk):
        return
    ck.use_fn(inf)
    ck.use_fn(rk)
    published = {}
    for bi, fp, root, rv, st in inf.field_writes():
        if not fp or fp[0] == "state" or len(fp) != 1:
            continue
        # a store into a field of the z_stream whose value reads a field of the state
        e = inf.rvalue_expr(rv) if isinstance(rv, dict) else rv
        for x in mir.walk(e):
            if isinstance(x, tuple) and x and x[0] == "f":
                r2, p2 = mir.field_path(x)
                if p2 and len(p2) >= 2 and p2[0] == "state" and p2[1] not in ("writer", "bit_reader", "window", "mode", "flags", "head"):
                    published.setdefault(p2[1], set()).add(fp[0])
    ck.floor(R + ":published", len(published), 3)
    written = set()
    from . import refwrites
    w_, _c = refwrites.attributed(P, rk)
    written = {str(x) for x in w_}
    for sf, targets in sorted(published.items()):
        ck.decide(sf in written, R, "reset_keep:%s" % sf, "re-initialised by reset_keep",
                  "inflate() publishes state.%s into %s after every call, but inflateResetKeep does not store it: the value of the "
                  "previous stream reappears in the z_stream on the next call" % (sf, "/".join("strm." + t for t in sorted(targets))), where(rk))


def gz_error_path(ck, P, R="ABORT/gz-error-path"):
    g = P.fn("libz_rs_sys::gz::gz_error")
    if not ck.anchor("fn gz::gz_error", g):
        return
    ck.use_fn(g)
    bad = []
    for c in abort.constructs(g):
        if c["kind"] in ("unwrap", "expect") and c["recv"] == "to_str":
            # acceptable only on the `<fd:N>` string the library formats itself
            call = [k for k in g.calls if k.bb == c["bb"]]
            args = g.call_args(call[0]) if call else []
            if not (args and mir.calls_in(args[0], r"fd_path$")):
                bad.append(c)
    ck.decide(not bad, R, "gz_error:path", "the file name is not unwrapped as UTF-8",
              "gz_error unwraps a UTF-8 conversion of the file name: for a file opened under a name that is not UTF-8 the first recorded "
              "error aborts the process", where(g, bad[0]["line"]) if bad else where(g))


NARROW_RX = r"(index_mut|get_mut|get_unchecked_mut|split_at_mut|split_at_mut_unchecked|from_raw_parts_mut|split_first_mut|split_last_mut|take_mut|chunks_exact_mut|chunks_mut)$"


def fold_copy_dst(ck, P, R="GUARD/fold-copy-dst"):
    """the pclmulqdq kernel behind Crc32Fold::fold_copy asserts dst.len() == src.len() (an abort inside extern "C" inflate on a
    CPU with that feature); the window buffer is longer than the window (padding for the SIMD copies), so a destination that is
    the whole buffer can never have the source's length: every destination is cut out of the buffer by an index/split/get
    with an end bound."""
    n = 0
    for f in sorted(P.fns.values(), key=lambda f: f.path):
        if not f.path.startswith(Z) or f.path.startswith(Z + "crc32"):
            continue
        for i, c in enumerate(f.live_calls(r"crc32::Crc32Fold::fold_copy$")):
            a = f.call_args(c)
            if len(a) < 3:
                continue
            n += 1
            ck.use_fn(f)
            narrowing = [x for x in mir.calls_in(a[1]) if isinstance(x[1], str) and __import__("re").search(NARROW_RX, x[1])]
            ok = False
            for x in narrowing:
                # an end bound: RangeTo / Range / RangeToInclusive / RangeInclusive aggregate or a second (length) argument
                txt = mir.fmt(x, f)
                if "RangeTo" in txt or "Range::Range" in txt or "RangeInclusive" in txt or x[1].endswith("split_at_mut") or \
                        x[1].endswith("from_raw_parts_mut") or x[1].endswith("split_at_mut_unchecked"):
                    ok = True
            ck.decide(ok, R, "%s#%d" % (f.path.replace(Z, ""), i), "destination cut to a length by an end-bounded index",
                      "%s passes `%s` as the destination of Crc32Fold::fold_copy: nothing bounds its end, and the padded window buffer is "
                      "longer than any source slice; the pclmulqdq kernel asserts dst.len() == src.len() and the panic aborts inflate()"
                      % (f.path.replace(Z, ""), mir.fmt(a[1], f)[:80]), where(f, c.line))
    ck.floor(R, n, 3)


def c_truthiness(ck, P, R="ATOM/c-truthiness"):
    """an `int` parameter of an exported C function that becomes a `bool` argument of a library function is converted by C's
    truth rule (`!= 0`): zlib's `if (check)` is taken for every non-zero value, not only for 1"""
    n = 0
    for f in sorted(P.fns.values(), key=lambda f: f.path):
        if not (f.crate == "libz_rs_sys" and f.is_extern_c):
            continue
        for c in f.live_calls():
            if not c.callee or not c.callee.startswith(Z):
                continue
            g = P.fns.get(c.callee)
            for i, a in enumerate(f.call_args(c)):
                if g is not None and i + 1 <= g.arg_count and g.locals[i + 1]["ty"] != "bool":
                    continue
                e = mir.strip_casts(a)
                neg = False
                while e[0] == "un" and e[1] == "Not":
                    neg = not neg
                    e = mir.strip_casts(e[2])
                if not (e[0] == "bin" and e[1] in ("Ne", "Eq", "Gt", "Lt", "Ge", "Le")):
                    continue
                x, y = mir.strip_casts(e[2]), mir.strip_casts(e[3])
                if y[0] in ("p", "v") and x[0] == "c":
                    x, y = y, x
                if not (x[0] in ("p", "v") and 1 <= x[1] <= f.arg_count and f.locals[x[1]]["ty"] in ("i32", "core::ffi::c_int", "c_int")):
                    continue
                n += 1
                ck.use_fn(f)
                v = f.const_of(y)
                op = e[1]
                if neg:
                    op = {"Ne": "Eq", "Eq": "Ne"}.get(op, "other")
                ck.decide(op == "Ne" and v == 0, R, "%s:%s" % (f.path.split("::")[-1], f.local_name(x[1]) or "arg%d" % x[1]),
                          "converted with `!= 0`",
                          "%s turns its int parameter `%s` into the bool argument of %s with `%s`: C callers pass any non-zero value for "
                          "true, and zlib-ng tests `if (%s)`" % (f.path, f.local_name(x[1]), c.callee.replace(Z, ""), mir.fmt(a, f)[:40],
                                                                 f.local_name(x[1])), where(f, c.line))
    ck.floor(R, n, 1)


def arm_store_before_suspend(ck, P, fields=("adler",), R="ORDER/arm-store-before-suspend"):
    """deflate(): inside an arm of the header state machine (`if status == X {..}`), a constant store to a stream/state field that
    belongs to the transition is made before the arm can suspend: no branch *inside the arm, after the arm has stored its new status,* whose other side
    leaves the function without passing the store stands before the store.  The arm is left with the new status already set, so
    a store placed behind `if pending != 0 { return Ok }` is skipped for good when the header does not fit the output."""
    f = P.fn(Z + "deflate::deflate")
    if not ck.anchor("fn deflate::deflate", f):
        return
    ck.use_fn(f)
    exits = {b for b, k in f.exits() if k == "return"}
    n = 0
    for bb, fp, root, rv, st in f.field_writes():
        if not fp or str(fp[-1]) not in fields:
            continue
        v = f.const_of(rv if not isinstance(rv, dict) else f.rvalue_expr(rv))
        if v is None:
            continue
        doms = f.dominators_of(bb)
        # innermost dominating edge that tests `status`: the arm
        arm_idx = None
        for i, d in enumerate(doms):
            if d[0] != "e":
                continue
            lab, tb = f.succ[d[1]][d[2]]
            if lab is None or lab[0] == "const":
                continue
            if any(mir.mentions_field(p, "status") for a in f.edge_atoms(d[1], lab) for p in a[1:] if isinstance(p, tuple)):
                arm_idx = i
                break
        if arm_idx is None:
            continue
        n += 1
        bad = None
        arm_edge = doms[arm_idx]
        # blocks of the arm that store the new status
        sblocks = {b2 for b2, fp2, _r, _v, _s in f.field_writes() if fp2 and str(fp2[-1]) == "status" and arm_edge in f.dominators_of(b2)}
        for d in doms[:arm_idx]:
            if d[0] != "e":
                continue
            b, k = d[1], d[2]
            # only a branch taken after the arm has set its new status is a suspension of the finished transition
            if not (b in sblocks or any(("b", sb) in f.dominators_of(b) for sb in sblocks)):
                continue
            for k2, (lab2, tb2) in enumerate(f.succ[b]):
                if k2 == k:
                    continue
                reach = f.reach_from(tb2, block_ok=lambda x: x != bb)
                if reach & exits:
                    bad = f.blocks[b]["t"].get("line")
        inst = "deflate:%s=%s#%d" % (fp[-1], v, n)
        ck.decide(bad is None, R, inst, "stored before the arm can suspend",
                  "deflate() stores `%s = %s` only behind a branch of the same header arm whose other side returns (line %s): when the "
                  "header does not fit the output the arm is left with the new status set and the store never happens (the check "
                  "value then starts from the dictionary's Adler-32 / a stale index)" % (fp[-1], v, bad), where(f, st.get("line") if isinstance(st, dict) else None))
    ck.floor(R, n, 1)


def fast_loop_epilogue(ck, P, R="CUT/fast-loop-epilogue"):
    """the fast decoding loops read whole bytes ahead into the bit buffer; every way out of such a function passes the call that
    hands the unused whole bytes back to the input cursor (BitReader::return_unused_bytes) - also the way out through the
    end-of-block and error breaks"""
    n = 0
    for f in sorted(P.fns.values(), key=lambda f: f.path):
        if not f.path.startswith(Z + "inflate"):
            continue
        cs = f.live_calls(r"inflate::bitreader::BitReader::return_unused_bytes$")
        if not cs:
            continue
        n += 1
        ck.use_fn(f)
        blocks = {c.bb for c in cs}
        reach = f.reach_from(0, block_ok=lambda b: b not in blocks)
        leaks = sorted(b for b, k in f.exits() if k == "return" and b in reach)
        ck.decide(not leaks, R, f.path.replace(Z, ""), "every return passes return_unused_bytes",
                  "%s can return without handing the whole bytes left in the bit buffer back to the input cursor: next_in/avail_in then "
                  "overstate the input consumed (by up to 7 bytes) although the output is right" % f.path.replace(Z, ""),
                  where(f, f.blocks[leaks[0]]["t"].get("line") if leaks else None))
    ck.floor(R, n, 2)
