"""Atom signatures and patterns.  A signature abstracts a canonical branch atom into sets (names,
constants, operators, callees) plus the comparison relation with constant bounds normalised, so
that re-spelling (`x > 286` / `x >= 287` / `!(x <= 286)`, operand order, temporaries) does not
change it while a changed constant, mask, operator or polarity does."""
from . import mir
from .atoms import cval


def _collect(e, fn):
    names, consts, ops, calls, strs = set(), set(), set(), set(), set()
    for x in mir.walk(e):
        t = x[0]
        if t in ("v", "p"):
            n = fn.local_name(x[1]) if fn else None
            if n and n != "self":
                names.add(n)
        elif t == "f":
            names.add(x[2])
        elif t == "c":
            if isinstance(x[1], int):
                consts.add(x[1])
            elif isinstance(x[1], str):
                strs.add(x[1])
            if x[2]:
                names.add(x[2].split("::")[-1])
        elif t == "bin":
            ops.add(x[1])
        elif t == "un":
            ops.add(x[1])
        elif t == "call" and isinstance(x[1], str):
            calls.add(_short(x[1]))
        elif t == "dc" and x[2]:
            names.add(str(x[2]))
        elif t == "agg" and x[2]:
            names.add(str(x[2]))
    return names, consts, ops, calls, strs


def _short(callee):
    parts = callee.split("::")
    last = parts[-1]
    # keep the type for inherent methods: Writer::remaining
    if len(parts) >= 2 and parts[-2][:1].isupper():
        return parts[-2] + "::" + last
    return last


class Sig:
    __slots__ = ("kind", "rel", "lo", "hi", "names", "consts", "ops", "calls", "truth", "variants", "values", "atom", "lo_names", "hi_names", "lo_consts", "hi_consts", "lo_calls", "hi_calls", "lo_val", "hi_val")

    def __repr__(self):
        return "<Sig %s %s names=%s consts=%s ops=%s calls=%s>" % (self.kind, self.rel, sorted(self.names), sorted(self.consts), sorted(self.ops), sorted(self.calls))


def sig(a, fn):
    s = Sig()
    s.atom = a
    s.kind = a[0]
    s.rel = None
    s.truth = None
    s.variants = None
    s.values = None
    s.lo = s.hi = None
    s.lo_val = s.hi_val = None
    s.lo_names = s.hi_names = s.lo_consts = s.hi_consts = s.lo_calls = s.hi_calls = frozenset()
    if a[0] == "cmp":
        op, l, r = a[1], a[2], a[3]
        lv, rv = cval(l), cval(r)
        l0, r0 = l, r
        # normalise strict comparisons against integer constants to non-strict
        if op == "Lt" and lv is not None:
            op, l = "Le", ("c", lv + 1, None, None)
        elif op == "Lt" and rv is not None:
            op, r = "Le", ("c", rv - 1, None, None)
        s.rel = op
        n1, c1, o1, k1, _ = _collect(l, fn)
        n2, c2, o2, k2, _ = _collect(r, fn)
        if l is not l0:
            n1 = n1 | _collect(l0, fn)[0]   # keep the identity of a named constant (e.g. ENOUGH_LENS)
        if r is not r0:
            n2 = n2 | _collect(r0, fn)[0]
        # a side that is pure constant arithmetic (MIN_LEFT - 2) counts as its folded value, not as its parts
        if cval(l) is not None and o1:
            c1 = {cval(l)}
        if cval(r) is not None and o2:
            c2 = {cval(r)}
        s.names, s.consts, s.ops, s.calls = n1 | n2, c1 | c2, o1 | o2, k1 | k2
        s.lo_names, s.hi_names = frozenset(n1), frozenset(n2)
        s.lo_consts, s.hi_consts = frozenset(c1), frozenset(c2)
        s.lo_calls, s.hi_calls = frozenset(k1), frozenset(k2)
        s.lo_val, s.hi_val = cval(l), cval(r)   # a side that is constant arithmetic folds to its value
    elif a[0] == "truth":
        s.names, s.consts, s.ops, s.calls, _ = _collect(a[1], fn)
        s.truth = a[2]
        s.rel = "true" if a[2] else "false"
    elif a[0] == "is":
        s.names, s.consts, s.ops, s.calls, _ = _collect(a[1], fn)
        s.variants = a[2]
        s.truth = a[3]
        s.rel = "is" if a[3] else "isnot"
    elif a[0] == "int":
        s.names, s.consts, s.ops, s.calls, _ = _collect(a[1], fn)
        s.values = a[2]
        s.truth = a[3]
        s.rel = "in" if a[3] else "notin"
    elif a[0] == "range":
        n1, c1, o1, k1, _ = _collect(a[1], fn)
        s.names, s.ops, s.calls = n1, o1, k1
        lo, hi = cval(a[2]), cval(a[3])
        if hi is not None and not a[4]:
            hi -= 1
        s.lo, s.hi = lo, hi
        s.consts = c1 | {x for x in (lo, hi) if x is not None}
        s.truth = a[5]
        s.rel = "range" if a[5] else "notrange"
    else:
        s.names, s.consts, s.ops, s.calls = set(), set(), set(), set()
    return s


def match(s, pat):
    """pat: dict with optional keys rel (str or set), names, consts, ops, calls (subsets), lo_consts,
    hi_consts, lo_names, hi_names, lo_calls, hi_calls, variants, values, lo, hi, not_consts"""
    for k, v in pat.items():
        if k == "rel":
            if isinstance(v, (set, frozenset, tuple, list)):
                if s.rel not in v:
                    return False
            elif s.rel != v:
                return False
        elif k in ("names", "consts", "ops", "calls", "lo_consts", "hi_consts", "lo_names", "hi_names", "lo_calls", "hi_calls", "lo_val", "hi_val"):
            if not set(v) <= set(getattr(s, k)):
                return False
        elif k == "not_consts":
            if set(v) & set(s.consts):
                return False
        elif k == "variants":
            if s.variants is None or not set(v) <= set(s.variants):
                return False
        elif k == "values":
            if s.values is None or not set(v) <= set(s.values):
                return False
        elif k in ("lo", "hi"):
            if getattr(s, k) != v:
                return False
        elif k == "lo_ge":
            ints = [c for c in s.lo_consts if isinstance(c, int)] if s.lo_val is None else [s.lo_val]
            if not ints or max(ints) < v:
                return False
        elif k == "hi_ge":
            ints = [c for c in s.hi_consts if isinstance(c, int)] if s.hi_val is None else [s.hi_val]
            if not ints or max(ints) < v:
                return False
        elif k == "any_names":
            if not set(v) & set(s.names):
                return False
    return True


def find(sigs, pat):
    return [s for s in sigs if match(s, pat)]


def sym_match(s, pat):
    """match a comparison pattern in either orientation for Eq/Ne (lo/hi are interchangeable)"""
    if match(s, pat):
        return True
    if s.rel in ("Eq", "Ne"):
        swapped = dict(pat)
        for a, b in (("lo_consts", "hi_consts"), ("lo_names", "hi_names"), ("lo_calls", "hi_calls")):
            if a in pat or b in pat:
                swapped.pop(a, None)
                swapped.pop(b, None)
                if a in pat:
                    swapped[b] = pat[a]
                if b in pat:
                    swapped[a] = pat[b]
        return match(s, swapped)
    return False


# ----------------------------------------------------------------------------------------------
# guards of a site: the atoms under which a block is entered
# ----------------------------------------------------------------------------------------------

def site_guards(fn, bb, region=None, depth=6):
    """(entry_sigs, dom_sigs): signatures of the conditional edges through which control enters the
    straight-line code leading to block bb (a disjunction), and of the edges dominating bb.
    With `region`, dominating edges outside the region are ignored."""
    preds = fn.preds()
    entry = []
    seen = set()
    work = [(bb, 0)]
    while work:
        b, d = work.pop()
        if b in seen or d > depth:
            continue
        seen.add(b)
        for p, lab in preds.get(b, []):
            if p not in fn.live:
                continue
            if lab is not None and lab[0] != "const":
                for a in fn.edge_atoms(p, lab):
                    entry.append((a, p))
            else:
                # unconditional predecessor: keep walking back only through blocks that have this
                # block as their single successor (straight-line code)
                if len(fn.succ[p]) == 1:
                    work.append((p, d + 1))
    dom = []
    for n in fn.dominators_of(bb):
        if n[0] == "e":
            _, b, k = n
            if region is not None and b not in region:
                continue
            lab, tb = fn.succ[b][k]
            if lab is None or lab[0] == "const":
                continue
            for a in fn.edge_atoms(b, lab):
                dom.append((a, b))
    # dominators of the sources of entry edges (conjuncts of `a && b` chains)
    for a, p in list(entry):
        for n in fn.dominators_of(p):
            if n[0] == "e":
                _, b, k = n
                if region is not None and b not in region:
                    continue
                lab, tb = fn.succ[b][k]
                if lab is None or lab[0] == "const":
                    continue
                for a2 in fn.edge_atoms(b, lab):
                    dom.append((a2, b))
    es = [sig(a, fn) for a, _ in entry]
    ds = [sig(a, fn) for a, _ in dom]
    return es, ds


def backward_guards(fn, bb, depth=4, region=None):
    """signatures of the conditional edges met when walking backwards from block bb, crossing at
    most `depth` conditional edges on any backward path: an over-approximation of the condition
    (conjunctions and disjunctions alike) under which bb is entered.  Returns [(Sig, levels)]."""
    preds = fn.preds()
    out = []
    seen = {}
    work = [(bb, 0)]
    while work:
        b, d = work.pop()
        if seen.get(b, 99) <= d:
            continue
        seen[b] = d
        for p, lab in preds.get(b, []):
            if p not in fn.live or (region is not None and p not in region):
                continue
            if lab is not None and lab[0] != "const":
                for a in fn.edge_atoms(p, lab):
                    out.append((sig(a, fn), d + 1))
                if d + 1 < depth:
                    work.append((p, d + 1))
            else:
                work.append((p, d))
    return out
