"""FEAT rule: a call whose callee carries #[target_feature] must be dominated by a probe (or
cfg!) implying those features, or sit in a caller that has them itself; for `unsafe fn` callers
without a probe the obligation moves to every one of their call sites (bounded depth)."""
import re
from . import mir, shape
from .core import where

# x86 feature implications (hardware facts, as encoded in rustc's target feature table)
IMPLIES = {
    "sse2": {"sse"}, "sse3": {"sse2"}, "ssse3": {"sse3"}, "sse4.1": {"ssse3"}, "sse4.2": {"sse4.1"},
    "avx": {"sse4.2"}, "avx2": {"avx"}, "fma": {"avx"}, "f16c": {"avx"},
    "pclmulqdq": {"sse2"}, "vpclmulqdq": {"avx", "pclmulqdq"},
    "avx512f": {"avx2", "fma", "f16c"}, "avx512bw": {"avx512f"}, "avx512vl": {"avx512f"}, "avx512dq": {"avx512f"},
    "avx512cd": {"avx512f"}, "avx512vnni": {"avx512f"},
}


def closure(fs):
    out = set(fs)
    work = list(fs)
    while work:
        f = work.pop()
        for g in IMPLIES.get(f, ()):
            if g not in out:
                out.add(g)
                work.append(g)
    return out


DETECT_RX = re.compile(r"__is_feature_detected::(\w+)$")


def _feat_name(n):
    return {"sse4_1": "sse4.1", "sse4_2": "sse4.2"}.get(n, n)


def global_features(prog, crate="zlib_rs"):
    return {c.split("=", 1)[1] for c in prog.cfg.get(crate, ()) if c.startswith("target_feature=")}


def probe_features(prog, probe_fn):
    """features that are detected on every path on which the probe function yields a positive
    result: detection calls whose `true` edge dominates the block computing the positive result"""
    detects = []
    for c in probe_fn.live_calls():
        m = DETECT_RX.search(c.callee or "")
        if m:
            detects.append((_feat_name(m.group(1)), c))
    if not detects:
        return set()
    # a detection call counts if no path from it to a return avoids... conservative: conjunction shape —
    # each later detection is control-dependent on the earlier ones being true
    feats = set()
    ordered = sorted(detects, key=lambda x: x[1].bb)
    prev_ok = True
    for i, (name, c) in enumerate(ordered):
        if i == 0:
            feats.add(name)
            continue
        atoms_ = probe_fn.dominating_atoms(c.bb)
        need = ordered[i - 1][0]
        okk = False
        for a in atoms_:
            if a[0] == "truth" and a[2] is True and a[1][0] == "call" and isinstance(a[1][1], str):
                m = DETECT_RX.search(a[1][1])
                if m and _feat_name(m.group(1)) == need:
                    okk = True
        if okk:
            feats.add(name)
        else:
            # disjunctive or independent probes: only the first one is implied
            break
    return feats


def available_at(prog, fn, bb, probe_cache):
    avail = set(global_features(prog, fn.crate)) | set(fn.target_features)
    for a in fn.dominating_atoms(bb):
        if a[0] != "truth" or a[2] is not True:
            continue
        e = a[1]
        if e[0] == "call" and isinstance(e[1], str):
            m = DETECT_RX.search(e[1])
            if m:
                avail.add(_feat_name(m.group(1)))
                continue
            pf = prog.fns.get(e[1])
            if pf is not None and "cpu_features" in pf.path:
                if pf.path not in probe_cache:
                    probe_cache[pf.path] = probe_features(prog, pf)
                avail |= probe_cache[pf.path]
    return closure(avail)


def check(ck, prog, rule, label):
    probe_cache = {}
    n = 0
    kernels = set()
    for f in sorted(prog.fns.values(), key=lambda x: x.path):
        for c in f.live_calls():
            g = prog.fns.get(c.callee)
            if g is None or not g.target_features:
                continue
            kernels.add(g.path)
            n += 1
            ck.call_sites += 1
            ck.use_fn(f)
            need = set(g.target_features)
            okk, why = _establish(prog, f, c.bb, need, probe_cache, 0, set())
            inst = "%s->%s@%s" % (f.path.split("::", 1)[1], g.path.split("::", 1)[1], label)
            ck.decide(okk, rule, inst, why,
                      "call to %s needs target features %s that are not established on this path: %s — on a CPU without them this "
                      "is an illegal instruction" % (g.path, sorted(need - closure(global_features(prog))), why), where(f, c.line))
    return n, kernels, probe_cache


def _establish(prog, f, bb, need, probe_cache, depth, seen):
    avail = available_at(prog, f, bb, probe_cache)
    missing = need - avail
    if not missing:
        return True, "established in %s" % f.path.split("::")[-1]
    if depth >= 3 or (f.path, tuple(sorted(missing))) in seen:
        return False, "missing %s in %s" % (sorted(missing), f.path)
    seen = seen | {(f.path, tuple(sorted(missing)))}
    # obligation moves to the callers only for unsafe fns (documented precondition) or private helpers
    if not (f.is_unsafe or f.j.get("vis") != "Public"):
        return False, "missing %s in safe public fn %s" % (sorted(missing), f.path)
    callers = []
    for g in prog.fns.values():
        for c in g.live_calls():
            if c.callee == f.path:
                callers.append((g, c))
    if not callers:
        # unsafe/private function without any live call site in this configuration: dead code here
        return True, "%s has no live call site in this configuration (dead code)" % f.path.split("::")[-1]
    for g, c in callers:
        okk, why = _establish(prog, g, c.bb, missing, probe_cache, depth + 1, seen)
        if not okk:
            return False, "%s; via caller %s" % (why, g.path)
    return True, "established in all %d callers of %s" % (len(callers), f.path.split("::")[-1])
