"""SIB/ref-writes: zlib-rs is a port of zlib-ng; for the paired functions below every state field that zlib-ng's
function assigns must be assigned by the zlib-rs counterpart (same field, renamed field, or the listed helper call
that performs the store).  A dropped store (a reset that is "obviously redundant", a cursor that is no longer
rebased) is exactly what a refactor loses.  The C side comes from oracles/zlibng_ref.json ("assigned_fields",
frozen from the vendored zlib-ng sources, re-verified against the registry copy when present)."""
import os
import re
import sys

from . import mir
from .core import where
from .ctx import Z

sys.path.insert(0, os.path.join(os.path.dirname(os.path.abspath(__file__)), ".."))
from oracles import zlibng_ref  # noqa: E402

PAIRS = {
    "deflate.c:fill_window": Z + "deflate::fill_window",
    "deflate.c:lm_init": Z + "deflate::lm_init",
    "deflate.c:lm_set_level": Z + "deflate::lm_set_level",
    "deflate.c:deflateResetKeep": Z + "deflate::reset_keep",
    "deflate_fast.c:deflate_fast": Z + "deflate::algorithm::fast::deflate_fast",
    "deflate_slow.c:deflate_slow": Z + "deflate::algorithm::slow::deflate_slow",
    "deflate_medium.c:deflate_medium": Z + "deflate::algorithm::medium::deflate_medium",
    "deflate_quick.c:deflate_quick": Z + "deflate::algorithm::quick::deflate_quick",
    "deflate_rle.c:deflate_rle": Z + "deflate::algorithm::rle::deflate_rle",
    "deflate_huff.c:deflate_huff": Z + "deflate::algorithm::huff::deflate_huff",
    "deflate_stored.c:deflate_stored": Z + "deflate::algorithm::stored::deflate_stored",
    "deflate.c:deflateParams": Z + "deflate::params",
    "deflate.c:deflateSetDictionary": Z + "deflate::set_dictionary",
    "deflate.c:deflateTune": Z + "deflate::tune",
    "deflate.c:deflatePrime": Z + "deflate::prime",
    "inflate.c:inflateResetKeep": Z + "inflate::reset_keep",
    "inflate.c:inflateSync": Z + "inflate::sync",
    "inflate.c:inflateSetDictionary": Z + "inflate::set_dictionary",
    "inflate.c:inflatePrime": Z + "inflate::prime",
    "inflate.c:inflateReset2": Z + "inflate::reset_with_config",
    "infback.c:inflateBack": Z + "inflate::infback::back",
    "inflate.c:inflateGetHeader": Z + "inflate::get_header",
    "deflate.c:deflateSetHeader": Z + "deflate::set_header",
    "deflate.c:deflate": Z + "deflate::deflate",
}

# zlib-ng field -> zlib-rs field
RENAMED = {
    "bi_buf": "bit_buffer", "bi_valid": "bits_valid", "check": "checksum", "distcode": "dist_table", "lencode": "len_table",
    "flags": "gzip_flags",
    # the three hash function pointers are one enum in zlib-rs
    "insert_string": "hash_calc_variant", "quick_insert_string": "hash_calc_variant", "update_hash": "hash_calc_variant",
}
# zlib-ng field -> regex of the zlib-rs callee that performs the store
BY_CALL = {
    "pending": r"Pending::(reset_keep|advance|extend)$|BitWriter::\w+$|flush_pending$",
    "pending_out": r"Pending::(reset_keep|advance)$|flush_pending$",
    "bits": r"BitReader::(init_bits|prime|drop_bits|return_unused_bytes|new|start_sync_search)$",
    "hold": r"BitReader::(init_bits|prime|drop_bits|return_unused_bytes|new|start_sync_search)$",
    "havedict": r"Flags::update$", "last": r"Flags::update$", "sane": r"Flags::update$",
    "whave": r"Window::(clear|set_have)$",
}
# (pair, zlib-ng field) with no counterpart, and why
DROPPED = {
    ("deflate.c:fill_window", "high_water"): "zlib-rs zero-initialises the whole window at allocation; there is no high-water mark",
    ("deflate_stored.c:deflate_stored", "high_water"): "same: no high-water mark in zlib-rs",
    ("infback.c:inflateBack", "distbits"): "the table objects of zlib-rs carry their root bits (Table.bits)",
    ("infback.c:inflateBack", "lenbits"): "same",
}


def _companions_write(P, W, fn, field):
    """True when, in every caller of fn, another callee of that caller (a function that accompanies fn wherever it is
    used) may store the field: a store moved into such a companion is the same store."""
    callers = [P.fns[c] for c in P.callers_of(fn.path) if c in P.fns and c != fn.path]
    if not callers:
        return False
    for cx in callers:
        found = False
        for cp in cx.callee_paths():
            if cp == fn.path or cp not in P.fns:
                continue
            k = P.fns[cp]
            if any(pth and pth[-1] == field for q, pth in W.may(k)):
                found = True
                break
        if not found:
            return False
    return True


def attributed(P, fn):
    """(field names written, callees) by fn itself and by the helpers it calls - local functions that are not themselves the
    counterpart of a zlib-ng function (extracting a helper must not change the verdict; calling another paired function
    such as deflate() from deflateParams does not lend its stores)"""
    paired = set(PAIRS.values())
    seen, work = set(), [fn.path]
    written, callees = set(), set()
    while work:
        p = work.pop()
        if p in seen:
            continue
        seen.add(p)
        f = P.fns.get(p)
        if f is None:
            continue
        written |= {fp[-1] for bi, fp, root, rv, st in f.field_writes()}
        for c in f.live_calls():
            if not c.callee:
                continue
            callees.add(c.callee)
            if c.callee in P.fns and c.callee not in paired and c.callee.startswith(Z) and len(seen) < 40:
                work.append(c.callee)
    return written, callees


# setter-like API functions whose zlib-ng body is the whole contract: they store nothing else
EXACT = {
    "deflate.c:deflateTune": set(),
    "deflate.c:deflateSetHeader": set(),
    "inflate.c:inflateGetHeader": {"done"},     # zlib-ng: head->done = 0 through the header pointer
}


def check(ck, P, rule, only=None, W=None):
    if W is None:
        from . import flow
        W = flow.Writes(P)
    ref = zlibng_ref.load().get("assigned_fields")
    if not ck.anchor("oracle: assigned_fields in zlibng_ref.json", bool(ref)):
        return 0
    n = 0
    for key, path in sorted(PAIRS.items()):
        if only is not None and key not in only:
            continue
        cfields = ref.get(key)
        fn = P.fn(path)
        if not ck.anchor("zlib-ng function %s in the oracle" % key, cfields is not None):
            continue
        if not ck.anchor("fn " + path, fn):
            continue
        ck.use_fn(fn)
        written, callees = attributed(P, fn)
        cname = key.split(":")[1]
        for cf in cfields:
            if (key, cf) in DROPPED:
                continue
            n += 1
            rf = RENAMED.get(cf, cf)
            ok = rf in written or cf in written
            how = "assigned"
            if not ok and cf in BY_CALL:
                ok = any(re.search(BY_CALL[cf], c) for c in callees)
                how = "stored through a helper call"
            if not ok and _companions_write(P, W, fn, rf):
                ok = True
                how = "stored by a function that accompanies it in every caller"
            ck.decide(ok, rule, "%s:%s" % (cname, cf), how,
                      "zlib-ng's %s assigns `%s`; %s no longer stores `%s` (directly%s): the port has lost a state update of its reference"
                      % (cname, cf, path.replace(Z, ""), rf, " or through " + BY_CALL[cf] if cf in BY_CALL else ""), where(fn))
        if key in EXACT:
            allowed = {RENAMED.get(cf, cf) for cf in cfields} | set(cfields) | EXACT[key]
            extra = sorted(w for w in written if w not in allowed and not w.isdigit())
            n += 1
            ck.decide(not extra, rule, "%s:nothing-else" % cname, "stores only what zlib-ng's %s stores" % cname,
                      "%s (with its helpers) also stores %s, which zlib-ng's %s does not touch: the call changes more of the stream's state "
                      "than its reference does" % (path.replace(Z, ""), extra, cname), where(fn))
    return n
