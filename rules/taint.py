"""TAINT rule family (added with D24): a caller-chosen integer that an API setter stores into the state without any
range test must not feed overflow-checked arithmetic.

TAINT/api-int-arith
  sources  fields of the compression state that some function reachable from the entry points assigns from one of its
           integer parameters through nothing but casts, in a function where no live branch tests that parameter, and
           whose API-side callers pass their own integer parameters through untested as well (deflateTune's four knobs on
           today's tree).  The set is discovered from the program on every run and must not be empty.
  flow     inside each reachable function, a local is tainted when one of its definitions is a load of a source field
           or a cast / shift-right / subtraction / addition / multiplication of a tainted local (flow-insensitive over the
           function's MIR locals, so a loop-carried counter stays tainted).
  sinks    `tainted Add/Sub/Mul-WithOverflow x` whose overflow flag is asserted (the dev-profile MIR the driver reads keeps
           those assert terminators): with overflow checks on, a caller-supplied value panics inside an `extern "C"`
           function, which aborts the process.  A sink is accepted only when a dominating branch bounds the tainted
           operand on the side that can overflow (Sub: operand > / >= / != const dominating; Add/Mul: operand < / <= const).
Wrapping / saturating / checked method calls are not sinks: they are calls, not checked binary operators."""
from . import mir
from .core import where
from .ctx import Z

INT_TYPES = {"i8", "i16", "i32", "i64", "isize", "u8", "u16", "u32", "u64", "usize", "core::ffi::c_int", "core::ffi::c_uint",
             "c_int", "c_uint", "c_ulong", "core::ffi::c_ulong"}
PROPAGATE_BIN = {"Shr", "ShrUnchecked", "Sub", "Add", "Mul", "SubWithOverflow", "AddWithOverflow", "MulWithOverflow", "SubUnchecked", "AddUnchecked"}
SINK_OPS = {"SubWithOverflow", "AddWithOverflow", "MulWithOverflow"}


def _only_casts_of_param(fn, e):
    """index of the integer parameter that e is a pure cast chain of, else None"""
    e = mir.strip_casts(e)
    if e[0] in ("p", "v") and 1 <= e[1] <= fn.arg_count and not fn.defs.get(e[1]):
        ty = fn.locals[e[1]]["ty"]
        if ty in INT_TYPES:
            return e[1]
    return None


def _param_tested(fn, idx):
    """some live conditional of fn mentions parameter idx"""
    for bi in fn.live:
        t = fn.blocks[bi]["t"]
        if t["k"] != "switch":
            continue
        d = fn.operand_expr(t["discr"]) if "discr" in t else None
        if d is None:
            continue
        for x in mir.walk(d):
            if x[0] in ("p", "v") and x[1] == idx:
                return True
    return False


def sources(P, reach):
    """{field_name: [(setter fn, param name)]} of unvalidated API integers stored into a state field"""
    out = {}
    for p in sorted(reach):
        fn = P.fns.get(p)
        if fn is None or not fn.path.startswith(Z + "deflate::"):
            continue
        for bb, fp, root, rv, st in fn.field_writes():
            idx = _only_casts_of_param(fn, rv)
            if idx is None or _param_tested(fn, idx):
                continue
            # the API-side callers hand their own integer parameter through untested
            callers = [P.fns[c] for c in P.callers_of(fn.path) if c in P.fns and c in reach]
            if not callers:
                continue
            raw = False
            for cf in callers:
                for c in cf.live_calls():
                    if c.callee != fn.path:
                        continue
                    a = cf.call_args(c)
                    if idx - 1 < len(a):
                        j = _only_casts_of_param(cf, a[idx - 1])
                        if j is not None and not _param_tested(cf, j) and cf.is_extern_c:
                            raw = True
            if raw:
                out.setdefault(fp[-1], []).append((fn, fn.local_name(idx) or "arg%d" % idx))
    return out


def _mentions_local(e, loc):
    for x in mir.walk(e):
        if x[0] in ("p", "v") and x[1] == loc:
            return True
    return False


def tainted_locals(fn, fields):
    """{local: field} by a flow-insensitive closure over the definitions of fn's locals (unexpanded statements)"""
    taint = {}
    stmts = []
    for bi, si, lhs, rv, s in fn.assignments():
        if "p" in lhs and lhs["p"]:
            continue
        stmts.append((lhs["l"], rv))
    changed = True
    while changed:
        changed = False
        for l, rv in stmts:
            if l in taint:
                continue
            k = rv["k"]
            src = None
            if k in ("use", "cast"):
                e = fn.operand_expr(rv["a"], expand=False)
                src = _field_or_taint(e, fields, taint)
            elif k == "bin" and rv["op"] in PROPAGATE_BIN:
                a = fn.operand_expr(rv["a"], expand=False)
                src = _field_or_taint(a, fields, taint)
            if src:
                taint[l] = src
                changed = True
    return taint


def _field_or_taint(e, fields, taint):
    e0 = e
    while e0[0] == "cast":
        e0 = e0[1]
    if e0[0] in ("p", "v") and e0[1] in taint:
        return taint[e0[1]]
    # tuple field 0 of a checked operation on a tainted local
    if e0[0] == "bin" and e0[2][0] in ("p", "v") and e0[2][1] in taint:
        return taint[e0[2][1]]
    if e0[0] == "f" and e0[2] in fields:
        return e0[2]
    return None


def _bounded(fn, bb, loc, field, op):
    """a dominating branch compares the tainted operand with a constant on the side that matters"""
    for a in fn.dominating_atoms(bb):
        if not isinstance(a, tuple) or len(a) < 3:
            continue
        rel, x, y = a[0], a[1], a[2]
        sides = [s for s in (x, y) if isinstance(s, tuple)]
        if not any(_mentions_local(s, loc) or mir.mentions_field(s, field) for s in sides):
            continue
        if rel in ("Gt", "Ge", "Lt", "Le", "Ne", "Eq"):
            return True
    return False


def api_int_arith(ck, P, roots, R="TAINT/api-int-arith"):
    reach = P.reachable_from(roots)
    src = sources(P, reach)
    if not ck.anchor("an API setter that stores an unvalidated integer parameter into the compression state (deflateTune)", bool(src)):
        return
    fields = set(src)
    for f, lst in sorted(src.items()):
        ck.ok(R + "/source", f, "stored unvalidated by %s" % ", ".join("%s(%s)" % (fn.path.replace(Z, ""), pn) for fn, pn in lst))
    n_fn = n_sink = 0
    for p in sorted(reach):
        fn = P.fns.get(p)
        if fn is None or not fn.path.startswith(Z):
            continue
        txt_hit = False
        for bi, si, lhs, rv, s in fn.assignments():
            if rv["k"] in ("use", "cast"):
                e = fn.operand_expr(rv["a"], expand=False)
                while e[0] == "cast":
                    e = e[1]
                if e[0] == "f" and e[2] in fields:
                    txt_hit = True
                    break
        if not txt_hit:
            continue
        n_fn += 1
        ck.use_fn(fn)
        taint = tainted_locals(fn, fields)
        seen = {}
        for bi, si, lhs, rv, s in fn.assignments():
            if rv["k"] != "bin" or rv["op"] not in SINK_OPS:
                continue
            a = fn.operand_expr(rv["a"], expand=False)
            b = fn.operand_expr(rv["b"], expand=False)
            hit = None
            for side, other in ((a, b), (b, a)):
                s0 = side
                while s0[0] == "cast":
                    s0 = s0[1]
                if s0[0] in ("p", "v") and s0[1] in taint:
                    hit = (s0[1], taint[s0[1]])
                    break
                if s0[0] == "f" and s0[2] in fields:
                    hit = (None, s0[2])
                    break
            if not hit:
                continue
            loc, field = hit
            # Sub with the tainted value on the right of a tainted-free left, or on the left with a constant right: both can overflow
            n_sink += 1
            name = fn.local_name(loc) if loc is not None else field
            inst = "%s:%s:%s" % (fn.path.replace(Z, ""), name or field, rv["op"].replace("WithOverflow", ""))
            seen[inst] = seen.get(inst, 0) + 1
            ok = _bounded(fn, bi, loc if loc is not None else -1, field, rv["op"])
            ck.decide(ok, R, inst, "checked %s on a value derived from state.%s is dominated by a comparison of that value" % (rv["op"], field),
                      "%s applies an overflow-checked %s to `%s`, which carries the unvalidated API integer state.%s (stored by %s): a "
                      "caller-chosen value overflows it, and with overflow checks on the panic inside an extern \"C\" function aborts the "
                      "process (C's unsigned arithmetic wraps here)" % (
                          fn.path.replace(Z, ""), rv["op"].replace("WithOverflow", "").lower(), name or field, field,
                          ", ".join(x.path.replace(Z, "") for x, _ in src[field])), where(fn, s.get("line")))
    ck.rule_counts[R] = {"matched": n_sink, "floor": 0, "source_fields": sorted(fields), "functions_reading_a_source": n_fn}
    ck.floor(R + ":readers", n_fn, 2)
