"""Extraction of the elementary conditions of C functions (zlib-ng reference sources).

For a function body the boolean regions are: the controlling expressions of if/while/for/do-while, the condition of a
ternary, and the right-hand side of an assignment that contains &&, || or a comparison.  Each region is split at its
top-level && and || (through parentheses) into leaf terms; a leaf with a comparison operator at its top level is a
comparison, any other leaf is a truthiness test (`x` -> x != 0, `!x` -> x == 0).  A leaf is summarised by the tokens a
port can be expected to keep: state/stream fields, macro and enum names (with their integer values where known),
local identifiers, integer literals.  No C compiler is involved - this is a tokeniser with bracket matching, used only
to *discover* candidate instances; rules/condparity.py freezes the instances that match the Rust code today."""
import re

TOK = re.compile(r"""
    (?P<num>0[xX][0-9a-fA-F]+[uUlL]*|\d+[uUlL]*)
  | (?P<id>[A-Za-z_]\w*)
  | (?P<op>==|!=|<=|>=|&&|\|\||<<=|>>=|<<|>>|\+\+|--|\+=|-=|\*=|/=|%=|&=|\|=|\^=|->|[-+*/%&|^~!<>=?:;,.(){}\[\]])
  | (?P<str>"(?:\\.|[^"\\])*"|'(?:\\.|[^'\\])*')
""", re.X)

CMP = {"==", "!=", "<", "<=", ">", ">="}
ASSIGN = {"=", "+=", "-=", "*=", "/=", "%=", "&=", "|=", "^=", "<<=", ">>="}
NOISE_CALLS = {"Assert", "Tracev", "Tracevv", "Trace", "Tracec", "Tracecv", "z_error", "fprintf"}
TYPES = {"unsigned", "int", "long", "char", "short", "size_t", "uint8_t", "uint16_t", "uint32_t", "uint64_t", "int64_t", "int32_t",
         "Pos", "const", "void", "struct", "deflate_state", "inflate_state", "uInt", "uLong", "z_size_t", "ptrdiff_t", "block_state",
         "static", "register", "signed", "z_uintmax_t", "PREFIX3", "PREFIX", "stream", "z_stream", "zng_stream"}
WRAPPERS = {"LIKELY", "UNLIKELY", "likely", "unlikely", "Z_UNLIKELY", "Z_LIKELY"}


def tokens(src):
    out = []
    for m in TOK.finditer(src):
        k = m.lastgroup
        if k == "str":
            continue
        out.append((k, m.group(0)))
    return out


def strip_noise(toks):
    """remove Assert(...)/Trace*(...) calls entirely"""
    out = []
    i = 0
    while i < len(toks):
        k, v = toks[i]
        if k == "id" and v in NOISE_CALLS and i + 1 < len(toks) and toks[i + 1][1] == "(":
            d = 0
            j = i + 1
            while j < len(toks):
                if toks[j][1] == "(":
                    d += 1
                elif toks[j][1] == ")":
                    d -= 1
                    if d == 0:
                        break
                j += 1
            i = j + 1
            continue
        out.append(toks[i])
        i += 1
    return out


def _match_paren(toks, i):
    d = 0
    for j in range(i, len(toks)):
        if toks[j][1] == "(":
            d += 1
        elif toks[j][1] == ")":
            d -= 1
            if d == 0:
                return j
    return len(toks) - 1


def regions(toks):
    """token sub-lists that are boolean regions"""
    out = []
    n = len(toks)
    i = 0
    while i < n:
        k, v = toks[i]
        if k == "id" and v in ("if", "while") and i + 1 < n and toks[i + 1][1] == "(":
            j = _match_paren(toks, i + 1)
            out.append(toks[i + 2:j])
            i += 2
            continue
        if k == "id" and v == "for" and i + 1 < n and toks[i + 1][1] == "(":
            j = _match_paren(toks, i + 1)
            inner = toks[i + 2:j]
            parts, cur, d = [], [], 0
            for t in inner:
                if t[1] == "(":
                    d += 1
                elif t[1] == ")":
                    d -= 1
                if t[1] == ";" and d == 0:
                    parts.append(cur)
                    cur = []
                else:
                    cur.append(t)
            parts.append(cur)
            if len(parts) >= 2 and parts[1]:
                out.append(parts[1])
            i += 2
            continue
        if k == "op" and v in ASSIGN:
            # right-hand side up to the ';' at depth 0
            j, d, rhs = i + 1, 0, []
            while j < n:
                t = toks[j][1]
                if t in "([{":
                    d += 1
                elif t in ")]}":
                    d -= 1
                    if d < 0:
                        break
                if t in (";", ",") and d == 0:
                    break
                rhs.append(toks[j])
                j += 1
            if any(t[1] in CMP or t[1] in ("&&", "||", "?") for t in rhs):
                # a ternary: keep the condition part only
                q = _top_index(rhs, "?")
                out.append(rhs[:q] if q is not None else rhs)
        if k == "id" and v == "return":
            j, d, rhs = i + 1, 0, []
            while j < n and not (toks[j][1] == ";" and d == 0):
                if toks[j][1] in "([{":
                    d += 1
                elif toks[j][1] in ")]}":
                    d -= 1
                rhs.append(toks[j])
                j += 1
            if any(t[1] in ("&&", "||", "?") for t in rhs):
                q = _top_index(rhs, "?")
                out.append(rhs[:q] if q is not None else rhs)
        i += 1
    return out


def _top_index(toks, op):
    d = 0
    for i, t in enumerate(toks):
        if t[1] in "([":
            d += 1
        elif t[1] in ")]":
            d -= 1
        elif t[1] == op and d == 0:
            return i
    return None


def _strip_parens(toks):
    while len(toks) >= 2 and toks[0][1] == "(" and _match_paren(toks, 0) == len(toks) - 1:
        toks = toks[1:-1]
    # LIKELY(x) wrappers
    if len(toks) >= 3 and toks[0][0] == "id" and toks[0][1] in WRAPPERS and toks[1][1] == "(" and _match_paren(toks, 1) == len(toks) - 1:
        return _strip_parens(toks[2:-1])
    return toks


def leaves(region):
    """split at top-level && and || recursively; yields token lists"""
    region = _strip_parens(region)
    parts, cur, d = [], [], 0
    for t in region:
        if t[1] in "([":
            d += 1
        elif t[1] in ")]":
            d -= 1
        if t[1] in ("&&", "||") and d == 0:
            parts.append(cur)
            cur = []
        else:
            cur.append(t)
    parts.append(cur)
    if len(parts) == 1:
        q = _top_index(region, "?")
        if q is not None:
            yield from leaves(region[:q])
            return
        yield region
        return
    for p in parts:
        if p:
            yield from leaves(p)


def summarise(leaf, macros, enums):
    """-> dict(text, cls, fields, names, locals, consts) or None"""
    leaf = _strip_parens(leaf)
    if not leaf:
        return None
    neg = False
    while leaf and leaf[0][1] == "!":
        neg = not neg
        leaf = _strip_parens(leaf[1:])
    # top-level comparison?
    d, ci = 0, None
    for i, t in enumerate(leaf):
        if t[1] in "([":
            d += 1
        elif t[1] in ")]":
            d -= 1
        elif t[1] in CMP and d == 0:
            ci = i
            break
    text = " ".join(t[1] for t in leaf).replace(" . ", ".").replace("( ", "(").replace(" )", ")")
    if ci is not None:
        op = leaf[ci][1]
        cls = "eq" if op in ("==", "!=") else "ord"
        toks = leaf[:ci] + leaf[ci + 1:]
    else:
        cls = "eq"
        op = "==0" if neg else "!=0"
        toks = leaf
        text = ("!" if neg else "") + text
    fields, names, locs, consts = set(), set(), set(), set()
    raw = {}
    for i, (k, v) in enumerate(toks):
        if k == "num":
            consts.add(int(re.sub(r"[uUlL]+$", "", v), 0))
        elif k == "id":
            prev = toks[i - 1][1] if i else ""
            nxt = toks[i + 1][1] if i + 1 < len(toks) else ""
            if v in TYPES or v in WRAPPERS or v in ("s", "state", "strm", "NULL", "sizeof"):
                continue
            if prev == ".":
                if nxt == ".":
                    continue        # s.strm.avail_in: `strm` is a path element
                fields.add(v)
            elif v in enums:
                names.add(enums[v])
                raw[enums[v]] = v
            elif v in macros and isinstance(macros[v], int):
                names.add(v)
                consts.add(macros[v])
            elif v.isupper() or (v[:1].isupper() and "_" in v):
                names.add(v)
            else:
                locs.add(v)
    if ci is None and not neg:
        consts.add(0)
    elif ci is None:
        consts.add(0)
    if not (fields or names or locs):
        return None
    return dict(text=text if ci is not None else text, op=op, cls=cls, fields=sorted(fields), names=sorted(names), locals=sorted(locs),
                consts=sorted(consts), raw=raw)


def conditions(body, macros=None, enums=None):
    toks = strip_noise(tokens(body))
    seen, out = set(), []
    for reg in regions(toks):
        for leaf in leaves(reg):
            s = summarise(leaf, macros or {}, enums or {})
            if s is None:
                continue
            key = (s["text"], s["op"])
            if key in seen:
                continue
            seen.add(key)
            out.append(s)
    return out
