"""Extract reference parameters from the zlib-ng C sources vendored by libz-sys-1.1.29 in the cargo
registry (the sources the pinned test-suite links as its reference) and freeze them in
zlibng_ref.json.  Only text parsing of C initialisers/macros; nothing is compiled or run.

python3 oracles/zlibng_ref.py --freeze   rewrites the frozen extract
load() returns the frozen extract; verify_against_registry() re-parses the registry copy (when present)
and reports differences (a checker error, not a property violation)."""
import glob
import hashlib
import json
import os
import re
import sys

HERE = os.path.dirname(os.path.abspath(__file__))
FROZEN = os.path.join(HERE, "zlibng_ref.json")


# id -> (C file, regex over whitespace-normalised text): tuning conditions that decide which bytes are emitted
HEURISTICS_C = {
    "slow:filtered-short-match": ("deflate_slow.c", r"match_len <= 5 && \(s->strategy == Z_FILTERED\)"),
    "slow:lazy-prev-better": ("deflate_slow.c", r"s->prev_length >= STD_MIN_MATCH && match_len <= s->prev_length"),
    "slow:lazy-limit": ("deflate_slow.c", r"s->prev_length < s->max_lazy_match"),
    "slow:long-chain-matcher": ("deflate_slow.c", r"s->max_chain_length <= 1024"),
    "fast:min-match": ("deflate_fast.c", r"match_len >= WANT_MIN_MATCH"),
    "fast:insert-limit": ("deflate_fast.c", r"match_len <= s->max_insert_length && s->lookahead >= WANT_MIN_MATCH"),
    "quick:min-match": ("deflate_quick.c", r"match_len >= WANT_MIN_MATCH"),
    "quick:pending-room": ("deflate_quick.c", r"s->pending \+ \(\(BIT_BUF_SIZE \+ 7\) >> 3\) >= s->pending_buf_size"),
    "rle:lookahead": ("deflate_rle.c", r"s->lookahead <= STD_MAX_MATCH"),
    "rle:min-match": ("deflate_rle.c", r"match_len >= STD_MIN_MATCH"),
    "medium:insert-limit": ("deflate_medium.c", r"match.match_length <= 16 \* s->max_insert_length && s->lookahead >= WANT_MIN_MATCH"),
    "medium:fizzle-256": ("deflate_medium.c", r"n.match_length >= 256"),
    "medium:lookahead-next": ("deflate_medium.c", r"s->lookahead > MIN_LOOKAHEAD"),
    "match:good-match-quarter": ("match_tpl.h", r"best_len >= s->good_match\) chain_length >>= 2"),
    "match:nice-match": ("match_tpl.h", r"best_len >= nice_match"),
    "match:early-exit": ("match_tpl.h", r"early_exit = s->level < EARLY_EXIT_TRIGGER_LEVEL"),
}


def registry_dir():
    c = glob.glob(os.path.expanduser("~/.cargo/registry/src/*/libz-sys-1.1.29/src/zlib-ng"))
    return c[0] if c else None


def _read(d, f):
    with open(os.path.join(d, f), encoding="utf-8", errors="replace") as fh:
        return fh.read()


def _strip_comments(s):
    s = re.sub(r"/\*.*?\*/", " ", s, flags=re.S)
    s = re.sub(r"//[^\n]*", " ", s)
    return s


def _active_preproc(src, defined=()):
    """very small preprocessor: keeps the branch of #ifdef X / #ifndef X / #else for names in/out of `defined`;
    other conditionals keep their first branch"""
    out = []
    stack = []  # list of bool (emitting?)
    for line in src.splitlines():
        st = line.strip()
        m = re.match(r"#\s*(ifdef|ifndef|if|elif|else|endif)\b\s*(.*)", st)
        if m:
            kind, rest = m.group(1), m.group(2).strip()
            if kind == "ifdef":
                stack.append([rest.split()[0] in defined, False])
            elif kind == "ifndef":
                stack.append([rest.split()[0] not in defined, False])
            elif kind == "if":
                mm = re.match(r"defined\s*\(?\s*(\w+)\s*\)?\s*$", rest)
                mn = re.match(r"!\s*defined\s*\(?\s*(\w+)\s*\)?\s*$", rest)
                if mm:
                    stack.append([mm.group(1) in defined, False])
                elif mn:
                    stack.append([mn.group(1) not in defined, False])
                else:
                    stack.append([True, False])
            elif kind == "elif":
                if stack:
                    was = stack[-1][0] or stack[-1][1]
                    stack[-1] = [not was, was]
            elif kind == "else":
                if stack:
                    was = stack[-1][0] or stack[-1][1]
                    stack[-1] = [not was, True]
            elif kind == "endif":
                if stack:
                    stack.pop()
            continue
        if all(x[0] for x in stack):
            out.append(line)
    return "\n".join(out)


def _ints(body):
    return [int(x, 0) for x in re.findall(r"-?\b(?:0[xX][0-9a-fA-F]+|\d+)\b", body)]


def _array(src, name):
    m = re.search(r"\b%s\s*\[[^\]]*\]\s*=\s*\{(.*?)\};" % re.escape(name), src, flags=re.S)
    if not m:
        raise KeyError(name)
    return m.group(1)


def _macro(src, name):
    m = re.search(r"#\s*define\s+%s\s+(.+)" % re.escape(name), src)
    if not m:
        raise KeyError(name)
    return m.group(1).strip()


def _macro_int(src, name, env=None):
    v = _macro(src, name)
    v = _strip_comments(v).strip()
    v = re.sub(r"(\d+)[uUlL]+\b", r"\1", v)
    env = env or {}
    for k, val in env.items():
        v = re.sub(r"\b%s\b" % k, str(val), v)
    if not re.fullmatch(r"[\d\s()+\-*<>x0-9a-fA-F]+", v):
        raise ValueError("cannot evaluate macro %s = %s" % (name, v))
    return int(eval(v, {"__builtins__": {}}))  # arithmetic over literals only (checked by the regex)


# (C file, C function) pairs whose assigned state fields are compared with the Rust counterpart (rules/refwrites.py)
ASSIGNED_IN = [
    ("deflate.c", "fill_window"), ("deflate.c", "lm_init"), ("deflate.c", "lm_set_level"), ("deflate.c", "deflateResetKeep"),
    ("deflate_fast.c", "deflate_fast"), ("deflate_slow.c", "deflate_slow"), ("deflate_medium.c", "deflate_medium"),
    ("deflate_quick.c", "deflate_quick"), ("deflate_rle.c", "deflate_rle"), ("deflate_huff.c", "deflate_huff"),
    ("deflate_stored.c", "deflate_stored"), ("deflate.c", "deflateParams"), ("deflate.c", "deflateSetDictionary"),
    ("deflate.c", "deflateTune"), ("deflate.c", "deflatePrime"), ("inflate.c", "inflateResetKeep"), ("inflate.c", "inflateSync"),
    ("inflate.c", "inflateSetDictionary"), ("inflate.c", "inflatePrime"), ("inflate.c", "inflateReset2"),
    ("infback.c", "inflateBack"), ("infback.c", "inflateBackInit"), ("inflate.c", "inflateCopy"), ("deflate.c", "deflateCopy"),
    ("inflate.c", "inflateGetHeader"), ("deflate.c", "deflateSetHeader"), ("inflate.c", "inflate"), ("deflate.c", "deflate"),
    ("deflate.c", "deflateInit2"), ("inflate.c", "inflateInit2"), ("inflate.c", "updatewindow"),
]


def _c_function_body(src, name):
    m = re.search(r"^[^\n;{}]*\b(?:PREFIX\d?\(%s\)|%s)\s*\([^;{]*\)\s*\{" % (name, name), src, flags=re.M)
    if not m:
        return None
    i, depth = m.end(), 1
    while depth and i < len(src):
        if src[i] == "{":
            depth += 1
        elif src[i] == "}":
            depth -= 1
        i += 1
    return src[m.end():i]


def _assigned_fields(body):
    out = set()
    for m in re.finditer(r"\b(?:s|state|strm)->(?:x\.|strm\.)?(\w+)\s*(?:=(?!=)|\+=|-=|\|=|&=|\^=|<<=|>>=|\+\+|--)", body):
        out.add(m.group(1))
    for m in re.finditer(r"(?:\+\+|--)\s*(?:s|state|strm)->(?:x\.|strm\.)?(\w+)", body):
        out.add(m.group(1))
    return sorted(out)


def extract(d):
    ref = {"files": {}}

    def src(f, defined=()):
        raw = _read(d, f)
        ref["files"][f] = hashlib.sha256(raw.encode()).hexdigest()
        return _active_preproc(_strip_comments(raw), defined)

    deflate_c = src("deflate.c")
    body = _array(deflate_c, "configuration_table")
    rows = re.findall(r"\{\s*(\d+)\s*,\s*(\d+)\s*,\s*(\d+)\s*,\s*(\d+)\s*,\s*(\w+)\s*\}", body)
    ref["configuration_table"] = [[int(a), int(b), int(c), int(e), f] for a, b, c, e, f in rows]

    zutil = src("zutil.h")
    deflate_h = src("deflate.h", defined=("LIT_MEM",))
    zconf = src("zconf-ng.h.in")
    env = {}
    env["STD_MIN_MATCH"] = _macro_int(zutil, "STD_MIN_MATCH")
    env["STD_MAX_MATCH"] = _macro_int(zutil, "STD_MAX_MATCH")
    env["WANT_MIN_MATCH"] = _macro_int(zutil, "WANT_MIN_MATCH")
    env["MIN_LOOKAHEAD"] = _macro_int(deflate_h, "MIN_LOOKAHEAD", env)
    env["HASH_BITS"] = _macro_int(deflate_h, "HASH_BITS")
    env["HASH_SIZE"] = _macro_int(deflate_h, "HASH_SIZE")
    env["MAX_MEM_LEVEL"] = _macro_int(zconf, "MAX_MEM_LEVEL")
    env["MAX_WBITS"] = _macro_int(zconf, "MAX_WBITS")
    env["MIN_WBITS"] = _macro_int(zconf, "MIN_WBITS")
    env["DEF_MEM_LEVEL"] = _macro_int(zutil, "DEF_MEM_LEVEL")
    for nm in ("LENGTH_CODES", "LITERALS", "D_CODES", "BL_CODES", "MAX_BITS", "MAX_BL_BITS", "END_BLOCK", "REP_3_6", "REPZ_3_10",
               "REPZ_11_138", "DIST_CODE_LEN", "BIT_BUF_SIZE"):
        for s in (deflate_h, zutil, src("trees.h"), src("trees.c"), src("trees_emit.h")):
            try:
                env[nm] = _macro_int(s, nm, env)
                break
            except (KeyError, ValueError):
                continue
    env["L_CODES"] = env["LITERALS"] + 1 + env["LENGTH_CODES"]
    env["HEAP_SIZE"] = 2 * env["L_CODES"] + 1
    env["EARLY_EXIT_TRIGGER_LEVEL"] = _macro_int(src("match_tpl.h"), "EARLY_EXIT_TRIGGER_LEVEL")
    ins = src("insert_string.c")
    env["HASH_SLIDE_STD"] = _macro_int(ins, "HASH_SLIDE")
    m = re.search(r"val\s*\*\s*(\d+)U", _macro(ins, "HASH_CALC(h, val)") if False else ins)
    env["HASH_MULT_STD"] = int(m.group(1)) if m else None
    env["HASH_SLIDE_ROLL"] = _macro_int(src("insert_string_roll.c"), "HASH_SLIDE")
    # LIT_BUFS under LIT_MEM
    lb = re.findall(r"#\s*define\s+LIT_BUFS\s+(\d+)", _read(d, "deflate.h"))
    env["LIT_BUFS_LIT_MEM"] = int(lb[0]) if lb else None
    env["LIT_BUFS_NO_LIT_MEM"] = int(lb[1]) if len(lb) > 1 else None
    ref["macros"] = env

    tt = src("trees_tbl.h")
    sl = _array(tt, "static_ltree")
    pairs = re.findall(r"\{\{\s*(\d+)\s*\}\s*,\s*\{\s*(\d+)\s*\}\}", sl)
    ref["static_ltree"] = [[int(a), int(b)] for a, b in pairs]
    sd = _array(tt, "static_dtree")
    pairs = re.findall(r"\{\{\s*(\d+)\s*\}\s*,\s*\{\s*(\d+)\s*\}\}", sd)
    ref["static_dtree"] = [[int(a), int(b)] for a, b in pairs]
    ref["dist_code"] = _ints(_array(tt, "zng_dist_code"))
    ref["length_code"] = _ints(_array(tt, "zng_length_code"))
    ref["base_length"] = _ints(_array(tt, "base_length"))
    ref["base_dist"] = _ints(_array(tt, "base_dist"))
    tc = src("trees.c")
    for nm in ("extra_lbits", "extra_dbits", "extra_blbits", "bl_order"):
        for s in (tc, tt, src("trees.h")):
            try:
                ref[nm] = _ints(_array(s, nm))
                break
            except KeyError:
                continue
    it = src("inftrees.c")
    for nm in ("lbase", "lext", "dbase", "dext"):
        ref[nm] = _ints(_array(it, nm))
    fx = src("inffixed_tbl.h")
    ref["lenfix"] = [[int(a), int(b), int(c)] for a, b, c in re.findall(r"\{\s*(\d+)\s*,\s*(\d+)\s*,\s*(\d+)\s*\}", _array(fx, "lenfix"))]
    ref["distfix"] = [[int(a), int(b), int(c)] for a, b, c in re.findall(r"\{\s*(\d+)\s*,\s*(\d+)\s*,\s*(\d+)\s*\}", _array(fx, "distfix"))]
    # exported prototypes
    zh = _read(d, "zlib.h.in")
    ref["files"]["zlib.h.in"] = hashlib.sha256(zh.encode()).hexdigest()
    protos = re.findall(r"Z_EXTERN\s+(?:Z_DEPRECATED\s+)?[\w\s\*]+?Z_EXPORT(?:VA)?\s+(\w+)\s*\(", _strip_comments(zh))
    ref["prototypes"] = sorted(set(protos))
    # x86 CRC folding constants (all 32-bit hex literals of the PCLMULQDQ/VPCLMULQDQ templates)
    fc = set()
    for f in ("arch/x86/crc32_pclmulqdq_tpl.h", "arch/x86/crc32_fold_pclmulqdq_tpl.h", "arch/x86/crc32_fold_vpclmulqdq_tpl.h"):
        try:
            raw = _read(d, f)
        except OSError:
            continue
        ref["files"][f] = hashlib.sha256(raw.encode()).hexdigest()
        for m in re.findall(r"0x([0-9a-fA-F]{8})\b", _strip_comments(raw)):
            fc.add(int(m, 16))
    ref["x86_fold_constants"] = sorted(fc)
    # heuristic conditions of the compress functions (presence of the C condition text)
    heur = {}
    for hid, (f, rx) in HEURISTICS_C.items():
        try:
            txt = _strip_comments(_read(d, f))
            ref["files"][f] = hashlib.sha256(_read(d, f).encode()).hexdigest()
            heur[hid] = bool(re.search(rx, re.sub(r"\s+", " ", txt)))
        except OSError:
            heur[hid] = False
    ref["heuristics"] = heur
    # state fields assigned by selected functions
    asg = {}
    for f, name in ASSIGNED_IN:
        try:
            raw = _read(d, f)
            ref["files"][f] = hashlib.sha256(raw.encode()).hexdigest()
            body = _c_function_body(_strip_comments(raw), name)
            asg["%s:%s" % (f, name)] = _assigned_fields(body) if body is not None else None
        except OSError:
            asg["%s:%s" % (f, name)] = None
    ref["assigned_fields"] = asg
    # crc tables
    try:
        cb = src("crc32_braid_tbl.h")
        ref["crc_table"] = _ints(_array(cb, "crc_table"))[:256]
    except Exception:
        pass
    return ref


def load():
    with open(FROZEN) as fh:
        return json.load(fh)


def verify_against_registry():
    d = registry_dir()
    if not d:
        return None
    fresh = extract(d)
    frozen = load()
    diffs = [k for k in frozen if k != "files" and frozen[k] != fresh.get(k)]
    return diffs


if __name__ == "__main__":
    if "--freeze" in sys.argv:
        d = registry_dir()
        if not d:
            sys.exit("registry copy of zlib-ng not found")
        ref = extract(d)
        with open(FROZEN, "w") as fh:
            json.dump(ref, fh, indent=0, sort_keys=True)
        print("frozen:", {k: (len(v) if hasattr(v, "__len__") else v) for k, v in ref.items()})
    else:
        print(verify_against_registry())
