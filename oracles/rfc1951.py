"""RFC 1951 (DEFLATE) tables, generated from the rules stated in the RFC text — independent of
zlib-rs and zlib-ng sources.

§3.2.5: length symbols 257..285 and distance symbols 0..29 with their extra-bit counts;
§3.2.6: fixed Huffman code lengths; §3.2.2: canonical code assignment; §3.2.7: code-length order.
"""

MIN_MATCH = 3
MAX_MATCH = 258
MAX_DIST = 32768


def length_table():
    """list of (symbol, extra_bits, base_length) for symbols 257..285"""
    out = []
    base = 3
    sym = 257
    # 257..264: 0 extra bits, one length each
    for _ in range(8):
        out.append((sym, 0, base))
        base += 1
        sym += 1
    # then groups of four symbols with 1..5 extra bits
    for extra in range(1, 6):
        for _ in range(4):
            out.append((sym, extra, base))
            base += 1 << extra
            sym += 1
    # the last group would run to 258 inclusive; the RFC gives 258 its own symbol 285 with 0 extra
    # bits, and symbol 284 covers only 227..257
    assert base == 259 and sym == 285
    out.append((285, 0, 258))
    return out


def dist_table():
    """list of (symbol, extra_bits, base_distance) for symbols 0..29"""
    out = []
    base = 1
    sym = 0
    for _ in range(4):
        out.append((sym, 0, base))
        base += 1
        sym += 1
    for extra in range(1, 14):
        for _ in range(2):
            out.append((sym, extra, base))
            base += 1 << extra
            sym += 1
    assert base == 32769 and sym == 30
    return out


def length_symbol(length):
    """(symbol, extra_bits, extra_value) for a match length 3..258"""
    t = length_table()
    if length == 258:
        return (285, 0, 0)
    best = None
    for sym, extra, base in t[:-1]:
        if base <= length < base + (1 << extra):
            best = (sym, extra, length - base)
    assert best is not None
    return best


def dist_symbol(dist):
    for sym, extra, base in dist_table():
        if base <= dist < base + (1 << extra):
            return (sym, extra, dist - base)
    raise ValueError(dist)


def fixed_litlen_lengths():
    return [8] * 144 + [9] * 112 + [7] * 24 + [8] * 8


def fixed_dist_lengths():
    return [5] * 32


def canonical_codes(lengths):
    """§3.2.2: codes (MSB-first integers) for a list of code lengths (0 = unused)"""
    max_bits = max(lengths)
    bl_count = [0] * (max_bits + 1)
    for l in lengths:
        if l:
            bl_count[l] += 1
    code = 0
    next_code = [0] * (max_bits + 2)
    for bits in range(1, max_bits + 1):
        code = (code + bl_count[bits - 1]) << 1
        next_code[bits] = code
    codes = []
    for l in lengths:
        if l:
            codes.append(next_code[l])
            next_code[l] += 1
        else:
            codes.append(None)
    return codes


def bit_reverse(v, n):
    r = 0
    for _ in range(n):
        r = (r << 1) | (v & 1)
        v >>= 1
    return r


CODE_LENGTH_ORDER = [16, 17, 18, 0, 8, 7, 9, 6, 10, 5, 11, 4, 12, 3, 13, 2, 14, 1, 15]

# §3.2.7: extra bits of the code-length alphabet symbols 16, 17, 18 and their repeat bases
CL_EXTRA = {16: (2, 3), 17: (3, 3), 18: (7, 11)}
MAX_CODE_BITS = 15
MAX_CL_BITS = 7
N_LITLEN = 286   # usable literal/length symbols 0..285
N_DIST = 30
N_CL = 19
STORED_MAX = 65535


def decode_fixed_litlen(index9):
    """decode the fixed literal/length code from the low bits of a 9-bit LSB-first window:
    returns (symbol, nbits)"""
    lens = fixed_litlen_lengths()
    codes = canonical_codes(lens)
    for sym in range(288):
        n = lens[sym]
        if bit_reverse(codes[sym], n) == (index9 & ((1 << n) - 1)):
            return sym, n
    raise ValueError(index9)


def decode_fixed_dist(index5):
    return bit_reverse(index5 & 31, 5), 5
