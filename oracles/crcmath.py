"""CRC-32 (IEEE 802.3, reflected polynomial 0xEDB88320) and Adler-32 constants from their
mathematical definitions.  Independent of the zlib-rs and zlib-ng sources."""

POLY_REFLECTED = 0xEDB88320          # x^32+x^26+...+1 with bit 31 = x^0
POLY_NORMAL = 0x104C11DB7


def step(c, nbits):
    """multiply the polynomial held in the reflected 32-bit register by x^nbits modulo P"""
    for _ in range(nbits):
        c = (c >> 1) ^ (POLY_REFLECTED if c & 1 else 0)
    return c


def byte_table():
    """T[n] = n(x) * x^8 mod P — the classic byte-at-a-time table"""
    return [step(n, 8) for n in range(256)]


def braid_table(words, n_braids, word_bytes=8):
    """table[i][j] = j(x) * x^(8*(W*N - i)) mod P (crc-doc §4.11: MulWordByXpowD)"""
    return [[step(j, 8 * (word_bytes * n_braids - i)) for j in range(256)] for i in range(words)]


def x_pow(n):
    """x^n mod P in the reflected representation (bit 31 = x^0)"""
    return step(1 << 31, n)


def x2n_table():
    """x^(2^n) mod P for n = 0..31, by repeated squaring: independent of the shift loop"""
    out = []
    p = x_pow(1)
    for n in range(32):
        out.append(p)
        p = multmod(p, p)
    return out


def multmod(a, b):
    """a(x)*b(x) mod P, reflected operands — schoolbook over GF(2) then reduction, not zlib's loop"""
    # convert to normal bit order (bit k = x^k)
    def norm(v):
        return int(bin(v)[2:].zfill(32)[::-1], 2)
    A, B = norm(a), norm(b)
    prod = 0
    i = 0
    while B >> i:
        if (B >> i) & 1:
            prod ^= A << i
        i += 1
    # reduce modulo POLY_NORMAL
    while prod.bit_length() > 32:
        prod ^= POLY_NORMAL << (prod.bit_length() - 33)
    return norm(prod)


def fold_const(n):
    """(x^n mod P) as used by the PCLMULQDQ folding constants: reflected value shifted left by one"""
    return x_pow(n) << 1


ADLER_MODULUS_BITS = 16


def adler_base():
    """largest prime below 2^16"""
    n = (1 << 16) - 1
    while True:
        if all(n % d for d in range(2, int(n ** 0.5) + 1)):
            return n
        n -= 1


def adler_nmax(base=None):
    """largest n such that 255*n*(n+1)/2 + (n+1)*(BASE-1) <= 2^32 - 1 (zlib's NMAX definition)"""
    base = base or adler_base()
    n = 0
    while 255 * (n + 1) * (n + 2) // 2 + (n + 2) * (base - 1) <= (1 << 32) - 1:
        n += 1
    return n
