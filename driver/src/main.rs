//! zfacts: rustc_private driver that dumps the type-checked program (unoptimised MIR, ADTs,
//! evaluated constants, attributes) of local crates as JSON facts for the Python rule engine.
//!
//! Used as RUSTC_WORKSPACE_WRAPPER; output directory from env ZFACTS_OUT; crates to dump from
//! env ZFACTS_CRATES (comma separated crate names, default "zlib_rs,libz_rs_sys").
#![feature(rustc_private)]
#![allow(clippy::all)]

extern crate rustc_abi;
extern crate rustc_driver;
extern crate rustc_hir;
extern crate rustc_interface;
extern crate rustc_lint;
extern crate rustc_lint_defs;
extern crate rustc_middle;
extern crate rustc_session;
extern crate rustc_span;

use rustc_hir::def::DefKind;
use rustc_hir::def_id::{DefId, LOCAL_CRATE};
use rustc_middle::mir::{self, interpret::GlobalAlloc};
use rustc_middle::ty::{self, Ty, TyCtxt};
use rustc_span::Span;
use std::fmt::Write as _;

mod json;
use json::J;

struct Cb;

impl rustc_driver::Callbacks for Cb {
    fn after_analysis<'tcx>(
        &mut self,
        _c: &rustc_interface::interface::Compiler,
        tcx: TyCtxt<'tcx>,
    ) -> rustc_driver::Compilation {
        let krate = tcx.crate_name(LOCAL_CRATE).to_string();
        let want = std::env::var("ZFACTS_CRATES").unwrap_or_else(|_| "zlib_rs,libz_rs_sys".into());
        if !want.split(',').any(|w| w == krate) {
            return rustc_driver::Compilation::Continue;
        }
        let out = match std::env::var("ZFACTS_OUT") {
            Ok(o) => o,
            Err(_) => return rustc_driver::Compilation::Continue,
        };
        let _g1 = ty::print::CrateNamePrefixGuard::new();
        let _g2 = ty::print::NoVisibleGuard::new();
        let _g3 = ty::print::NoTrimmedGuard::new();
        let d = Dumper { tcx, const_args: Default::default() };
        let j = d.dump_crate(&krate);
        let mut s = String::new();
        j.write(&mut s);
        let path = format!("{}/{}.json", out, krate);
        std::fs::write(&path, s).expect("write facts");
        rustc_driver::Compilation::Continue
    }
}

fn main() {
    let mut args: Vec<String> = std::env::args().collect();
    // RUSTC_WORKSPACE_WRAPPER: argv[1] is the path of the real rustc
    if args.len() > 1 && (args[1].ends_with("rustc") || args[1].contains("/rustc")) {
        args.remove(1);
    }
    rustc_driver::run_compiler(&args, &mut Cb);
}

struct Dumper<'tcx> {
    tcx: TyCtxt<'tcx>,
    /// integer const-generic arguments seen at call sites (instantiation values for generic consts)
    const_args: std::cell::RefCell<std::collections::BTreeSet<(String, u64)>>,
}

fn obj() -> J {
    J::Obj(Vec::new())
}

impl<'tcx> Dumper<'tcx> {
    fn path(&self, did: DefId) -> String {
        self.tcx.def_path_str(did)
    }

    fn span_info(&self, sp: Span, o: &mut J) {
        let sm = self.tcx.sess.source_map();
        // innermost non-expansion call site for the human-readable location
        let root = sp.source_callsite();
        let lo = sm.lookup_char_pos(root.lo());
        o.set("line", J::Int(lo.line as i128));
        o.set("file", J::Str(format!("{}", lo.file.name.prefer_local_unconditionally())));
        if sp.from_expansion() {
            let mut names = Vec::new();
            for e in sp.macro_backtrace() {
                names.push(J::Str(e.kind.descr()));
            }
            o.set("exp", J::Arr(names));
        }
    }

    fn ty_str(&self, t: Ty<'tcx>) -> String {
        format!("{}", t)
    }

    fn place(&self, body: &mir::Body<'tcx>, p: &mir::Place<'tcx>) -> J {
        let mut o = obj();
        o.set("l", J::Int(p.local.as_usize() as i128));
        let mut projs = Vec::new();
        for (base, elem) in p.iter_projections() {
            let bty = base.ty(body, self.tcx);
            match elem {
                mir::ProjectionElem::Deref => projs.push(J::Str("*".into())),
                mir::ProjectionElem::Field(f, fty) => {
                    let mut fo = obj();
                    fo.set("f", J::Int(f.as_usize() as i128));
                    let mut name = format!("{}", f.as_usize());
                    let mut adt = String::new();
                    if let ty::Adt(def, _) = bty.ty.kind() {
                        let v = match bty.variant_index {
                            Some(v) => def.variant(v),
                            None => def.non_enum_variant(),
                        };
                        if def.is_enum() || def.is_struct() || def.is_union() {
                            if f.as_usize() < v.fields.len() {
                                name = v.fields[f].name.to_string();
                            }
                        }
                        adt = self.path(def.did());
                        if let Some(vi) = bty.variant_index {
                            fo.set("variant", J::Str(def.variant(vi).name.to_string()));
                        }
                    }
                    fo.set("name", J::Str(name));
                    if !adt.is_empty() {
                        fo.set("adt", J::Str(adt));
                    }
                    fo.set("ty", J::Str(self.ty_str(fty)));
                    projs.push(fo);
                }
                mir::ProjectionElem::Index(l) => {
                    let mut fo = obj();
                    fo.set("idx", J::Int(l.as_usize() as i128));
                    projs.push(fo);
                }
                mir::ProjectionElem::ConstantIndex { offset, min_length, from_end } => {
                    let mut fo = obj();
                    fo.set("cidx", J::Int(offset as i128));
                    fo.set("min_len", J::Int(min_length as i128));
                    fo.set("from_end", J::Bool(from_end));
                    projs.push(fo);
                }
                mir::ProjectionElem::Subslice { from, to, from_end } => {
                    let mut fo = obj();
                    fo.set("sub", J::Arr(vec![J::Int(from as i128), J::Int(to as i128)]));
                    fo.set("from_end", J::Bool(from_end));
                    projs.push(fo);
                }
                mir::ProjectionElem::Downcast(name, vi) => {
                    let mut fo = obj();
                    fo.set("downcast", J::Int(vi.as_usize() as i128));
                    if let Some(n) = name {
                        fo.set("name", J::Str(n.to_string()));
                    } else if let ty::Adt(def, _) = bty.ty.kind() {
                        fo.set("name", J::Str(def.variant(vi).name.to_string()));
                    }
                    projs.push(fo);
                }
                mir::ProjectionElem::OpaqueCast(_) => projs.push(J::Str("opaque".into())),
                mir::ProjectionElem::UnwrapUnsafeBinder(_) => projs.push(J::Str("unbind".into())),
            }
        }
        if !projs.is_empty() {
            o.set("p", J::Arr(projs));
        }
        o
    }

    fn scalar_of_constvalue(&self, v: mir::ConstValue, ty: Ty<'tcx>, o: &mut J) {
        match v {
            mir::ConstValue::Scalar(mir::interpret::Scalar::Int(i)) => {
                let size = i.size();
                let bits = i.to_bits(size);
                let signed = matches!(ty.kind(), ty::Int(_));
                let val: i128 = if signed {
                    size.sign_extend(bits) as i128
                } else {
                    bits as i128
                };
                o.set("val", J::Int(val));
                o.set("bits", J::Int(size.bits() as i128));
            }
            mir::ConstValue::Scalar(mir::interpret::Scalar::Ptr(p, _)) => {
                let (prov, off) = p.into_raw_parts();
                let mut po = obj();
                self.alloc_target(prov.alloc_id(), &mut po, 0);
                po.set("off", J::Int(off.bytes() as i128));
                o.set("ptr", po);
            }
            mir::ConstValue::ZeroSized => {
                o.set("zst", J::Bool(true));
            }
            mir::ConstValue::Slice { alloc_id, meta } => {
                let mut so = obj();
                so.set("meta", J::Int(meta as i128));
                if let GlobalAlloc::Memory(a) = self.tcx.global_alloc(alloc_id) {
                    let a = a.inner();
                    let len = a.len();
                    if len <= 4096 {
                        let bytes = a.inspect_with_uninit_and_ptr_outside_interpreter(0..len);
                        if matches!(ty.kind(), ty::Ref(_, inner, _) if inner.is_str()) {
                            so.set("str", J::Str(String::from_utf8_lossy(bytes).to_string()));
                        } else {
                            so.set("hex", J::Str(hex(bytes)));
                        }
                    }
                }
                o.set("slice", so);
            }
            mir::ConstValue::Indirect { alloc_id, offset } => {
                let mut io = obj();
                self.alloc_target(alloc_id, &mut io, 0);
                io.set("off", J::Int(offset.bytes() as i128));
                o.set("indirect", io);
            }
        }
    }

    fn alloc_target(&self, id: mir::interpret::AllocId, o: &mut J, depth: usize) {
        match self.tcx.try_get_global_alloc(id) {
            Some(GlobalAlloc::Function { instance }) => {
                o.set("fn", J::Str(self.path(instance.def_id())));
                o.set("fn_inst", J::Str(format!("{}", instance)));
            }
            Some(GlobalAlloc::Static(did)) => {
                o.set("static", J::Str(self.path(did)));
            }
            Some(GlobalAlloc::Memory(a)) => {
                if depth < 3 {
                    let a = a.inner();
                    let len = a.len();
                    if len <= (1 << 20) {
                        let bytes = a.inspect_with_uninit_and_ptr_outside_interpreter(0..len);
                        o.set("hex", J::Str(hex(bytes)));
                        let mut ptrs = Vec::new();
                        for (off, prov) in a.provenance().ptrs().iter() {
                            let mut po = obj();
                            po.set("at", J::Int(off.bytes() as i128));
                            self.alloc_target(prov.alloc_id(), &mut po, depth + 1);
                            ptrs.push(po);
                        }
                        if !ptrs.is_empty() {
                            o.set("ptrs", J::Arr(ptrs));
                        }
                    }
                }
            }
            Some(GlobalAlloc::VTable(..)) => {
                o.set("vtable", J::Bool(true));
            }
            Some(GlobalAlloc::TypeId { .. }) => {
                o.set("typeid", J::Bool(true));
            }
            None => {}
        }
    }

    fn constant(&self, owner: DefId, c: &mir::ConstOperand<'tcx>) -> J {
        let mut o = obj();
        let cty = c.const_.ty();
        o.set("k", J::Str("const".into()));
        o.set("ty", J::Str(self.ty_str(cty)));
        if let ty::FnDef(did, gargs) = cty.kind() {
            o.set("fn", J::Str(self.path(*did)));
            let ga: Vec<J> = gargs.iter().map(|a| J::Str(format!("{}", a))).collect();
            for a in gargs.iter() {
                if let Some(c) = a.as_const() {
                    if let Some(v) = c.try_to_target_usize(self.tcx) {
                        if v <= 64 {
                            // keyed by the module of the callee: a generic const is instantiated only
                            // at values its own module's functions are instantiated with
                            let m = self.tcx.parent_module_from_def_id_pub(*did);
                            self.const_args.borrow_mut().insert((m, v));
                        }
                    }
                }
            }
            if !ga.is_empty() {
                o.set("gargs", J::Arr(ga));
            }
            // resolve trait methods to their implementation where possible
            let env = ty::TypingEnv::post_analysis(self.tcx, owner);
            if let Ok(Some(inst)) = ty::Instance::try_resolve(self.tcx, env, *did, gargs) {
                let rd = inst.def_id();
                if rd != *did {
                    o.set("resolved", J::Str(self.path(rd)));
                }
                if let ty::InstanceKind::Item(_) = inst.def {
                } else {
                    o.set("inst_kind", J::Str(format!("{:?}", inst.def).chars().take(60).collect()));
                }
            }
            o.set("local", J::Bool(did.is_local()));
            o.set("krate", J::Str(self.tcx.crate_name(did.krate).to_string()));
            return o;
        }
        match c.const_ {
            mir::Const::Unevaluated(u, _) => {
                if u.promoted.is_some() {
                    o.set("promoted", J::Int(u.promoted.unwrap().as_usize() as i128));
                    o.set("def", J::Str(self.path(u.def)));
                } else {
                    o.set("def", J::Str(self.path(u.def)));
                    let ga: Vec<J> = u.args.iter().map(|a| J::Str(format!("{}", a))).collect();
                    if !ga.is_empty() {
                        o.set("gargs", J::Arr(ga));
                    }
                }
                let env = ty::TypingEnv::post_analysis(self.tcx, owner);
                if !u.args.has_non_region_param_pub() {
                    if let Ok(v) = self.tcx.const_eval_resolve(env, u, rustc_span::DUMMY_SP) {
                        self.scalar_of_constvalue(v, cty, &mut o);
                    }
                }
            }
            mir::Const::Val(v, ty) => {
                self.scalar_of_constvalue(v, ty, &mut o);
            }
            mir::Const::Ty(_, ct) => {
                o.set("tyconst", J::Str(format!("{}", ct)));
                if let Some(v) = ct.try_to_target_usize(self.tcx) {
                    o.set("val", J::Int(v as i128));
                }
            }
        }
        o
    }

    fn operand(&self, owner: DefId, body: &mir::Body<'tcx>, op: &mir::Operand<'tcx>) -> J {
        match op {
            mir::Operand::Copy(p) => {
                let mut o = self.place(body, p);
                o.set("k", J::Str("copy".into()));
                o
            }
            mir::Operand::Move(p) => {
                let mut o = self.place(body, p);
                o.set("k", J::Str("move".into()));
                o
            }
            mir::Operand::Constant(c) => self.constant(owner, c),
            mir::Operand::RuntimeChecks(rc) => {
                let mut o = obj();
                o.set("k", J::Str("const".into()));
                o.set("ty", J::Str("bool".into()));
                o.set("runtime_check", J::Str(format!("{:?}", rc)));
                o
            }
        }
    }

    fn rvalue(&self, owner: DefId, body: &mir::Body<'tcx>, rv: &mir::Rvalue<'tcx>) -> J {
        let mut o = obj();
        match rv {
            mir::Rvalue::Use(op, _) => {
                o.set("k", J::Str("use".into()));
                o.set("a", self.operand(owner, body, op));
            }
            mir::Rvalue::Repeat(op, n) => {
                o.set("k", J::Str("repeat".into()));
                o.set("a", self.operand(owner, body, op));
                o.set("n", J::Str(format!("{}", n)));
            }
            mir::Rvalue::Ref(_, bk, p) => {
                o.set("k", J::Str("ref".into()));
                o.set("mut", J::Bool(matches!(bk, mir::BorrowKind::Mut { .. })));
                o.set("place", self.place(body, p));
            }
            mir::Rvalue::ThreadLocalRef(did) => {
                o.set("k", J::Str("tlref".into()));
                o.set("def", J::Str(self.path(*did)));
            }
            mir::Rvalue::RawPtr(k, p) => {
                o.set("k", J::Str("rawptr".into()));
                o.set("mut", J::Bool(matches!(k, mir::RawPtrKind::Mut)));
                o.set("place", self.place(body, p));
            }
            mir::Rvalue::Cast(ck, op, ty) => {
                o.set("k", J::Str("cast".into()));
                o.set("cast", J::Str(format!("{:?}", ck).chars().take(80).collect()));
                o.set("a", self.operand(owner, body, op));
                o.set("ty", J::Str(self.ty_str(*ty)));
                o.set("from_ty", J::Str(self.ty_str(op.ty(body, self.tcx))));
            }
            mir::Rvalue::BinaryOp(bop, ab) => {
                o.set("k", J::Str("bin".into()));
                o.set("op", J::Str(format!("{:?}", bop)));
                o.set("a", self.operand(owner, body, &ab.0));
                o.set("b", self.operand(owner, body, &ab.1));
            }
            mir::Rvalue::UnaryOp(uop, a) => {
                o.set("k", J::Str("un".into()));
                o.set("op", J::Str(format!("{:?}", uop)));
                o.set("a", self.operand(owner, body, a));
            }
            mir::Rvalue::Discriminant(p) => {
                o.set("k", J::Str("discr".into()));
                o.set("place", self.place(body, p));
                let pty = p.ty(body, self.tcx).ty;
                o.set("ty", J::Str(self.ty_str(pty)));
            }
            mir::Rvalue::Aggregate(kind, ops) => {
                o.set("k", J::Str("agg".into()));
                let opsj: Vec<J> = ops.iter().map(|x| self.operand(owner, body, x)).collect();
                match &**kind {
                    mir::AggregateKind::Array(_) => o.set("agg", J::Str("array".into())),
                    mir::AggregateKind::Tuple => o.set("agg", J::Str("tuple".into())),
                    mir::AggregateKind::Adt(did, vi, _, _, active) => {
                        o.set("agg", J::Str("adt".into()));
                        o.set("adt", J::Str(self.path(*did)));
                        let def = self.tcx.adt_def(*did);
                        let v = def.variant(*vi);
                        o.set("variant", J::Str(v.name.to_string()));
                        o.set("vi", J::Int(vi.as_usize() as i128));
                        let names: Vec<J> = if let Some(a) = active {
                            vec![J::Str(v.fields[*a].name.to_string())]
                        } else {
                            v.fields.iter().map(|f| J::Str(f.name.to_string())).collect()
                        };
                        o.set("fields", J::Arr(names));
                    }
                    mir::AggregateKind::Closure(did, _) => {
                        o.set("agg", J::Str("closure".into()));
                        o.set("def", J::Str(self.path(*did)));
                    }
                    mir::AggregateKind::RawPtr(..) => o.set("agg", J::Str("rawptr".into())),
                    _ => o.set("agg", J::Str("other".into())),
                }
                o.set("ops", J::Arr(opsj));
            }
            mir::Rvalue::CopyForDeref(p) => {
                o.set("k", J::Str("use".into()));
                let mut po = self.place(body, p);
                po.set("k", J::Str("copy".into()));
                o.set("a", po);
            }
            mir::Rvalue::WrapUnsafeBinder(op, _) => {
                o.set("k", J::Str("use".into()));
                o.set("a", self.operand(owner, body, op));
            }
        }
        o
    }

    fn body(&self, did: DefId, body: &mir::Body<'tcx>) -> J {
        let mut o = obj();
        o.set("arg_count", J::Int(body.arg_count as i128));
        let mut locals = Vec::new();
        for (_, ld) in body.local_decls.iter_enumerated() {
            let mut lo = obj();
            lo.set("ty", J::Str(self.ty_str(ld.ty)));
            locals.push(lo);
        }
        // debug names
        for vdi in &body.var_debug_info {
            if let mir::VarDebugInfoContents::Place(p) = &vdi.value {
                if p.projection.is_empty() {
                    let idx = p.local.as_usize();
                    if let J::Obj(_) = &locals[idx] {
                        locals[idx].set("name", J::Str(vdi.name.to_string()));
                    }
                } else {
                    // closure captures etc: record at body level
                }
            }
        }
        o.set("locals", J::Arr(locals));
        let mut blocks = Vec::new();
        for (_bb, bd) in body.basic_blocks.iter_enumerated() {
            let mut bo = obj();
            if bd.is_cleanup {
                bo.set("cleanup", J::Bool(true));
            }
            let mut stmts = Vec::new();
            for st in &bd.statements {
                match &st.kind {
                    mir::StatementKind::Assign(b) => {
                        let (p, rv) = &**b;
                        let mut so = obj();
                        so.set("k", J::Str("assign".into()));
                        so.set("lhs", self.place(body, p));
                        so.set("rv", self.rvalue(did, body, rv));
                        self.span_info(st.source_info.span, &mut so);
                        stmts.push(so);
                    }
                    mir::StatementKind::SetDiscriminant { place, variant_index } => {
                        let mut so = obj();
                        so.set("k", J::Str("setdiscr".into()));
                        so.set("lhs", self.place(body, place));
                        so.set("vi", J::Int(variant_index.as_usize() as i128));
                        self.span_info(st.source_info.span, &mut so);
                        stmts.push(so);
                    }
                    mir::StatementKind::Intrinsic(i) => {
                        let mut so = obj();
                        match &**i {
                            mir::NonDivergingIntrinsic::Assume(op) => {
                                so.set("k", J::Str("assume".into()));
                                so.set("a", self.operand(did, body, op));
                            }
                            mir::NonDivergingIntrinsic::CopyNonOverlapping(c) => {
                                so.set("k", J::Str("copy_nonoverlapping".into()));
                                so.set("src", self.operand(did, body, &c.src));
                                so.set("dst", self.operand(did, body, &c.dst));
                                so.set("count", self.operand(did, body, &c.count));
                            }
                        }
                        self.span_info(st.source_info.span, &mut so);
                        stmts.push(so);
                    }
                    _ => {}
                }
            }
            bo.set("s", J::Arr(stmts));
            let term = bd.terminator();
            let mut to = obj();
            match &term.kind {
                mir::TerminatorKind::Goto { target } => {
                    to.set("k", J::Str("goto".into()));
                    to.set("t", J::Int(target.as_usize() as i128));
                }
                mir::TerminatorKind::SwitchInt { discr, targets } => {
                    to.set("k", J::Str("switch".into()));
                    to.set("discr", self.operand(did, body, discr));
                    to.set("discr_ty", J::Str(self.ty_str(discr.ty(body, self.tcx))));
                    let mut ts = Vec::new();
                    for (v, t) in targets.iter() {
                        ts.push(J::Arr(vec![J::Int(v as i128), J::Int(t.as_usize() as i128)]));
                    }
                    to.set("targets", J::Arr(ts));
                    to.set("otherwise", J::Int(targets.otherwise().as_usize() as i128));
                }
                mir::TerminatorKind::UnwindResume => to.set("k", J::Str("resume".into())),
                mir::TerminatorKind::UnwindTerminate(_) => to.set("k", J::Str("terminate".into())),
                mir::TerminatorKind::Return => to.set("k", J::Str("return".into())),
                mir::TerminatorKind::Unreachable => to.set("k", J::Str("unreachable".into())),
                mir::TerminatorKind::Drop { place, target, unwind, .. } => {
                    to.set("k", J::Str("drop".into()));
                    to.set("place", self.place(body, place));
                    to.set("t", J::Int(target.as_usize() as i128));
                    if let mir::UnwindAction::Cleanup(u) = unwind {
                        to.set("unwind", J::Int(u.as_usize() as i128));
                    }
                }
                mir::TerminatorKind::Call { func, args, destination, target, unwind, fn_span, .. } => {
                    to.set("k", J::Str("call".into()));
                    to.set("func", self.operand(did, body, func));
                    let a: Vec<J> = args.iter().map(|x| self.operand(did, body, &x.node)).collect();
                    to.set("args", J::Arr(a));
                    to.set("dest", self.place(body, destination));
                    if let Some(t) = target {
                        to.set("t", J::Int(t.as_usize() as i128));
                    }
                    if let mir::UnwindAction::Cleanup(u) = unwind {
                        to.set("unwind", J::Int(u.as_usize() as i128));
                    }
                    let sm = self.tcx.sess.source_map();
                    let lo = sm.lookup_char_pos(fn_span.source_callsite().lo());
                    to.set("fn_line", J::Int(lo.line as i128));
                }
                mir::TerminatorKind::TailCall { func, args, .. } => {
                    to.set("k", J::Str("tailcall".into()));
                    to.set("func", self.operand(did, body, func));
                    let a: Vec<J> = args.iter().map(|x| self.operand(did, body, &x.node)).collect();
                    to.set("args", J::Arr(a));
                }
                mir::TerminatorKind::Assert { cond, expected, msg, target, unwind } => {
                    to.set("k", J::Str("assert".into()));
                    to.set("cond", self.operand(did, body, cond));
                    to.set("expected", J::Bool(*expected));
                    let m: String = format!("{:?}", msg).chars().take(40).collect();
                    let kind = m.split(|c: char| !c.is_alphanumeric()).next().unwrap_or("").to_string();
                    to.set("msg", J::Str(kind));
                    to.set("t", J::Int(target.as_usize() as i128));
                    if let mir::UnwindAction::Cleanup(u) = unwind {
                        to.set("unwind", J::Int(u.as_usize() as i128));
                    }
                }
                mir::TerminatorKind::FalseEdge { real_target, .. } => {
                    to.set("k", J::Str("goto".into()));
                    to.set("t", J::Int(real_target.as_usize() as i128));
                }
                mir::TerminatorKind::FalseUnwind { real_target, .. } => {
                    to.set("k", J::Str("goto".into()));
                    to.set("t", J::Int(real_target.as_usize() as i128));
                }
                mir::TerminatorKind::InlineAsm { targets, .. } => {
                    to.set("k", J::Str("asm".into()));
                    let ts: Vec<J> = targets.iter().map(|t| J::Int(t.as_usize() as i128)).collect();
                    to.set("ts", J::Arr(ts));
                }
                _ => to.set("k", J::Str("other".into())),
            }
            self.span_info(term.source_info.span, &mut to);
            bo.set("t", to);
            blocks.push(bo);
        }
        o.set("blocks", J::Arr(blocks));
        o
    }

    fn dump_fn(&self, did: DefId) -> J {
        let tcx = self.tcx;
        let mut o = obj();
        o.set("path", J::Str(self.path(did)));
        let kind = tcx.def_kind(did);
        o.set("kind", J::Str(format!("{:?}", kind)));
        let sp = tcx.def_span(did);
        let sm = tcx.sess.source_map();
        let full = if let Some(ld) = did.as_local() {
            tcx.hir_span_with_body(tcx.local_def_id_to_hir_id(ld))
        } else {
            sp
        };
        let lo = sm.lookup_char_pos(full.lo());
        let hi = sm.lookup_char_pos(full.hi());
        o.set("file", J::Str(format!("{}", lo.file.name.prefer_local_unconditionally())));
        o.set("line", J::Int(lo.line as i128));
        o.set("line_hi", J::Int(hi.line as i128));
        if matches!(kind, DefKind::Fn | DefKind::AssocFn) {
            let sig = tcx.fn_sig(did).instantiate_identity().skip_norm_wip();
            let sig = sig.skip_binder();
            o.set("unsafe", J::Bool(sig.safety().is_unsafe()));
            o.set("abi", J::Str(format!("{:?}", sig.abi())));
            let ins: Vec<J> = sig.inputs().iter().map(|t| J::Str(self.ty_str(*t))).collect();
            o.set("inputs", J::Arr(ins));
            o.set("output", J::Str(self.ty_str(sig.output())));
            o.set("vis", J::Str(format!("{:?}", tcx.visibility(did))));
            o.set("const", J::Bool(tcx.is_const_fn(did)));
            let g = tcx.generics_of(did);
            let gp: Vec<J> = g.own_params.iter().map(|p| J::Str(p.name.to_string())).collect();
            o.set("generics", J::Arr(gp));
        }
        let attrs = tcx.codegen_fn_attrs(did);
        let tf: Vec<J> = attrs.target_features.iter().map(|f| J::Str(f.name.to_string())).collect();
        if !tf.is_empty() {
            o.set("target_features", J::Arr(tf));
        }
        if let Some(n) = attrs.symbol_name {
            o.set("export_name", J::Str(n.to_string()));
        }
        if attrs.flags.contains(rustc_middle::middle::codegen_fn_attrs::CodegenFnAttrFlags::NO_MANGLE) {
            o.set("no_mangle", J::Bool(true));
        }
        o.set("inline", J::Str(format!("{:?}", attrs.inline)));
        if let Some(ld) = did.as_local() {
            let hid = tcx.local_def_id_to_hir_id(ld);
            let store = rustc_lint::unerased_lint_store(tcx.sess);
            for l in store.get_lints() {
                if l.name_lower() == "unsafe_code" {
                    let lvl = tcx.lint_level_at_node(l, hid);
                    o.set("unsafe_code_lint", J::Str(format!("{:?}", lvl.level)));
                }
            }
            let lvl2 = tcx.lint_level_at_node(rustc_lint_defs::builtin::UNSAFE_OP_IN_UNSAFE_FN, hid);
            o.set("unsafe_op_lint", J::Str(format!("{:?}", lvl2.level)));
            let m = tcx.parent_module(hid);
            o.set("module", J::Str(self.path(m.to_def_id())));
        }
        let body = tcx.optimized_mir(did);
        o.set("mir", self.body(did, body));
        // promoteds: needed for constants hidden behind &CONST
        let proms = tcx.promoted_mir(did);
        if !proms.is_empty() {
            let ps: Vec<J> = proms.iter().map(|b| self.body(did, b)).collect();
            o.set("promoted", J::Arr(ps));
        }
        o
    }

    fn shape(&self, t: Ty<'tcx>, depth: usize) -> J {
        let tcx = self.tcx;
        let mut o = obj();
        o.set("ty", J::Str(self.ty_str(t)));
        let env = ty::TypingEnv::fully_monomorphized();
        let layout = match tcx.layout_of(env.as_query_input(t)) {
            Ok(l) => l,
            Err(_) => {
                o.set("kind", J::Str("nolayout".into()));
                return o;
            }
        };
        o.set("size", J::Int(layout.size.bytes() as i128));
        if depth > 6 {
            o.set("kind", J::Str("deep".into()));
            return o;
        }
        match t.kind() {
            ty::Bool => o.set("kind", J::Str("bool".into())),
            ty::Char => o.set("kind", J::Str("uint".into())),
            ty::Int(_) => o.set("kind", J::Str("int".into())),
            ty::Uint(_) => o.set("kind", J::Str("uint".into())),
            ty::Float(_) => o.set("kind", J::Str("float".into())),
            ty::Array(et, n) => {
                o.set("kind", J::Str("array".into()));
                let _ = n;
                if let rustc_abi::FieldsShape::Array { count, stride } = &layout.fields {
                    o.set("n", J::Int(*count as i128));
                    o.set("stride", J::Int(stride.bytes() as i128));
                }
                let et2 = tcx.normalize_erasing_regions(env, ty::Unnormalized::new_wip(*et));
                o.set("elem", self.shape(et2, depth + 1));
            }
            ty::Tuple(ts) => {
                o.set("kind", J::Str("struct".into()));
                let mut fs = Vec::new();
                for (i, ft) in ts.iter().enumerate() {
                    let mut fo = obj();
                    fo.set("name", J::Str(format!("{}", i)));
                    fo.set("offset", J::Int(layout.fields.offset(i).bytes() as i128));
                    fo.set("shape", self.shape(ft, depth + 1));
                    fs.push(fo);
                }
                o.set("fields", J::Arr(fs));
            }
            ty::Adt(def, args) if def.is_struct() => {
                o.set("kind", J::Str("struct".into()));
                o.set("adt", J::Str(self.path(def.did())));
                let mut fs = Vec::new();
                for (i, f) in def.non_enum_variant().fields.iter().enumerate() {
                    let mut fo = obj();
                    fo.set("name", J::Str(f.name.to_string()));
                    fo.set("offset", J::Int(layout.fields.offset(i).bytes() as i128));
                    let ft = f.ty(tcx, args);
                    let ft = tcx.normalize_erasing_regions(env, ty::Unnormalized::new_wip(ft));
                    fo.set("shape", self.shape(ft, depth + 1));
                    fs.push(fo);
                }
                o.set("fields", J::Arr(fs));
            }
            ty::Adt(def, _) if def.is_enum() => {
                o.set("kind", J::Str("enum".into()));
                o.set("adt", J::Str(self.path(def.did())));
                let mut vs = Vec::new();
                for (vi, v) in def.variants().iter_enumerated() {
                    let d = def.discriminant_for_variant(tcx, vi);
                    let mut vo = obj();
                    vo.set("name", J::Str(v.name.to_string()));
                    vo.set("discr", J::Int(d.val as i128));
                    vo.set("nfields", J::Int(v.fields.len() as i128));
                    vs.push(vo);
                }
                o.set("variants", J::Arr(vs));
            }
            ty::Ref(..) | ty::RawPtr(..) | ty::FnPtr(..) => o.set("kind", J::Str("ptr".into())),
            _ => o.set("kind", J::Str("other".into())),
        }
        o
    }

    fn dump_item(&self, did: DefId, kind: DefKind) -> Option<J> {
        let tcx = self.tcx;
        let mut o = obj();
        o.set("path", J::Str(self.path(did)));
        o.set("kind", J::Str(format!("{:?}", kind).split(|c: char| !c.is_alphanumeric()).next().unwrap_or("").to_string()));
        let sm = tcx.sess.source_map();
        let lo = sm.lookup_char_pos(tcx.def_span(did).lo());
        o.set("file", J::Str(format!("{}", lo.file.name.prefer_local_unconditionally())));
        o.set("line", J::Int(lo.line as i128));
        let t = tcx.type_of(did).instantiate_identity().skip_norm_wip();
        o.set("ty", J::Str(self.ty_str(t)));
        let generic = tcx.generics_of(did).requires_monomorphization(tcx);
        if let DefKind::Static { mutability, .. } = kind {
            o.set("mutable", J::Bool(mutability.is_mut()));
            let env = ty::TypingEnv::fully_monomorphized();
            o.set("freeze", J::Bool(t.is_freeze(tcx, env)));
            o.set("thread_local", J::Bool(tcx.is_thread_local_static(did)));
            if let Ok(alloc) = tcx.eval_static_initializer(did) {
                let a = alloc.inner();
                let len = a.len();
                if len <= (1 << 20) {
                    o.set("hex", J::Str(hex(a.inspect_with_uninit_and_ptr_outside_interpreter(0..len))));
                    let mut ptrs = Vec::new();
                    for (off, prov) in a.provenance().ptrs().iter() {
                        let mut po = obj();
                        po.set("at", J::Int(off.bytes() as i128));
                        self.alloc_target(prov.alloc_id(), &mut po, 0);
                        ptrs.push(po);
                    }
                    if !ptrs.is_empty() {
                        o.set("ptrs", J::Arr(ptrs));
                    }
                }
                o.set("shape", self.shape(t, 0));
            }
            return Some(o);
        }
        if generic || t.has_non_region_param_pub() {
            o.set("generic", J::Bool(true));
            // items generic over exactly one `const N: usize` (possibly from the enclosing impl):
            // evaluate at the small instantiation values requested through ZFACTS_CONST_INSTS
            let gens = tcx.generics_of(did);
            let mut params = Vec::new();
            let mut g = Some(gens);
            while let Some(gg) = g {
                for p in gg.own_params.iter() {
                    params.push(p.kind.clone());
                }
                g = gg.parent.map(|p| tcx.generics_of(p));
            }
            let only_one_const = params.len() == 1 && matches!(params[0], ty::GenericParamDefKind::Const { .. });
            if only_one_const {
                let mymod = self.tcx.parent_module_from_def_id_pub(did);
                let vals: Vec<u64> = self.const_args.borrow().iter().filter(|(m, _)| *m == mymod).map(|(_, v)| *v).take(8).collect();
                let mut insts = Vec::new();
                for v in vals {
                    let c = ty::Const::from_target_usize(tcx, v);
                    let args = tcx.mk_args(&[ty::GenericArg::from(c)]);
                    let instance = ty::Instance::new_raw(did, args);
                    let cid = mir::interpret::GlobalId { instance, promoted: None };
                    let env = ty::TypingEnv::fully_monomorphized();
                    if let Ok(val) = tcx.const_eval_global_id(env, cid, rustc_span::DUMMY_SP) {
                        let ity = tcx.type_of(did).instantiate(tcx, args).skip_norm_wip();
                        let ity = tcx.normalize_erasing_regions(env, ty::Unnormalized::new_wip(ity));
                        let mut io = obj();
                        io.set("n", J::Int(v as i128));
                        self.scalar_of_constvalue(val, ity, &mut io);
                        io.set("shape", self.shape(ity, 0));
                        insts.push(io);
                    }
                }
                if !insts.is_empty() {
                    o.set("insts", J::Arr(insts));
                }
            }
            return Some(o);
        }
        match tcx.const_eval_poly(did) {
            Ok(v) => {
                self.scalar_of_constvalue(v, t, &mut o);
                o.set("shape", self.shape(t, 0));
            }
            Err(_) => {
                o.set("eval_error", J::Bool(true));
            }
        }
        Some(o)
    }

    fn dump_adt(&self, did: DefId) -> J {
        let tcx = self.tcx;
        let def = tcx.adt_def(did);
        let mut o = obj();
        o.set("path", J::Str(self.path(did)));
        o.set("kind", J::Str(if def.is_enum() { "enum" } else if def.is_union() { "union" } else { "struct" }.into()));
        let sm = tcx.sess.source_map();
        let lo = sm.lookup_char_pos(tcx.def_span(did).lo());
        o.set("file", J::Str(format!("{}", lo.file.name.prefer_local_unconditionally())));
        o.set("line", J::Int(lo.line as i128));
        o.set("repr", J::Str(format!("{:?}", def.repr().flags)));
        let mut vs = Vec::new();
        for (vi, v) in def.variants().iter_enumerated() {
            let mut vo = obj();
            vo.set("name", J::Str(v.name.to_string()));
            if def.is_enum() {
                let d = def.discriminant_for_variant(tcx, vi);
                vo.set("discr", J::Int(d.val as i128));
            }
            let mut fs = Vec::new();
            for f in v.fields.iter() {
                let mut fo = obj();
                fo.set("name", J::Str(f.name.to_string()));
                let ft = tcx.type_of(f.did).instantiate_identity().skip_norm_wip();
                fo.set("ty", J::Str(self.ty_str(ft)));
                let mut flags = Vec::new();
                self.ty_flags(ft, &mut flags, 0);
                flags.sort();
                flags.dedup();
                fo.set("flags", J::Arr(flags.into_iter().map(|s| J::Str(s.into())).collect()));
                if let ty::Adt(d2, _) = ft.kind() {
                    fo.set("adt", J::Str(self.path(d2.did())));
                }
                fo.set("vis", J::Str(format!("{:?}", f.vis)));
                fs.push(fo);
            }
            vo.set("fields", J::Arr(fs));
            vs.push(vo);
        }
        o.set("variants", J::Arr(vs));
        // does it implement Clone / Copy ? (used by witnesses' bookkeeping)
        o
    }

    fn ty_flags(&self, t: Ty<'tcx>, out: &mut Vec<&'static str>, depth: usize) {
        if depth > 5 {
            return;
        }
        match t.kind() {
            ty::RawPtr(inner, _) => {
                out.push("rawptr");
                let _ = inner;
            }
            ty::Ref(_, inner, _) => {
                out.push("ref");
                self.ty_flags(*inner, out, depth + 1);
            }
            ty::FnPtr(..) => out.push("fnptr"),
            ty::Array(e, _) | ty::Slice(e) => self.ty_flags(*e, out, depth + 1),
            ty::Tuple(ts) => {
                for x in ts.iter() {
                    self.ty_flags(x, out, depth + 1);
                }
            }
            ty::Adt(def, args) => {
                let name = self.path(def.did());
                if name.ends_with("NonNull") {
                    out.push("nonnull");
                }
                if def.is_phantom_data() {
                    out.push("phantom");
                    return;
                }
                for v in def.variants().iter() {
                    for f in v.fields.iter() {
                        let ft = f.ty(self.tcx, args);
                        self.ty_flags(ft, out, depth + 1);
                    }
                }
            }
            _ => {}
        }
    }

    fn dump_crate(&self, krate: &str) -> J {
        let tcx = self.tcx;
        let mut root = obj();
        root.set("crate", J::Str(krate.to_string()));
        let mut cfgs = Vec::new();
        for (name, val) in tcx.sess.config.iter() {
            let n = name.to_string();
            if n == "feature" || n == "target_feature" || n == "debug_assertions" || n == "test" || n == "target_arch" || n == "target_os" {
                cfgs.push(J::Str(match val {
                    Some(v) => format!("{}={}", n, v),
                    None => n,
                }));
            }
        }
        root.set("cfg", J::Arr(cfgs));
        let mut fns = Vec::new();
        for ld in tcx.hir_body_owners() {
            let did = ld.to_def_id();
            let kind = tcx.def_kind(did);
            if matches!(kind, DefKind::Fn | DefKind::AssocFn | DefKind::Closure) {
                // skip const-only contexts where optimized_mir is not available
                if tcx.is_mir_available(did) {
                    fns.push(self.dump_fn(did));
                }
            }
        }
        root.set("fns", J::Arr(fns));
        let mut items = Vec::new();
        let mut adts = Vec::new();
        let mut foreign = Vec::new();
        for ld in tcx.hir_crate_items(()).definitions() {
            let did = ld.to_def_id();
            let kind = tcx.def_kind(did);
            match kind {
                DefKind::Const { .. } | DefKind::AssocConst { .. } | DefKind::Static { .. } => {
                    // skip trait-declared assoc consts without value
                    if matches!(kind, DefKind::AssocConst { .. }) {
                        let ai = tcx.associated_item(did);
                        if matches!(ai.container, ty::AssocContainer::Trait) && !ai.defaultness(tcx).has_value() {
                            continue;
                        }
                    }
                    if tcx.is_foreign_item(did) {
                        continue;
                    }
                    if let Some(j) = self.dump_item(did, kind) {
                        items.push(j);
                    }
                }
                DefKind::Struct | DefKind::Enum | DefKind::Union => adts.push(self.dump_adt(did)),
                DefKind::Fn if tcx.is_foreign_item(did) => {
                    foreign.push(J::Str(self.path(did)));
                }
                _ => {}
            }
        }
        root.set("items", J::Arr(items));
        root.set("adts", J::Arr(adts));
        root.set("foreign_fns", J::Arr(foreign));
        // trait impls of interest: which local ADTs implement Clone/Copy/Send/Sync explicitly
        let mut impls = Vec::new();
        for (trait_did, impl_dids) in tcx.all_local_trait_impls(()) {
            for i in impl_dids {
                let mut io = obj();
                io.set("trait", J::Str(self.path(*trait_did)));
                let st = tcx.type_of(i.to_def_id()).instantiate_identity().skip_norm_wip();
                io.set("for", J::Str(self.ty_str(st)));
                impls.push(io);
            }
        }
        root.set("impls", J::Arr(impls));
        root
    }
}

fn hex(b: &[u8]) -> String {
    let mut s = String::with_capacity(b.len() * 2);
    for x in b {
        let _ = write!(s, "{:02x}", x);
    }
    s
}

trait ParentModPub {
    fn parent_module_from_def_id_pub(self, did: DefId) -> String;
}
impl<'tcx> ParentModPub for TyCtxt<'tcx> {
    fn parent_module_from_def_id_pub(self, did: DefId) -> String {
        let mut cur = did;
        loop {
            match self.opt_parent(cur) {
                Some(p) => {
                    if matches!(self.def_kind(p), DefKind::Mod) {
                        return self.def_path_str(p);
                    }
                    cur = p;
                }
                None => return String::new(),
            }
        }
    }
}

trait HasParamPub {
    fn has_non_region_param_pub(&self) -> bool;
}
impl<'tcx, T: ty::TypeVisitableExt<TyCtxt<'tcx>>> HasParamPub for T {
    fn has_non_region_param_pub(&self) -> bool {
        self.has_non_region_param()
    }
}
